"""Order-abstract evaluation: a kernel that touches some inputs only through comparisons is evaluated
once per region of the induced partition, conditions being decided by a region representative.
Exactness is checked by using two representatives per open region and requiring equal outcomes."""
from __future__ import annotations

import sympy as sp


class RegionDecider:
    def __init__(self, assignment):
        self.assignment = dict(assignment)
        self.asked = []

    def __call__(self, cond):
        try:
            v = cond.subs(self.assignment)
            v = sp.simplify(v) if not isinstance(v, (sp.logic.boolalg.BooleanTrue, sp.logic.boolalg.BooleanFalse)) else v
        except Exception:  # noqa: BLE001
            return None
        self.asked.append(sp.sstr(cond))
        if v is sp.true or v == True:  # noqa: E712
            return True
        if v is sp.false or v == False:  # noqa: E712
            return False
        return None


def sign_regions():
    """Representatives of {-,0,+} with two points per open region."""
    return {"-": [sp.Rational(-3, 7), sp.Integer(-5)], "0": [sp.Integer(0)], "+": [sp.Rational(2, 9), sp.Integer(11)]}
