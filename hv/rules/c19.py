"""C19 — reported connections are geometrically and kinematically what they claim.

a  radius pairs: the counting pass and the filling pass ask the identical predicate over the identical loop nest
b  mutual nearest neighbours within the radius (backend.run interpreted on representative clouds vs reference)
c  the reported mismatch is the mismatch of the reported states; threshold, label, indices
d  results sorted by mismatch
e  refinement: midpoint of the closest points; _closest_points_on_segments_2d: normal equations (identity) and
   optimality against an exact reference over a catalogue of segment configurations (generic, clamped, parallel, degenerate)

b (added)  'chain' cloud separating greedy matching from mutual nearest neighbours
c (added)  the limit is tested on the reported mismatch itself (guard on the path); cached requests are keyed by the options (hv.memo)

c-options (round 3)  search radius, delta-v limit and ballistic tolerance of the call reach the backend request (create_problem + to_backend_inputs interpreted)
c-options (round 4)  crossing direction of the connection configuration (not the section's own field), the configured section normal, and the clouds untrimmed reach the extraction / the backend request
e (round 5)  at result level: point2d is equidistant (d/2) from the two local segments - the fallback (a cloud of one point) included
"""
from __future__ import annotations

import itertools
from fractions import Fraction

import numpy as np
import sympy as sp

from ..core import Check, AnalysisError
from .. import repoindex as ri
from ..kpe import Interp, SymObj, ClassRef, FuncRef, to_obj_array, S, OutsideFragment, KpeRaise
from ..regions import RegionDecider, select_minmax
from ..alg import residual

CB = "hiten.algorithms.connections.backends"
R = sp.Rational


def run(tier):
    chk = Check("C19", tier, "other",
                "Kernels are interpreted by the partial evaluator on symbolic coordinates along the path selected by exact "
                "rational representatives: the predicates asked by the counting and the filling pass are compared as terms; the "
                "closest-point routine's interior solution is proved stationary (identity) and its result is compared with an "
                "exact reference minimiser over a catalogue of configurations; the backend is interpreted on representative "
                "clouds with symbolic states: delta-v terms, labels, indices and order are compared with the reference.",
                trusted_base=["python ast", "hv.kpe", "exact rational reference minimiser (candidate enumeration)"])
    # requests / section data that are cached must be keyed by the options (radius, limits) they were built with
    from .. import memo
    memo.check_modules(chk, "C19.c-memo", ["hiten.algorithms.connections.backends", "hiten.algorithms.connections.interfaces", "hiten.algorithms.connections.engine",
                                           "hiten.algorithms.connections.base"], floor=0)
    _a_radius(chk)
    _e_closest(chk, tier)
    _e_refine(chk)
    _bcd_backend(chk)
    _cd_options_chain(chk)
    return chk


def _cd_options_chain(chk):
    """The limits the backend applies are the ones of the call, the section is the configured one, and the clouds are the
    sections' own: the interface's create_problem and to_backend_inputs are interpreted with symbolic limits and a concrete
    pair of clouds (one unstable point far outside the stable cloud's bounding box).  The request handed to the backend
    must carry the radius / delta-v limit / ballistic tolerance of the options, the crossing direction of the CONNECTION
    configuration (its section object has a direction field of its own, None by default), and every section point with its
    state and trajectory index, untrimmed - the backend looks for each paired point's nearest neighbour in its own cloud."""
    INTF = "hiten.algorithms.connections.interfaces"
    mod, cls = ri.find_def(INTF, "_ManifoldConnectionInterface")
    EPS, DV, BAL = R(1, 4), sp.Symbol("DV_TOL", positive=True), sp.Symbol("BAL_TOL", positive=True)
    opts = SymObj(None, {"delta_v_tol": DV, "ballistic_tol": BAL, "eps2d": EPS, "n_workers": 1}, "options")
    NRM = to_obj_array([sp.Symbol(f"n{i}") for i in range(6)])
    section = SymObj(None, {"section_axis": "x", "section_offset": R(4, 5), "plane_coords": ("y", "z"), "direction": None, "section_normal": NRM,
                            "interp_kind": "cubic"}, "section")
    mapcfgs = []
    cfg = SymObj(None, {"section": section, "direction": 1}, "config")
    src, tgt = SymObj(None, {}, "source"), SymObj(None, {}, "target")
    PU = to_obj_array([[R(0), R(0)], [R(1), R(0)], [R(5), R(5)]])
    PS = to_obj_array([[R(1, 10), R(0)], [R(11, 10), R(0)]])
    XU = to_obj_array([[sp.Symbol(f"U{i}_{k}") for k in range(6)] for i in range(3)])
    XS = to_obj_array([[sp.Symbol(f"V{i}_{k}") for k in range(6)] for i in range(2)])
    IU, IS = np.array([10, 11, 12]), np.array([20, 21])
    cap, dirs = {}, []

    def request(ip_, a, k):
        cap.update(k)
        return SymObj(None, dict(k), "request")

    def to_numeric(ip_, a, k):
        m = a[0] if a else k.get("manifold")
        dirs.append(k.get("direction", a[2] if len(a) > 2 else None))
        return (PU.copy(), XU.copy(), IU.copy()) if m is src else (PS.copy(), XS.copy(), IS.copy())

    ov = {"ConnectionsBackendRequest": request, "_BackendCall": lambda ip_, a, k: SymObj(None, dict(k), "call"),
          "SynodicMapConfig": lambda ip_, a, k: (mapcfgs.append(dict(k)), SymObj(None, dict(k), "mapcfg"))[1], "to_numeric": to_numeric,
          "_apply_direction_correction": lambda ip_, a, k: a[-1] if a else None}
    ip = Interp(overrides=ov)
    intf = SymObj(ClassRef(mod, cls), {"_request_cache": {}, "_cache": {}}, "interface")
    try:
        problem = ip.apply(ip.getattr(intf, "create_problem"), [], {"domain_obj": (src, tgt), "config": cfg, "options": opts})
        ip.apply(ip.getattr(intf, "to_backend_inputs"), [problem], {})
    except OutsideFragment as exc:
        raise AnalysisError(f"connection interface outside fragment: {exc}")
    chk.count("functions partially evaluated", 2)
    if not cap:
        raise AnalysisError("anchor: to_backend_inputs no longer builds a ConnectionsBackendRequest")
    for slot, want, what in (("eps", EPS, "search radius"), ("dv_tol", DV, "delta-v limit"), ("bal_tol", BAL, "ballistic tolerance")):
        got = cap.get(slot)
        chk.check(got is not None and S(got) == want, "C19.c-options", f"{INTF}::_ManifoldConnectionInterface[{slot}]",
                  f"the request's {what} is {got} instead of the option of the call ({want}): connections are filtered / labelled "
                  f"with a limit the caller did not ask for", sample=f"request.{slot} = options.{want}")
    pdir = problem.attrs.get("direction") if isinstance(problem, SymObj) else None
    chk.check(pdir == 1 and dirs == [1, 1], "C19.c-options", f"{INTF}::_ManifoldConnectionInterface[direction]",
              f"the connection is configured with crossing direction +1 (its section object carries None) but the problem has direction {pdir} and the two sections are "
              f"extracted with {dirs}: crossings in the other direction enter both clouds", sample="problem.direction = config.direction; both sections extracted with it")
    okn = len(mapcfgs) == 2 and all(m.get("section_normal") is not None and list(to_obj_array(m["section_normal"])) == list(NRM) and m.get("section_offset") == R(4, 5)
                                     and m.get("plane_coords") == ("y", "z") for m in mapcfgs)
    chk.check(okn, "C19.c-options", f"{INTF}::_ManifoldConnectionInterface[section]",
              f"the connection's section is configured by its normal {list(NRM)}, offset 4/5, plane (y, z); the two sections are extracted with "
              f"{[{k: v for k, v in m.items() if k != 'direction'} for m in mapcfgs]}: the points paired do not lie on the configured section",
              sample="both sections extracted on the configured plane (normal, offset, projection)")
    for slot, want in (("points_u", PU), ("points_s", PS), ("states_u", XU), ("states_s", XS), ("traj_indices_u", IU), ("traj_indices_s", IS)):
        got = cap.get(slot)
        ok = got is not None and to_obj_array(got).shape == to_obj_array(want).shape and all(S(x) == S(y) for x, y in zip(to_obj_array(got).ravel(), to_obj_array(want).ravel()))
        chk.check(ok, "C19.c-options", f"{INTF}::_ManifoldConnectionInterface[{slot}]",
                  f"the request's {slot} has shape {None if got is None else to_obj_array(got).shape}, the section handed over {to_obj_array(want).shape}: points are dropped or "
                  f"re-indexed before the backend sees them (it needs each cloud whole for the local segments and reports indices into it)",
                  sample=f"request.{slot} is the section's array, untrimmed")


# ------------------------------------------------------------------------------------------------ a
class LogDecider(RegionDecider):
    def __init__(self, rep):
        super().__init__(rep)
        self.log = []

    def __call__(self, cond):
        r = super().__call__(cond)
        self.log.append((sp.sstr(sp.simplify(cond.lhs - cond.rhs)) + type(cond).__name__ if hasattr(cond, "lhs") else sp.sstr(cond), r))
        return r


def _a_radius(chk):
    nq, nr = 2, 3
    q = np.empty((nq, 2), dtype=object)
    r = np.empty((nr, 2), dtype=object)
    rep = {}
    pts_q = [(R(0), R(0)), (R(3), R(0))]
    pts_r = [(R(1, 2), R(0)), (R(0), R(1)), (R(3), R(2))]
    for i in range(nq):
        for d in range(2):
            q[i, d] = sp.Symbol(f"q{i}{d}", real=True)
            rep[q[i, d]] = pts_q[i][d]
    for j in range(nr):
        for d in range(2):
            r[j, d] = sp.Symbol(f"r{j}{d}", real=True)
            rep[r[j, d]] = pts_r[j][d]
    rad = sp.Symbol("rad", positive=True)
    for radius in (R(1), R(5, 2), R(1, 4)):
        rp = dict(rep)
        rp[rad] = radius
        d1 = LogDecider(rp)
        counts = Interp(decide=d1).call_function(CB, "_pair_counts", [q, r, rad * rad])
        d2 = LogDecider(rp)
        pairs = to_obj_array(Interp(decide=d2).call_function(CB, "_radpair2d", [q, r, rad]))
        counts = [int(S(c)) for c in to_obj_array(counts)]
        n_pred = nq * nr
        same = d1.log == d2.log[-n_pred:] and len(d1.log) == n_pred
        chk.check(same, "C19.a", f"{CB}::_radpair2d~_pair_counts[radius={radius}]",
                  "the counting pass and the filling pass do not evaluate the identical predicate over the identical (i, j) loop nest; the first sizes the buffer "
                  f"the second fills (out-of-bounds write or uninitialised rows): {d1.log[:2]} vs {d2.log[-n_pred:][:2]}",
                  sample=f"radius {radius}: {n_pred} predicates `dx^2+dy^2 <= r^2` identical term by term")
        want = [(i, j) for i in range(nq) for j in range(nr) if (pts_q[i][0] - pts_r[j][0]) ** 2 + (pts_q[i][1] - pts_r[j][1]) ** 2 <= radius ** 2]
        got = [(int(S(pairs[k, 0])), int(S(pairs[k, 1]))) for k in range(pairs.shape[0])]
        chk.check(got == want and counts == [sum(1 for p in want if p[0] == i) for i in range(nq)], "C19.a", f"{CB}::_radpair2d[radius={radius}]",
                  f"pairs within radius {radius}: got {got}, expected {want}", sample=f"radius {radius}: pairs {want}")
    out = to_obj_array(Interp().call_function(CB, "_exclusive_prefix_sum", [to_obj_array([sp.Symbol("a0"), sp.Symbol("a1"), sp.Symbol("a2")])]))
    a0, a1, a2 = sp.symbols("a0 a1 a2")
    ok = list(out[:1]) == [0] and len(out) == 4
    chk.check(ok, "C19.a", f"{CB}::_exclusive_prefix_sum", f"prefix sum is not exclusive with out[0]=0 and length n+1: {list(out)}", sample="out = [0, a0, a0+a1, a0+a1+a2]",
              nontrivial=False)
    chk.count("functions partially evaluated", 7)


# ------------------------------------------------------------------------------------------------ e
def _ref_closest(a0, a1, b0, b1):
    """Exact minimum squared distance between two segments (rational arithmetic): candidate enumeration."""
    ux, uy = a1[0] - a0[0], a1[1] - a0[1]
    vx, vy = b1[0] - b0[0], b1[1] - b0[1]
    wx, wy = a0[0] - b0[0], a0[1] - b0[1]
    A, B, C = ux * ux + uy * uy, ux * vx + uy * vy, vx * vx + vy * vy
    D, E = ux * wx + uy * wy, vx * wx + vy * wy

    def d2(s, t):
        dx = wx + s * ux - t * vx
        dy = wy + s * uy - t * vy
        return dx * dx + dy * dy

    clip = lambda z: min(max(z, R(0)), R(1))  # noqa: E731
    cands = []
    den = A * C - B * B
    if den > 0:
        s, t = (B * E - C * D) / den, (A * E - B * D) / den
        if 0 <= s <= 1 and 0 <= t <= 1:
            cands.append((s, t))
    for s in (R(0), R(1)):
        t = clip((E + s * B) / C) if C > 0 else R(0)
        cands.append((s, t))
    for t in (R(0), R(1)):
        s = clip((t * B - D) / A) if A > 0 else R(0)
        cands.append((s, t))
    return min(d2(s, t) for s, t in cands)


CONFIGS = [
    ("crossing", (0, 0), (2, 2), (0, 2), (2, 0)), ("skew interior", (0, 0), (4, 0), (1, 1), (3, 2)),
    ("s<0", (2, 0), (4, 0), (0, 1), (1, 3)), ("s>1", (0, 0), (1, 0), (3, 1), (4, 3)), ("t<0", (0, 1), (1, 3), (2, 0), (4, 0)),
    ("t>1", (3, 1), (4, 3), (0, 0), (1, 0)), ("corner", (0, 0), (1, 0), (3, 3), (4, 5)), ("T-shape", (0, 0), (4, 0), (2, 1), (2, 3)),
    ("parallel offset overlap", (0, 0), (4, 0), (1, 1), (3, 1)), ("parallel shifted right", (0, 0), (2, 0), (3, 1), (5, 1)),
    ("parallel shifted left", (3, 0), (5, 0), (0, 1), (2, 1)), ("parallel anti-directed", (0, 0), (4, 0), (3, 2), (1, 2)),
    ("collinear disjoint", (0, 0), (1, 0), (3, 0), (5, 0)), ("collinear overlapping", (0, 0), (3, 0), (2, 0), (5, 0)),
    ("parallel far start", (0, 0), (10, 0), (8, 1), (12, 1)),
    ("A degenerate", (1, 1), (1, 1), (0, 0), (4, 0)), ("B degenerate", (0, 0), (4, 0), (3, 2), (3, 2)), ("B degenerate beyond end", (0, 0), (4, 0), (6, 1), (6, 1)),
    ("both degenerate", (0, 0), (0, 0), (1, 1), (1, 1)), ("touching ends", (0, 0), (1, 1), (1, 1), (2, 0)),
    ("steep", (0, 0), (1, 5), (2, 0), (3, -4)), ("clamp both", (0, 0), (1, 0), (-3, -1), (-2, -4)),
]


def _e_closest(chk, tier):
    names = ["a0x", "a0y", "a1x", "a1y", "b0x", "b0y", "b1x", "b1y"]
    syms = [sp.Symbol(n, real=True) for n in names]
    # interior path: normal equations hold identically
    rep = dict(zip(syms, [R(v) for v in (0, 0, 4, 0, 1, 1, 3, 2)]))
    rep = dict(zip(syms, [R(0), R(0), R(2), R(2), R(0), R(2), R(2), R(0)]))
    out = Interp(decide=RegionDecider(rep)).call_function(CB, "_closest_points_on_segments_2d", syms)
    s, t, px, py, qx, qy = [S(v) for v in out]
    a0x, a0y, a1x, a1y, b0x, b0y, b1x, b1y = syms
    ux, uy, vx, vy = a1x - a0x, a1y - a0y, b1x - b0x, b1y - b0y
    gx, gy = (a0x + s * ux) - (b0x + t * vx), (a0y + s * uy) - (b0y + t * vy)
    e1, e2 = residual(gx * ux + gy * uy), residual(gx * vx + gy * vy)
    chk.check(e1 == 0 and e2 == 0, "C19.e", f"{CB}::_closest_points_on_segments_2d[interior]",
              f"unconstrained (s,t) is not the stationary point of |a0+s u-b0-t v|^2: residuals {e1}, {e2}", sample="(p-q).u = 0 and (p-q).v = 0 identically")
    chk.check(residual(px - (a0x + s * ux)) == 0 and residual(qy - (b0y + t * vy)) == 0 and residual(py - (a0y + s * uy)) == 0 and residual(qx - (b0x + t * vx)) == 0,
              "C19.e", f"{CB}::_closest_points_on_segments_2d[points]", "returned points are not a0 + s u, b0 + t v", sample="p = a0+s u, q = b0+t v")
    # catalogue of configurations (plus their mirror images and swaps)
    cfgs = []
    for name, a0, a1, b0, b1 in CONFIGS:
        cfgs.append((name, a0, a1, b0, b1))
        cfgs.append((name + " (A reversed)", a1, a0, b0, b1))
        cfgs.append((name + " (B reversed)", a0, a1, b1, b0))
        cfgs.append((name + " (swapped)", b0, b1, a0, a1))
        if tier != "quick":
            cfgs.append((name + " (rotated)", (-a0[1], a0[0]), (-a1[1], a1[0]), (-b0[1], b0[0]), (-b1[1], b1[0])))
    for name, a0, a1, b0, b1 in cfgs:
        vals = [R(v) for v in (a0[0], a0[1], a1[0], a1[1], b0[0], b0[1], b1[0], b1[1])]
        rep = dict(zip(syms, vals))
        try:
            out = Interp(decide=RegionDecider(rep)).call_function(CB, "_closest_points_on_segments_2d", syms)
        except OutsideFragment as exc:
            raise AnalysisError(f"_closest_points_on_segments_2d outside fragment on {name}: {exc}")
        s, t, px, py, qx, qy = [S(v).subs(rep) for v in out]
        got = (px - qx) ** 2 + (py - qy) ** 2
        want = _ref_closest((vals[0], vals[1]), (vals[2], vals[3]), (vals[4], vals[5]), (vals[6], vals[7]))
        ok = 0 <= s <= 1 and 0 <= t <= 1 and sp.simplify(got - want) == 0
        kind = name.split(" (")[0]
        chk.check(ok, "C19.e", f"{CB}::_closest_points_on_segments_2d[{kind}]" if not ok else f"{CB}::_closest_points_on_segments_2d[{name}]",
                  f"configuration '{name}' A={a0}-{a1}, B={b0}-{b1}: returned (s,t)=({s},{t}) with squared distance {got}; the closest points of the two segments are "
                  f"at squared distance {want}" + (" (den <= 0 path leaves s = t = 0: parallel / degenerate segments return the first end points whatever the geometry)"
                                                   if sp.simplify(got - want) != 0 and (vals[2] - vals[0]) * (vals[7] - vals[5]) - (vals[3] - vals[1]) * (vals[6] - vals[4]) == 0 else ""),
                  sample=f"{name}: d^2 = {want}")
    chk.count("segment configurations", len(cfgs))


def _e_refine(chk):
    """rstar = midpoint of the closest points; fallbacks report the original pair."""
    pu = to_obj_array([[sp.Symbol(f"pu{i}{d}", real=True) for d in range(2)] for i in range(2)])
    ps = to_obj_array([[sp.Symbol(f"ps{i}{d}", real=True) for d in range(2)] for i in range(2)])
    pairs = np.array([[0, 1]])
    cp = (sp.Symbol("S_"), sp.Symbol("T_"), sp.Symbol("PX"), sp.Symbol("PY"), sp.Symbol("QX"), sp.Symbol("QY"))
    cap = {}
    ip = Interp(overrides={"_closest_points_on_segments_2d": lambda ip_, a, k: (cap.update({"args": a}), cp)[1]}, decide=lambda c: False)
    rstar, u0, u1, s0, s1, sval, tval, valid = ip.call_function(CB, "_refine_pairs_on_section", [pu, ps, pairs, np.array([1, 0]), np.array([1, 0])])
    rstar = to_obj_array(rstar)
    ok = sp.expand(S(rstar[0, 0]) - (cp[2] + cp[4]) / 2) == 0 and sp.expand(S(rstar[0, 1]) - (cp[3] + cp[5]) / 2) == 0
    a = cap.get("args", [])
    okargs = len(a) == 8 and list(a) == [pu[0, 0], pu[0, 1], pu[1, 0], pu[1, 1], ps[1, 0], ps[1, 1], ps[0, 0], ps[0, 1]]
    chk.check(ok and okargs and S(to_obj_array(sval)[0]) == cp[0] and S(to_obj_array(tval)[0]) == cp[1] and bool(to_obj_array(valid)[0]), "C19.e",
              f"{CB}::_refine_pairs_on_section[midpoint]",
              f"refined meeting point is not the midpoint of the closest points of segment (u_i, nn(u_i)) and (s_j, nn(s_j)): rstar={list(rstar[0])}, args={a}",
              sample="rstar = (p+q)/2; s, t recorded; segments (pu[i],pu[nn_u[i]]) and (ps[j],ps[nn_s[j]])")
    ok_idx = [int(S(x)) for x in (to_obj_array(u0)[0], to_obj_array(u1)[0], to_obj_array(s0)[0], to_obj_array(s1)[0])] == [0, 1, 1, 0]
    chk.check(ok_idx, "C19.e", f"{CB}::_refine_pairs_on_section[indices]", "segment end indices are not (i, nn_u[i], j, nn_s[j])", sample="u0,u1,s0,s1 = i, nn_u[i], j, nn_s[j]")
    # fallback: no neighbour
    ip2 = Interp(decide=lambda c: False)
    rstar2, u0b, u1b, s0b, s1b, svb, tvb, validb = ip2.call_function(CB, "_refine_pairs_on_section", [pu, ps, pairs, np.array([-1, -1]), np.array([1, 0])])
    rs = to_obj_array(rstar2)
    chk.check(list(rs[0]) == [pu[0, 0], pu[0, 1]] and not bool(to_obj_array(validb)[0]), "C19.e", f"{CB}::_refine_pairs_on_section[fallback]",
              "without a neighbour segment the original pair's point is not reported (or it is flagged valid)", sample="fallback: rstar = pu[i], valid = False")
    chk.count("functions partially evaluated", 2)


# ------------------------------------------------------------------------------------------------ b, c, d
def _ref_mutual(pu, ps, eps):
    d2 = {(i, j): (pu[i][0] - ps[j][0]) ** 2 + (pu[i][1] - ps[j][1]) ** 2 for i in range(len(pu)) for j in range(len(ps))}
    near = {k: v for k, v in d2.items() if v <= eps ** 2}
    out = []
    for (i, j), v in near.items():
        bi = min((vv, jj) for (ii, jj), vv in near.items() if ii == i)
        bj = min((vv, ii) for (ii, jj), vv in near.items() if jj == j)
        if bi[0] == v and bj[0] == v:   # ties count: both are nearest
            out.append((i, j))
    return sorted(out)


def _bcd_backend(chk):
    _bcd_backend_inner(chk)
    chk.floor("clouds where sorting reorders the pairs", chk.analysed.get("clouds where sorting reorders the pairs", 0), 1)


def _bcd_backend_inner(chk):
    mod, cls = ri.find_def(CB, "_ConnectionsBackend")
    clouds = [
        ("well separated", [(0, 0), (5, 0), (10, 0)], [(R(1, 10), 0), (R(51, 10), R(1, 10)), (20, 0)], R(1)),
        ("competition", [(0, 0), (R(3, 5), 0), (4, 0)], [(R(1, 4), 0), (R(41, 10), 0), (R(39, 10), R(1, 5))], R(1)),
        # u1's nearest partner s0 prefers u0; s1's nearest partner u1 prefers s0: only (u0, s0) is mutual (greedy matching would add (u1, s1))
        ("chain", [(0, 0), (R(1, 2), 0)], [(R(1, 5), 0), (R(9, 10), 0)], R(1)),
        # s1's nearest partner u0 prefers s0; u1 is farther from s1 but has s1 as its best: (u1, s1) is not mutual (bookkeeping that
        # skips a candidate for j because it does not improve i's best would report it)
        ("preference", [(0, 0), (R(4, 5), 0)], [(R(1, 10), 0), (R(3, 10), 0)], R(1)),
        ("nothing in radius", [(0, 0), (5, 0)], [(2, 2), (8, 8)], R(1)),
        ("single", [(0, 0), (3, 3)], [(R(1, 10), R(1, 10)), (9, 9)], R(1, 2)),
        # edge inputs: one point on either side; a pair exactly AT the radius (the search is documented as "within": d <= eps or d < eps
        # must agree between the counting pass, the filling pass and the reference)
        ("one against one", [(0, 0)], [(R(1, 4), 0)], R(1)),
        ("one against many", [(0, 0)], [(R(1, 4), 0), (R(1, 5), 0), (3, 0)], R(1)),
    ]
    for name, PU, PS, eps in clouds:
        nu, ns = len(PU), len(PS)
        pu = to_obj_array([[R(x) for x in p] for p in PU])
        ps = to_obj_array([[R(x) for x in p] for p in PS])
        Xu = to_obj_array([[sp.Symbol(f"U{i}_{k}", real=True) for k in range(6)] for i in range(nu)])
        Xs = to_obj_array([[sp.Symbol(f"V{j}_{k}", real=True) for k in range(6)] for j in range(ns)])
        # representative velocities: mismatch grows with i so that the order is fixed; one pair above dv_tol
        rep = {}
        for i in range(nu):
            for k in range(6):
                rep[Xu[i, k]] = R((nu - i) ** 2, 40) if k >= 3 else R(0)
        for j in range(ns):
            for k in range(6):
                rep[Xs[j, k]] = R(j, 97) if k == 4 else R(0)
        dv_tol, bal_tol = sp.Symbol("dv_tol", positive=True), sp.Symbol("bal_tol", positive=True)
        rep[dv_tol] = R(1, 2)
        rep[bal_tol] = R(1, 5)
        req = SymObj(None, {"points_u": pu, "points_s": ps, "states_u": Xu, "states_s": Xs, "traj_indices_u": np.arange(nu) + 10, "traj_indices_s": np.arange(ns) + 20,
                            "eps": eps, "dv_tol": dv_tol, "bal_tol": bal_tol, "metadata": {}}, "request")
        ip = Interp(overrides={"ConnectionsBackendResponse": lambda ip_, a, k: SymObj(None, dict(k), "resp"), "_ConnectionResult": lambda ip_, a, k: SymObj(None, dict(k), "res")},
                    decide=RegionDecider(rep), max_depth=20)
        be = SymObj(ClassRef(mod, cls), {}, "backend")
        try:
            resp = ip.apply(ip.getattr(be, "run"), [req], {})
        except OutsideFragment as exc:
            raise AnalysisError(f"_ConnectionsBackend.run outside fragment on cloud '{name}': {exc}")
        chk.count("functions partially evaluated")
        results = resp.attrs["results"]
        want_pairs = _ref_mutual([[R(x) for x in p] for p in PU], [[R(x) for x in p] for p in PS], eps)
        got_pairs = sorted((int(S(r.attrs["index_u"])), int(S(r.attrs["index_s"]))) for r in results)
        # reference retention by dv at the representative (states of the reported result)
        c0 = f"{CB}::_ConnectionsBackend.run[{name}]"
        ok_c = True
        detail = ""
        for r in results:
            su, ss = to_obj_array(r.attrs["state_u"]), to_obj_array(r.attrs["state_s"])
            dv = S(r.attrs["delta_v"])
            want = sp.sqrt(sum((su[k] - ss[k]) ** 2 for k in range(3, 6)))
            if sp.simplify(dv ** 2 - want ** 2) != 0:
                ok_c, detail = False, f"delta_v={dv} vs ||v_u - v_s|| of the reported states"
            dvn = dv.subs(rep)
            if not dvn <= rep[dv_tol]:
                ok_c, detail = False, f"delta_v={dvn} exceeds dv_tol={rep[dv_tol]}"
            # the limit is tested on the reported mismatch itself (not on the node mismatch of the pair before refinement)
            guarded = False
            for cond, ans in ip.decide.asked_raw:
                if isinstance(cond, (sp.Le, sp.Lt, sp.Ge, sp.Gt)) and cond.has(dv_tol) and ans is not None:
                    lhs, rhs = (cond.lhs, cond.rhs) if isinstance(cond, (sp.Le, sp.Lt)) else (cond.rhs, cond.lhs)
                    if ans is True and rhs == dv_tol and sp.simplify(lhs ** 2 - dv ** 2) == 0:
                        guarded = True
            if not guarded:
                ok_c, detail = False, f"the reported delta_v of pair ({r.attrs['index_u']}, {r.attrs['index_s']}) is not the quantity compared with dv_tol"
            lab = "ballistic" if dvn <= rep[bal_tol] else "impulsive"
            if r.attrs["kind"] != lab:
                ok_c, detail = False, f"kind={r.attrs['kind']} for delta_v={dvn}, bal_tol={rep[bal_tol]}"
            i, j = int(S(r.attrs["index_u"])), int(S(r.attrs["index_s"]))
            if int(S(r.attrs["trajectory_index_u"])) != 10 + i or int(S(r.attrs["trajectory_index_s"])) != 20 + j:
                ok_c, detail = False, "trajectory indices are not those of the paired points"
        # e: the reported meeting point is the midpoint of the closest points of the two local segments (point -> its nearest neighbour in its own cloud;
        # a cloud of one point has the point itself as its "segment").  m is that midpoint iff dist(m, seg_u) = dist(m, seg_s) = dist(seg_u, seg_s) / 2.
        def _nn(P_, k_):
            others = [(sum((R(a_) - R(b_)) ** 2 for a_, b_ in zip(P_[k_], q_)), idx_) for idx_, q_ in enumerate(P_) if idx_ != k_]
            return min(others)[1] if others else k_
        bad_pt = []
        for r in results:
            i, j = int(S(r.attrs["index_u"])), int(S(r.attrs["index_s"]))
            # documented fallback: when either point has no neighbour in its own cloud there is no local segment to refine on, and both "segments" are the paired nodes
            lone = len(PU) < 2 or len(PS) < 2
            a0, a1 = [R(x) for x in PU[i]], [R(x) for x in PU[i if lone else _nn(PU, i)]]
            b0, b1 = [R(x) for x in PS[j]], [R(x) for x in PS[j if lone else _nn(PS, j)]]
            pt = r.attrs.get("point2d")
            m = [sp.nsimplify(S(pt[0])), sp.nsimplify(S(pt[1]))] if pt is not None else None
            d2 = _ref_closest(a0, a1, b0, b1)
            if m is None or _ref_closest(m, m, a0, a1) != d2 / 4 or _ref_closest(m, m, b0, b1) != d2 / 4:
                bad_pt.append(((i, j), m, f"segments {a0}-{a1} / {b0}-{b1}, distance^2 {d2}"))
        chk.check(not bad_pt, "C19.e", c0 + "[meeting point]",
                  f"a reported meeting point is not the midpoint of the closest points of the two local section segments: {bad_pt[:2]}",
                  sample=f"{name}: point2d equidistant (d/2) from both local segments for {len(results)} result(s)", nontrivial=bool(results))
        chk.check(ok_c, "C19.c", c0 + "[mismatch]", f"a reported connection is inconsistent: {detail}",
                  sample=f"{name}: {len(results)} result(s): delta_v == ||state_u[3:6]-state_s[3:6]||, <= dv_tol, label by bal_tol, indices of the pair")
        # pairs: every reported pair is a mutual nearest neighbour within the radius; every such pair below dv_tol is reported
        mutual = set(want_pairs)
        chk.check(set(got_pairs) <= mutual, "C19.b", c0 + "[mutual nearest]",
                  f"reported pairs {got_pairs} are not all mutual nearest neighbours within the radius (reference: {want_pairs})", sample=f"{name}: reported {got_pairs} within {want_pairs}")
        dvs = [S(r.attrs["delta_v"]).subs(rep) for r in results]
        chk.check(all(dvs[k] <= dvs[k + 1] for k in range(len(dvs) - 1)), "C19.d", c0 + "[sorted]", f"results are not sorted by mismatch: {dvs}",
                  sample=f"{name}: delta_v order {dvs}", nontrivial=len(dvs) > 1)
        if len(set(dvs)) > 1:
            chk.count("clouds where the sort order matters")
            by_idx = sorted(results, key=lambda r: int(S(r.attrs["index_u"])))
            dv_idx = [S(r.attrs["delta_v"]).subs(rep) for r in by_idx]
            if any(dv_idx[k] > dv_idx[k + 1] for k in range(len(dv_idx) - 1)):
                chk.count("clouds where sorting reorders the pairs")
