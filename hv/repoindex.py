"""E0: the resolved program — modules, symbols, imports, classes, functions.

Parses /repo/src/hiten (never imports it).  Everything is keyed by dotted module
name and qualified name; a missing anchor raises AnalysisError (fail closed).
"""
from __future__ import annotations

import ast
import os
from functools import lru_cache

from .core import SRC, AnalysisError

PKG = "hiten"


def module_path(modname: str):
    rel = modname.replace(".", "/")
    for cand in (os.path.join(SRC, rel + ".py"), os.path.join(SRC, rel, "__init__.py")):
        if os.path.isfile(cand):
            return cand
    return None


class Module:
    def __init__(self, name: str, path: str):
        self.name = name
        self.path = path
        with open(path, encoding="utf-8") as fh:
            self.source = fh.read()
        self.tree = ast.parse(self.source, filename=path)
        self.is_pkg = os.path.basename(path) == "__init__.py"
        for node in ast.walk(self.tree):
            for child in ast.iter_child_nodes(node):
                child._parent = node  # type: ignore[attr-defined]
        self.defs = {}        # name -> FunctionDef | ClassDef (module level, last wins)
        self.assigns = {}     # name -> list of value nodes (module level simple assignments)
        self.imports = {}     # name -> ("module", dotted) | ("from", dotted, attr)
        self.type_only = set()  # names bound only under `if TYPE_CHECKING:`
        self._scan(self.tree.body, type_only=False)

    @property
    def relpath(self):
        return os.path.relpath(self.path, os.path.dirname(SRC))

    def _abs(self, level, module):
        if level == 0:
            return module or ""
        parts = self.name.split(".")
        if not self.is_pkg:
            parts = parts[:-1]
        if level > 1:
            parts = parts[: len(parts) - (level - 1)]
        return ".".join(parts + ([module] if module else []))

    def _scan(self, body, type_only):
        for st in body:
            if isinstance(st, (ast.FunctionDef, ast.AsyncFunctionDef, ast.ClassDef)):
                self.defs[st.name] = st
            elif isinstance(st, ast.Import):
                for a in st.names:
                    bound = a.asname or a.name.split(".")[0]
                    target = a.name if a.asname else a.name.split(".")[0]
                    self.imports[bound] = ("module", target)
                    if type_only:
                        self.type_only.add(bound)
            elif isinstance(st, ast.ImportFrom):
                base = self._abs(st.level, st.module)
                for a in st.names:
                    bound = a.asname or a.name
                    self.imports[bound] = ("from", base, a.name)
                    if type_only:
                        self.type_only.add(bound)
            elif isinstance(st, ast.Assign):
                for t in st.targets:
                    if isinstance(t, ast.Name):
                        self.assigns.setdefault(t.id, []).append(st.value)
                    elif isinstance(t, ast.Tuple) and isinstance(st.value, ast.Tuple) and len(t.elts) == len(st.value.elts):
                        for tt, vv in zip(t.elts, st.value.elts):
                            if isinstance(tt, ast.Name):
                                self.assigns.setdefault(tt.id, []).append(vv)
            elif isinstance(st, ast.AnnAssign) and isinstance(st.target, ast.Name) and st.value is not None:
                self.assigns.setdefault(st.target.id, []).append(st.value)
            elif isinstance(st, ast.If):
                tc = _is_type_checking(st.test)
                self._scan(st.body, type_only or tc)
                self._scan(st.orelse, type_only)
            elif isinstance(st, ast.Try):
                self._scan(st.body, type_only)
                for h in st.handlers:
                    self._scan(h.body, type_only)
                self._scan(st.orelse, type_only)
                self._scan(st.finalbody, type_only)

    def segment(self, node):
        return ast.get_source_segment(self.source, node) or ""


def _is_type_checking(test):
    return (isinstance(test, ast.Name) and test.id == "TYPE_CHECKING") or (
        isinstance(test, ast.Attribute) and test.attr == "TYPE_CHECKING")


@lru_cache(maxsize=None)
def load_module(name: str):
    path = module_path(name)
    if path is None:
        return None
    return Module(name, path)


def need_module(name: str) -> Module:
    m = load_module(name)
    if m is None:
        raise AnalysisError(f"anchor module {name} not found")
    return m


def all_modules(include_tests=False):
    out = []
    root = os.path.join(SRC, PKG)
    for dp, dn, fn in os.walk(root):
        dn[:] = sorted(d for d in dn if d != "__pycache__" and (include_tests or d != "_tests"))
        for f in sorted(fn):
            if f.endswith(".py"):
                p = os.path.join(dp, f)
                rel = os.path.relpath(p, SRC)[:-3].replace(os.sep, ".")
                if rel.endswith(".__init__"):
                    rel = rel[: -len(".__init__")]
                m = load_module(rel)
                if m is not None:
                    out.append(m)
    return out


def resolve(mod: Module, name: str, depth=0):
    """Resolve a module-level name to ("def", Module, node) / ("assign", Module, node) /
    ("module", dotted) / ("external", dotted) / None."""
    if depth > 12:
        return None
    if name in mod.defs:
        return ("def", mod, mod.defs[name])
    if name in mod.imports:
        imp = mod.imports[name]
        if imp[0] == "module":
            tgt = imp[1]
            if tgt.split(".")[0] == PKG:
                return ("module", tgt)
            return ("external", tgt)
        _, base, attr = imp
        if base.split(".")[0] != PKG:
            return ("external", f"{base}.{attr}")
        sub = load_module(f"{base}.{attr}")
        tm = load_module(base)
        if tm is not None:
            r = resolve(tm, attr, depth + 1)
            if r is not None:
                return r
        if sub is not None:
            return ("module", f"{base}.{attr}")
        return None
    if name in mod.assigns:
        return ("assign", mod, mod.assigns[name][-1], name)
    return None


_FIND_CACHE = {}


def find_def(modname: str, qualname: str):
    """Return (Module, node) for `qualname` = `func` | `Class.method` | `func.inner`."""
    key = (modname, qualname)
    if key not in _FIND_CACHE:
        _FIND_CACHE[key] = _find_def(modname, qualname)
    return _FIND_CACHE[key]


def _find_def(modname: str, qualname: str):
    mod = need_module(modname)
    parts = qualname.split(".")
    body = mod.tree.body
    node = None
    for p in parts:
        found = None
        for st in _iter_defs(body):
            if st.name == p:
                found = st
        if found is None:
            raise AnalysisError(f"anchor {modname}::{qualname} not found (missing '{p}')")
        node = found
        body = found.body
    return mod, node


def _iter_defs(body):
    for st in body:
        if isinstance(st, (ast.FunctionDef, ast.AsyncFunctionDef, ast.ClassDef)):
            yield st
        elif isinstance(st, (ast.If, ast.Try, ast.With, ast.For, ast.While)):
            for fld in ("body", "orelse", "finalbody"):
                yield from _iter_defs(getattr(st, fld, []) or [])
            for h in getattr(st, "handlers", []) or []:
                yield from _iter_defs(h.body)


def class_bases(mod: Module, cls: ast.ClassDef):
    """Resolved base classes as (Module, ClassDef) (repo classes only)."""
    out = []
    for b in cls.bases:
        r = None
        if isinstance(b, ast.Name):
            r = resolve(mod, b.id)
        elif isinstance(b, ast.Subscript) and isinstance(b.value, ast.Name):  # Generic[...]
            r = resolve(mod, b.value.id)
        elif isinstance(b, ast.Attribute) and isinstance(b.value, ast.Name):
            rr = resolve(mod, b.value.id)
            if rr and rr[0] == "module":
                tm = load_module(rr[1])
                if tm:
                    r = resolve(tm, b.attr)
        if r and r[0] == "def" and isinstance(r[2], ast.ClassDef):
            out.append((r[1], r[2]))
    return out


def mro(mod: Module, cls: ast.ClassDef):
    """Linearisation good enough for single-inheritance-with-mixins trees: DFS, left to right,
    duplicates removed keeping the last occurrence (matches C3 on hiten's hierarchies)."""
    seq = []

    def walk(m, c):
        seq.append((m, c))
        for bm, bc in class_bases(m, c):
            walk(bm, bc)

    walk(mod, cls)
    out = []
    seen = set()
    for m, c in reversed(seq):
        key = (m.name, c.name)
        if key in seen:
            continue
        seen.add(key)
        out.append((m, c))
    return list(reversed(out))


def class_member(mod: Module, cls: ast.ClassDef, name: str, kind=None):
    """Find a method/attribute through the MRO.  kind: None | 'setter' | 'getter'."""
    for m, c in mro(mod, cls):
        hit = None
        for st in c.body:
            if isinstance(st, (ast.FunctionDef, ast.AsyncFunctionDef)) and st.name == name:
                decos = [ast.unparse(d) for d in st.decorator_list]
                is_setter = any(d.endswith(".setter") for d in decos)
                if kind == "setter" and not is_setter:
                    continue
                if kind != "setter" and is_setter:
                    continue
                hit = st
                break
            if isinstance(st, ast.Assign):
                for t in st.targets:
                    if isinstance(t, ast.Name) and t.id == name and kind is None:
                        hit = st
            if isinstance(st, ast.AnnAssign) and isinstance(st.target, ast.Name) and st.target.id == name and kind is None and st.value is not None:
                hit = st
        if hit is not None:
            return m, c, hit
    return None


def decorators(node):
    return [ast.unparse(d) for d in getattr(node, "decorator_list", [])]


def functions_in(mod: Module):
    """Yield (qualname, node) for every function (nested included)."""
    def walk(body, prefix):
        for st in _iter_defs(body):
            q = f"{prefix}{st.name}"
            if isinstance(st, ast.ClassDef):
                yield from walk(st.body, q + ".")
            else:
                yield q, st
                yield from walk(st.body, q + ".")
    yield from walk(mod.tree.body, "")


def norm_stmt(node) -> str:
    """Normalised statement text used in construct keys (never line numbers)."""
    try:
        s = ast.unparse(node)
    except Exception:  # noqa: BLE001
        s = ast.dump(node)
    return " ".join(s.split())[:160]


def enclosing_function_name(node):
    """Qualified name (Class.func or func, '<module>' at top level) of the function a node of a loaded module sits in."""
    names = []
    cur = getattr(node, "_parent", None)
    while cur is not None:
        if isinstance(cur, (ast.FunctionDef, ast.AsyncFunctionDef, ast.ClassDef)):
            names.append(cur.name)
        cur = getattr(cur, "_parent", None)
    return ".".join(reversed(names)) if names else "<module>"
