"""C18 — Hamiltonian-form conversions and coordinate changes run and are mutually inverse.

a  every registered conversion can execute (run-time bound names, kwargs covered by required_context, all point kinds)
b  registry coherence: result name == dst, inverse partners for two-way edges, same mix_pairs, Lie edges
c  linear changes: complexification block unitary+symplectic, M_inv = M^H; polynomial substitution and coordinate
   maps use the same matrix in the matching direction; C / C_inv accessor order
d  point-wise maps synodic <-> local are exact inverses (collinear, triangular)

a (added)  only _PipelineService.register_conversion writes the conversion table (who-may-write); memoised conversions are keyed by form and context
c (added)  _substitute_real/_complex return the substituted polynomial unchanged (generic complex coefficients)

c (round 3)  the triangular (C, C_inv) pair: C_inv C = I on an exact rational symplectic instance
b-source (round 3)  C09.d's 'input untouched' obligation re-filed: a conversion never writes into its source polynomial
a (round 4)  registry defaults are unchanged by a call; the class-based from_state builds its result from the conversion's result
"""
from __future__ import annotations

import ast

import numpy as np
import sympy as sp

from ..core import Check, AnalysisError
from .. import repoindex as ri
from ..kpe import (Interp, SymObj, ClassRef, FuncRef, to_obj_array, S, OutsideFragment, KpeRaise, RuntimeNameError)
from ..alg import Radicals, is_zero, residual

WR = "hiten.algorithms.hamiltonian.wrappers"
TR = "hiten.algorithms.hamiltonian.transforms"
PC = "hiten.algorithms.polynomial.coordinates"
COL = "hiten.system.libration.collinear"
TRI = "hiten.system.libration.triangular"

# inverse partners among the polynomial transforms (confirmed by reading transforms.py)
PARTNER = {"_substitute_complex": "_substitute_real", "_substitute_real": "_substitute_complex",
           "_polylocal2realmodal": "_polyrealmodal2local", "_polyrealmodal2local": "_polylocal2realmodal"}
MIX = {"collinear": (1, 2), "triangular": (0, 1, 2)}


def _point(kind):
    if kind == "collinear":
        mod, cls = ri.find_def(COL, "L1Point")
    else:
        mod, cls = ri.find_def(TRI, "L4Point")
    return SymObj(ClassRef(mod, cls), {}, kind)


def _registered():
    """[(fn_node, src, dst, required_context, default_param_names)] from the decorators."""
    mod = ri.need_module(WR)
    out = []
    for st in mod.tree.body:
        if not isinstance(st, ast.FunctionDef):
            continue
        for d in st.decorator_list:
            if isinstance(d, ast.Call) and isinstance(d.func, ast.Name) and d.func.id == "register_conversion":
                src = d.args[0].value if d.args and isinstance(d.args[0], ast.Constant) else None
                dst = d.args[1].value if len(d.args) > 1 and isinstance(d.args[1], ast.Constant) else None
                req, dfl = [], {}
                for k in d.keywords:
                    if k.arg == "required_context" and isinstance(k.value, (ast.List, ast.Tuple)):
                        req = [e.value for e in k.value.elts if isinstance(e, ast.Constant)]
                    if k.arg == "default_params" and isinstance(k.value, ast.Dict):
                        dfl = {kk.value: vv for kk, vv in zip(k.value.keys, k.value.values) if isinstance(kk, ast.Constant)}
                if src is None or dst is None:
                    raise AnalysisError(f"register_conversion on {st.name} has non-literal form names")
                out.append((st, src, dst, req, dfl))
    return mod, out


def run(tier):
    chk = Check("C18", tier, "other",
                "Each registered conversion is interpreted from its syntax tree for a collinear and a triangular point with "
                "exactly the context its registration promises (names imported only under TYPE_CHECKING do not bind); the "
                "transform it calls, its mix_pairs and the name of the produced Hamiltonian are captured and compared over the "
                "registry; matrices and point-wise maps are extracted as terms and inverse identities decided exactly.",
                trusted_base=["python ast", "hv.kpe", "sympy", "C06.c: _substitute_linear(p, A)(x) = p(Ax)"])
    # a conversion that is memoised must be keyed by the target form and by the context (point, tolerances) it was run with
    from . import c20
    from .common import Relabel
    hs = [x for x in c20._sites() if x.mod.name.endswith("services.hamiltonian")]
    c20._b_key_params(Relabel(chk, {"C20.b": "C18.a-cache"}), hs)
    _a_registry_writers(chk)
    _a_pipeline_unpack(chk)
    _ab_registry(chk)
    _c_linear(chk)
    _d_pointwise(chk)
    _service_level(chk)
    # a conversion never writes into the polynomial of its source form (the pipeline keeps and re-serves that object)
    from . import c09
    from .common import Relabel
    c09._d_restriction(Relabel(chk, {"C09.d": "C18.b-source"}))
    # the public facade binds every argument to the service parameter it is meant for (nominal swap rule, rules/common.py)
    from . import common as _common
    _common.facade_bindings(chk, "C18.a-facade", ['hiten.system.hamiltonian'], floor=2)
    return chk


def _ab_registry(chk):
    mod, regs = _registered()
    chk.floor("registered conversions", len(regs), 13)
    seen = {}
    for fn, src, dst, req, dfl in regs:
        for kind in ("collinear", "triangular"):
            cap = {"transforms": [], "ham": [], "gen": []}

            def mk(name):
                def f(ip, args, kwargs, _n=name):
                    cap["transforms"].append((_n, args, kwargs))
                    if _n.startswith("lie"):
                        return (sp.Symbol("POLY_NEW"), sp.Symbol("POLY_G"), sp.Symbol("POLY_ELIM"))
                    return sp.Symbol("POLY_NEW")
                return f

            def ham_ctor(ip, args, kwargs):
                cap["ham"].append((args, kwargs))
                return SymObj(None, {"name": kwargs.get("name")}, "Hamiltonian")

            def gen_ctor(ip, args, kwargs):
                cap["gen"].append(kwargs)
                return SymObj(None, {"name": kwargs.get("name")}, "LieGeneratingFunction")

            ov = {n: mk(n) for n in PARTNER}
            ov["_restrict_poly_to_center_manifold"] = mk("_restrict_poly_to_center_manifold")
            ov[("hiten.algorithms.hamiltonian.center._lie", "_lie_transform")] = mk("lie_partial")
            ov[("hiten.algorithms.hamiltonian.normal._lie", "_lie_transform")] = mk("lie_full")
            ov["Hamiltonian"] = ham_ctor
            ov["LieGeneratingFunction"] = gen_ctor
            ip = Interp(overrides=ov)
            dyn = SymObj(None, {"poly_H": sp.Symbol("POLY_OLD"), "degree": 6, "psi": sp.Symbol("psi"), "clmo": sp.Symbol("clmo"), "ndof": 3}, "dynamics")
            ham = SymObj(None, {"dynamics": dyn, "name": src, "degree": 6, "ndof": 3, "poly_H": sp.Symbol("POLY_OLD")}, "ham")
            kwargs = {}
            for k in req:
                kwargs[k] = _point(kind) if k == "point" else sp.Symbol(f"ctx_{k}")
            for k, v in dfl.items():
                kwargs[k] = ip.eval(v, __import__("hv.kpe", fromlist=["Env"]).Env(mod))
            construct = f"{WR}::{fn.name}"
            try:
                res = ip.apply(FuncRef(mod, fn, qual=fn.name), [ham], dict(kwargs))
            except RuntimeNameError as exc:
                chk.fail("C18.a", construct + f"[{kind}]", f"conversion {src}->{dst} cannot execute for a {kind} point: NameError: {exc}")
                continue
            except KpeRaise as exc:
                chk.fail("C18.a", construct + f"[{kind}]", f"conversion {src}->{dst} raises for a {kind} point with its registered context: {exc.text}")
                continue
            except OutsideFragment as exc:
                msg = str(exc)
                if "dict key" in msg and "missing" in msg:
                    chk.fail("C18.a", construct + f"[{kind}]", f"conversion {src}->{dst} reads a kwarg that required_context={req} / default_params do not guarantee: {msg}")
                    continue
                if "unresolved name" in msg or "missing argument" in msg or "unexpected keyword" in msg or "too many positional" in msg or "may be unbound" in msg:
                    chk.fail("C18.a", construct + f"[{kind}]", f"conversion {src}->{dst} cannot execute for a {kind} point: {msg}")
                    continue
                raise AnalysisError(f"{fn.name} outside fragment: {msg}")
            chk.count("functions partially evaluated")
            chk.ok("C18.a", construct + f"[{kind}]", sample=f"{src}->{dst} executes for a {kind} point with context {sorted(kwargs)}")
            # b: name of the produced Hamiltonian
            new_ham = res[0] if isinstance(res, tuple) else res
            got_name = new_ham.attrs.get("name") if isinstance(new_ham, SymObj) else None
            chk.check(got_name == dst, "C18.b", construct + f"[name,{kind}]",
                      f"conversion registered as {src}->{dst} returns a Hamiltonian named {got_name!r}; the next registry lookup will miss it",
                      sample=f"{src}->{dst}: name={got_name!r}")
            if len(cap["transforms"]) != 1:
                chk.fail("C18.b", construct + f"[transform,{kind}]", f"expected exactly one polynomial transform, saw {[t[0] for t in cap['transforms']]}")
                continue
            tname, targs, tkw = cap["transforms"][0]
            flat = list(targs) + list(tkw.values())
            chk.check(any(a == sp.Symbol("POLY_OLD") for a in flat if isinstance(a, sp.Basic)), "C18.b", construct + f"[input,{kind}]",
                      "the source Hamiltonian's polynomial is not what gets transformed")
            chk.check(bool(cap["ham"]) and cap["ham"][0][0] and cap["ham"][0][0][0] == sp.Symbol("POLY_NEW"), "C18.b", construct + f"[output,{kind}]",
                      "the transformed polynomial is not what the new Hamiltonian wraps")
            mix = tkw.get("mix_pairs")
            if tname in ("_substitute_complex", "_substitute_real"):
                chk.check(tuple(mix) == MIX[kind] if mix is not None else kind == "collinear", "C18.b", construct + f"[mix_pairs,{kind}]",
                          f"mix_pairs={mix} for a {kind} point (expected {MIX[kind]})", sample=f"{kind}: mix_pairs={mix}")
            if tname.startswith("lie"):
                chk.check(isinstance(res, tuple) and len(res) == 2 and bool(cap["gen"]) and cap["gen"][0].get("poly_G") == sp.Symbol("POLY_G")
                          and cap["gen"][0].get("poly_elim") == sp.Symbol("POLY_ELIM"), "C18.b", construct + f"[generating functions,{kind}]",
                          "Lie edge does not return (Hamiltonian, generating functions) built from the transform's own outputs")
                want = "lie_partial" if "partial" in dst else "lie_full"
                chk.check(tname == want and src == "complex_modal", "C18.b", construct + f"[lie kind,{kind}]",
                          f"edge {src}->{dst} calls the {tname.replace('lie_', '')} normal-form transform", sample=f"{dst} <- {tname}")
            tolv = tkw.get("tol")
            seen[(src, dst, kind)] = (tname, tuple(mix) if mix is not None else None, tolv)
    # two-way edges use inverse partners with the same mix_pairs
    pairs = 0
    for (src, dst, kind), (tname, mix, tolv) in sorted(seen.items()):
        back = seen.get((dst, src, kind))
        if back is None or src > dst:
            continue
        pairs += 1
        chk.check(PARTNER.get(tname) == back[0] and mix == back[1], "C18.b", f"{WR}[{src}<->{dst},{kind}]",
                  f"{src}->{dst} uses {tname}{mix or ''} but {dst}->{src} uses {back[0]}{back[1] or ''}: not inverse partners",
                  sample=f"{src}<->{dst}: {tname} / {back[0]}, mix_pairs {mix}")
    edges = {(src, dst) for _, src, dst, _, _ in regs}
    chk.floor("two-way conversion pairs registered", len({tuple(sorted(e)) for e in edges if (e[1], e[0]) in edges}), 5)
    chk.count("two-way pairs compared", pairs)


def _c_inverse_pairs(chk):
    """The pair (C, C_inv) a triangular point hands to the modal <-> local conversions is a matrix and ITS inverse: the
    triangular service's _build_normal_form is interpreted on an exact rational instance - eigenvector matrix and scale
    factors chosen so that C = E S^-1 is a (non-orthogonal) rational symplectic matrix, which is what the real eigenvectors
    give - and C_inv C = I is checked exactly.  Accepts inv(C) as well as the symplectic identity -J C^T J; rejects
    J C^T J (= -C^-1), C^T, and the like.  (The collinear pair is decided symbolically by C04.f.)"""
    LS = "hiten.algorithms.types.services.libration"
    mod, cls = ri.find_def(LS, "_TriangularDynamicsService")
    R = sp.Rational
    A = sp.Matrix([[1, 2, 0], [0, 1, R(1, 2)], [1, 0, 1]])
    B = sp.Matrix([[1, R(1, 3), 0], [R(1, 3), 2, -1], [0, -1, R(1, 2)]])
    L = sp.Matrix([[0, 1, 2], [1, R(-1, 2), 0], [2, 0, 3]])
    Z, I3 = sp.zeros(3), sp.eye(3)
    Csym = sp.Matrix(sp.BlockMatrix([[A, Z], [Z, A.inv().T]])) * sp.Matrix(sp.BlockMatrix([[I3, B], [Z, I3]])) * sp.Matrix(sp.BlockMatrix([[I3, Z], [L, I3]]))
    J = sp.Matrix(sp.BlockMatrix([[Z, I3], [-I3, Z]]))
    assert Csym.T * J * Csym == J
    sc = [R(3, 2), R(2), R(1)]
    E = Csym * sp.diag(*(sc + sc))
    svc = SymObj(ClassRef(mod, cls), {"_get_eigvs": lambda: to_obj_array(E.T.tolist()), "scale_factor": lambda i: sc[int(i)]}, "triangular service")
    ip = Interp()
    try:
        C, Cinv = ip.apply(ip.getattr(svc, "_build_normal_form"), [], {})
    except OutsideFragment as exc:
        raise AnalysisError(f"_TriangularDynamicsService._build_normal_form outside fragment: {exc}")
    chk.count("functions partially evaluated")
    Cm, Ci = sp.Matrix(to_obj_array(C).tolist()), sp.Matrix(to_obj_array(Cinv).tolist())
    prod = (Ci * Cm).applyfunc(sp.nsimplify)
    chk.check(Cm.applyfunc(sp.nsimplify) == Csym, "C18.c", f"{LS}::_TriangularDynamicsService._build_normal_form[C]",
              "C is not (eigenvectors as columns) x diag(1/s, 1/s)", sample="C = eigvs^T-columns scaled by 1/s_i on q_i and p_i")
    chk.check(prod == sp.eye(6), "C18.c", f"{LS}::_TriangularDynamicsService._build_normal_form[C_inv]",
              f"C_inv C is not the identity on an exact symplectic instance (diagonal {list(prod.diagonal())}): modal -> local -> modal does not return the coordinates "
              f"(e.g. J C^T J = -C^-1 flips every sign)", sample="C_inv @ C == I (exact rational symplectic instance)")


def _c_linear(chk):
    ip = Interp()
    R = Radicals()
    for mix in ((1, 2), (0, 1, 2)):
        M = sp.Matrix(to_obj_array(ip.call_function(TR, "_M", [mix])).tolist())
        Mi = sp.Matrix(to_obj_array(ip.call_function(TR, "_M_inv", [mix])).tolist())
        I6 = sp.eye(6)
        J = sp.Matrix(sp.BlockMatrix([[sp.zeros(3), sp.eye(3)], [-sp.eye(3), sp.zeros(3)]]))
        ok_inv = (M * Mi - I6).applyfunc(sp.simplify) == sp.zeros(6) and (Mi * M - I6).applyfunc(sp.simplify) == sp.zeros(6)
        chk.check(ok_inv, "C18.c", f"{TR}::_M_inv[mix={mix}]", "_M_inv is not the inverse of _M", sample=f"mix={mix}: M·M_inv = I")
        ok_sym = (M.T * J * M - J).applyfunc(sp.simplify) == sp.zeros(6)
        chk.check(ok_sym, "C18.c", f"{TR}::_M[symplectic,mix={mix}]", "complexification matrix is not symplectic (M^T J M != J)",
                  sample=f"mix={mix}: M^T J M = J")
        ok_blocks = all(M[j, j] == 1 and sum(abs(M[j, k]) for k in range(6)) == 1 for j in range(3) if j not in mix)
        chk.check(ok_blocks, "C18.c", f"{TR}::_M[unmixed,mix={mix}]", "pairs outside mix_pairs are not left untouched")
    chk.count("functions partially evaluated", 4)
    # which matrix each substitution / coordinate map uses
    def capture(fname, args, kwargs, poly=True):
        got = {}

        def sub_lin(ip_, a, k):
            got["matrix"] = a[1]
            got["out"] = [to_obj_array([sp.Symbol("c0_0")]), to_obj_array([sp.Symbol(f"c1_{i}") for i in range(3)])]
            return [x.copy() for x in got["out"]]

        def sub_coord(ip_, a, k):
            got["matrix"] = a[1]
            return to_obj_array([sp.Symbol(f"w{i}") for i in range(6)])

        ipx = Interp(overrides={"_substitute_linear": sub_lin, "_substitute_coordinates": sub_coord,
                                "_polynomial_clean": lambda ip_, a, k: a[0], "_clean_coordinates": lambda ip_, a, k: a[0],
                                "_create_encode_dict_from_clmo": lambda ip_, a, k: sp.Symbol("enc")})
        res = ipx.call_function(TR, fname, args, kwargs)
        if "out" in got:
            same = isinstance(res, list) and len(res) == len(got["out"]) and all(list(to_obj_array(x)) == list(y) for x, y in zip(res, got["out"]))
            chk.check(same, "C18.c", f"{TR}::{fname}[result]",
                      f"{fname} does not return the substituted polynomial unchanged (generic complex coefficients): {[list(to_obj_array(x)) for x in res] if isinstance(res, list) else res}",
                      sample=f"{fname}: result == _substitute_linear(...) up to magnitude-based cleaning")
        return got.get("matrix")

    M12 = to_obj_array(ip.call_function(TR, "_M", [(1, 2)]))
    Mi12 = to_obj_array(ip.call_function(TR, "_M_inv", [(1, 2)]))
    P, psi, clmo = sp.Symbol("P0"), sp.Symbol("psi"), sp.Symbol("clmo")
    coords = to_obj_array([sp.Symbol(f"z{i}") for i in range(6)])
    table = [("_substitute_complex", [P, 4, psi, clmo], M12, "M"), ("_solve_real", [coords], M12, "M"),
             ("_substitute_real", [P, 4, psi, clmo], Mi12, "M_inv"), ("_solve_complex", [coords], Mi12, "M_inv")]
    for fname, args, want, label in table:
        got = capture(fname, args, {"mix_pairs": (1, 2)})
        ok = got is not None and all(sp.simplify(S(a) - S(b)) == 0 for a, b in zip(to_obj_array(got).ravel(), want.ravel()))
        chk.check(ok, "C18.c", f"{TR}::{fname}", f"{fname} does not use {label}: a polynomial substituted with A (p_new(x)=p_old(Ax)) must be paired with the "
                  f"coordinate map x_old = A x_new", sample=f"{fname} uses {label}")
    # _substitute_coordinates(coords, A) = A @ coords
    A = np.empty((6, 6), dtype=object)
    for i in range(6):
        for j in range(6):
            A[i, j] = sp.Symbol(f"A{i}{j}")
    out = to_obj_array(Interp().call_function(PC, "_substitute_coordinates", [coords, A]))
    ok = all(sp.expand(S(out[i]) - sum(A[i, j] * coords[j] for j in range(6))) == 0 for i in range(6))
    chk.check(ok, "C18.c", f"{PC}::_substitute_coordinates", "coordinate substitution is not the matrix-vector product A·coords (row/column orientation)",
              sample="out[i] = sum_j A[i,j] coords[j]")
    # modal <-> local: C with the forward pair, C_inv with the reverse pair; tuple order (C, Cinv)
    Cm, Ci = sp.Symbol("Cmat"), sp.Symbol("Cinv")
    Cs = np.empty((6, 6), dtype=object)
    Cis = np.empty((6, 6), dtype=object)
    for i in range(6):
        for j in range(6):
            Cs[i, j] = sp.Symbol(f"C{i}{j}")
            Cis[i, j] = sp.Symbol(f"D{i}{j}")
    point = SymObj(None, {"normal_form_transform": (Cs, Cis)}, "point")
    for fname, want, label in (("_polylocal2realmodal", Cs, "C"), ("_polyrealmodal2local", Cis, "C_inv")):
        got = capture(fname, [point, P, 4, psi, clmo], {})
        chk.check(got is want, "C18.c", f"{TR}::{fname}", f"{fname} does not substitute with {label} from normal_form_transform = (C, C_inv)",
                  sample=f"{fname} uses {label}")
    ipx = Interp(overrides={"_clean_coordinates": lambda ip_, a, k: a[0]})
    out = to_obj_array(ipx.call_function(TR, "_coordrealmodal2local", [point, coords]))
    chk.check(all(sp.expand(S(out[i]) - sum(Cs[i, j] * coords[j] for j in range(6))) == 0 for i in range(6)), "C18.c", f"{TR}::_coordrealmodal2local",
              "modal->local coordinates are not C·modal (must match _polylocal2realmodal's matrix)", sample="local = C @ modal")
    out = to_obj_array(ipx.call_function(TR, "_coordlocal2realmodal", [point, coords]))
    chk.check(all(sp.expand(S(out[i]) - sum(Cis[i, j] * coords[j] for j in range(6))) == 0 for i in range(6)), "C18.c", f"{TR}::_coordlocal2realmodal",
              "local->modal coordinates are not C_inv·local", sample="modal = C_inv @ local")
    _c_inverse_pairs(chk)
    # _clean_coordinates is the identity away from the tolerance
    zc = to_obj_array([sp.Symbol(f"r{i}", real=True) + sp.I * sp.Symbol(f"i{i}", real=True) for i in range(2)])
    out = to_obj_array(Interp(decide=lambda c: False).call_function(PC, "_clean_coordinates", [zc, sp.Rational(1, 10 ** 30)]))
    chk.check(all(sp.expand(S(out[i]) - zc[i]) == 0 for i in range(2)), "C18.c", f"{PC}::_clean_coordinates", "cleaning changes coordinates above the tolerance",
              sample="identity for |Re|,|Im| >= tol")


def _a_registry_writers(chk):
    """A conversion registered at any time can be executed: the conversion service copies the table once, when it is first
    used; only _PipelineService.register_conversion also updates an already initialised service.  Who-may-write rule: no
    other code stores into _CONVERSION_REGISTRY."""
    n = 0
    for m in ri.all_modules():
        if "_tests" in m.name or "_CONVERSION_REGISTRY" not in m.source:
            continue
        for node in ast.walk(m.tree):
            tg = None
            if isinstance(node, ast.Assign) and len(node.targets) == 1 and isinstance(node.targets[0], ast.Subscript):
                tg = node.targets[0].value
            elif isinstance(node, ast.Call) and isinstance(node.func, ast.Attribute) and node.func.attr in ("update", "setdefault", "pop", "clear", "__setitem__"):
                tg = node.func.value
            if tg is None or not (isinstance(tg, ast.Attribute) and tg.attr == "_CONVERSION_REGISTRY" or isinstance(tg, ast.Name) and tg.id == "_CONVERSION_REGISTRY"):
                continue
            n += 1
            owner = ri.enclosing_function_name(node)
            chk.check(owner.endswith("_PipelineService.register_conversion"), "C18.a", f"{m.name}::{owner}[writes _CONVERSION_REGISTRY]",
                      f"{owner} writes the conversion table directly: once the shared conversion service has been initialised (first use of any Hamiltonian) such an entry is "
                      "never copied into it and to_state() raises 'No conversion path'", sample=f"{owner}: the only writer of the table")
    chk.floor("writers of the conversion table", n, 1)


def _a_pipeline_unpack(chk):
    """The two edges that return (Hamiltonian, generating functions) are handled alike on both ways through the pipeline -
    the single-step branch of _compute_hamiltonian (taken when the source form is already cached) and the multi-step
    _execute_conversion_path: the Hamiltonian (not the tuple) is handed back / cached and the generating functions are stored."""
    pmod, pcls = ri.find_def(PL, "HamiltonianPipeline")
    HAM, GF, POINT = sp.Symbol("HAM_NEW"), sp.Symbol("GF_NEW"), sp.Symbol("POINT")
    for form in ("complex_partial_normal", "complex_full_normal", "real_modal"):
        lie = form != "real_modal"
        for way in ("single step", "path"):
            stored = []
            asked = []

            def to_state(target, **kw):
                asked.append((target, kw.get("point")))
                return (HAM, GF) if lie else HAM

            src = SymObj(None, {"to_state": to_state}, "source_ham")
            cache = {"complex_modal": src}
            pipe = SymObj(ClassRef(pmod, pcls), {"_point": POINT, "_hamiltonian_cache": cache, "get_hamiltonian": lambda f: src,
                                                 "_find_conversion_source": lambda f: "complex_modal",
                                                 "_store_generating_functions": lambda f, g: stored.append((f, g)),
                                                 "_follow_conversion_path": lambda a, b: sp.Symbol("FOLLOWED")}, "pipe")
            ip = Interp()
            try:
                if way == "single step":
                    out = ip.apply(ip.getattr(pipe, "_compute_hamiltonian"), [form], {})
                else:
                    out = ip.apply(ip.getattr(pipe, "_execute_conversion_path"), [["complex_modal", form]], {})
            except OutsideFragment as exc:
                raise AnalysisError(f"HamiltonianPipeline {way} outside fragment: {exc}")
            ok = out == HAM and asked and asked[0] == (form, POINT) and stored == ([(form, GF)] if lie else [])
            if way == "path":
                ok = ok and cache.get(form) == HAM
            chk.check(ok, "C18.a", f"{PL}::HamiltonianPipeline[{way} -> {form}]",
                      f"{way}: converting the cached complex_modal form to {form} yields {out} (stored generating functions: {stored}); expected the Hamiltonian itself"
                      + (" and its generating functions stored" if lie else ""), sample=f"{way} -> {form}: returns the Hamiltonian" + ("; stores GF" if lie else ""))
    chk.count("functions partially evaluated", 6)


def generating_function_slots(chk):
    """Generating functions produced on the way to a normal form are stored under the slot get_generating_functions reads for
    that transform (partial <- complex_partial_normal, full <- complex_full_normal); also re-filed by C08.d."""
    pmod, pcls = ri.find_def(PL, "HamiltonianPipeline")
    for form, key in (("complex_partial_normal", "generating_functions_partial"), ("complex_full_normal", "generating_functions_full"),
                      ("real_modal", None)):
        pipe = SymObj(ClassRef(pmod, pcls), {"_generating_function_cache": {}}, "pipe")
        ipx = Interp()
        ipx.apply(ipx.getattr(pipe, "_store_generating_functions"), [form, sp.Symbol("GF")], {})
        cache = pipe.attrs["_generating_function_cache"]
        chk.check(cache == ({key: sp.Symbol("GF")} if key else {}), "C18.b", f"{PL}::HamiltonianPipeline._store_generating_functions[{form}]",
                  f"generating functions of {form} stored under {list(cache)} (expected {key})", sample=f"{form} -> {key}")
    # ... and get_generating_functions(kind) reads the slot of its own kind
    for kind, key in (("partial", "generating_functions_partial"), ("full", "generating_functions_full")):
        pipe = SymObj(ClassRef(pmod, pcls), {"_generating_function_cache": {"generating_functions_partial": sp.Symbol("GP"), "generating_functions_full": sp.Symbol("GFULL")}}, "pipe")
        ipx = Interp()
        got = ipx.apply(ipx.getattr(pipe, "get_generating_functions"), [kind], {})
        chk.check(got == (sp.Symbol("GP") if kind == "partial" else sp.Symbol("GFULL")), "C18.b", f"{PL}::HamiltonianPipeline.get_generating_functions[{kind}]",
                  f"get_generating_functions('{kind}') returns {got}", sample=f"{kind} -> {key}")


def _d_pointwise(chk):
    R = Radicals()
    mu, gam = sp.Symbol("mu", positive=True), sp.Symbol("gamma", positive=True)
    a = sp.Symbol("a", real=True)
    c = to_obj_array([sp.Symbol(f"c{i}", real=True) for i in range(6)])
    for kind, fwd, bwd, sgns in (("collinear", "_local2synodic_collinear", "_synodic2local_collinear", (1, -1)),
                                 ("triangular", "_local2synodic_triangular", "_synodic2local_triangular", (1, -1))):
        for sgn in sgns:
            dyn = SymObj(None, {"gamma": gam, "sign": sgn, "a": a}, "dynamics")
            point = SymObj(None, {"mu": mu, "dynamics": dyn}, "point")
            ip = Interp()
            syn = to_obj_array(ip.call_function(TR, fwd, [point, c.copy()]))
            back = to_obj_array(ip.call_function(TR, bwd, [point, syn.copy()]))
            bad = [i for i in range(6) if not is_zero(S(back[i]) - c[i], R)[0]]
            chk.check(not bad, "C18.d", f"{TR}::{bwd}∘{fwd}[sign={sgn}]", f"synodic->local ∘ local->synodic is not the identity in components {bad}",
                      sample=f"{kind}, sign={sgn}: {bwd}({fwd}(c)) = c (6 identities)")
            s = to_obj_array([sp.Symbol(f"s{i}", real=True) for i in range(6)])
            loc = to_obj_array(ip.call_function(TR, bwd, [point, s.copy()]))
            fw = to_obj_array(ip.call_function(TR, fwd, [point, loc.copy()]))
            bad = [i for i in range(6) if not is_zero(S(fw[i]) - s[i], R)[0]]
            chk.check(not bad, "C18.d", f"{TR}::{fwd}∘{bwd}[sign={sgn}]", f"local->synodic ∘ synodic->local is not the identity in components {bad}",
                      sample=f"{kind}, sign={sgn}: {fwd}({bwd}(s)) = s (6 identities)")
            chk.count("functions partially evaluated", 4)


# ------------------------------------------------------------------------------------------- service level
HS = "hiten.algorithms.types.services.hamiltonian"
PL = "hiten.algorithms.hamiltonian.pipeline"


def _a_class_facade(chk):
    """The class-based entry point returns the CONVERTED polynomial: TargetClass.from_state(ham, **ctx) and the service's from_state
    are interpreted with a model conversion service whose result carries tagged poly / degree / ndof / name; the object that is
    built must be made of the result's four fields (not the source's), and to_state returns the conversion's result itself."""
    SYS = "hiten.system.hamiltonian"
    hmod, hcls = ri.find_def(SYS, "Hamiltonian")
    smod, scls = ri.find_def(HS, "_HamiltonianDynamicsService")
    P = sp.Symbol("POINT")
    src = SymObj(None, {"poly_H": sp.Symbol("POLY_SRC"), "degree": 6, "ndof": 3, "name": "srcform"}, "source ham")
    result = SymObj(None, {"poly_H": sp.Symbol("POLY_NEW"), "degree": 5, "ndof": 3, "name": "dstform"}, "converted ham")
    asked = []
    conv = SymObj(None, {"convert": lambda ham, target, **kw: (asked.append((ham, target, kw)), result)[1]}, "conversion")
    registry = SymObj(None, {"conversion": conv}, "registry")
    built = []

    def target_ctor(*a, **k):
        built.append((a, k))
        return SymObj(None, {"built_from": a}, "target instance")

    def new_service(ip_, a, k):
        return SymObj(ClassRef(smod, scls), {"registry": registry, "_registry": registry, "domain_obj": a[0] if a else None, "_domain_obj": a[0] if a else None}, "temp service")

    src.attrs["dynamics"] = SymObj(ClassRef(smod, scls), {"registry": registry, "_registry": registry, "domain_obj": src, "_domain_obj": src}, "own service")
    ip = Interp(overrides={"_HamiltonianDynamicsService": new_service})
    fs = ri.class_member(hmod, hcls, "from_state")
    try:
        ip.apply(FuncRef(fs[0], fs[2], bound_self=target_ctor, qual="Hamiltonian.from_state", owner=(fs[0], fs[1])), [src], {"point": P})
    except OutsideFragment as exc:
        raise AnalysisError(f"Hamiltonian.from_state outside fragment: {exc}")
    chk.count("functions partially evaluated", 2)
    a = built[0][0] if built else ()
    kw = built[0][1] if built else {}
    vals = list(a) + list(kw.values())
    ok = len(built) == 1 and sp.Symbol("POLY_NEW") in vals and sp.Symbol("POLY_SRC") not in vals and 5 in vals and "dstform" in vals \
        and asked and asked[0][0] is src and asked[0][2].get("point") == P
    chk.check(ok, "C18.a", f"{SYS}::Hamiltonian.from_state",
              f"TargetClass.from_state(source, point=P) builds its result from {vals} (conversion asked: {[(t, k) for _, t, k in asked]}); expected the converted polynomial, "
              f"degree, ndof and name of the conversion's result", sample="from_state -> target_cls(result.poly_H, result.degree, result.ndof, result.name)")
    # the two Lie edges return (Hamiltonian, generating functions): the class-based entry point must run for them too
    built.clear()
    asked.clear()
    conv.attrs["convert"] = lambda ham, target, **kw: (asked.append((ham, target, kw)), (result, sp.Symbol("GENERATING_FUNCTIONS")))[1]
    ran = True
    try:
        ip.apply(FuncRef(fs[0], fs[2], bound_self=target_ctor, qual="Hamiltonian.from_state", owner=(fs[0], fs[1])), [src], {"point": P})
    except (OutsideFragment, KpeRaise):
        ran = False
    vals = (list(built[0][0]) + list(built[0][1].values())) if built else []
    chk.check(ran and len(built) == 1 and sp.Symbol("POLY_NEW") in vals and "dstform" in vals, "C18.a", f"{SYS}::Hamiltonian.from_state[tuple-valued edge]",
              "for a registered conversion that returns (Hamiltonian, generating functions) - complex_modal -> complex_partial_normal / complex_full_normal - the class-based "
              "from_state does not run: it reads .poly_H off the tuple (AttributeError at run time)", sample="from_state unpacks (ham, generating functions) like the pipeline does")
    conv.attrs["convert"] = lambda ham, target, **kw: (asked.append((ham, target, kw)), result)[1]
    asked.clear()
    out = ip.apply(ip.getattr(src.attrs["dynamics"], "to_state"), ["dstform"], {"point": P})
    chk.check(out is result and asked and asked[0][0] is src and asked[0][1] == "dstform", "C18.a", f"{HS}::_HamiltonianDynamicsService.to_state",
              f"to_state returns {out!r} after asking {[(t, k) for _, t, k in asked]}", sample="to_state -> conversion.convert(self.domain_obj, target, **ctx)")


def _service_level(chk):
    _a_class_facade(chk)
    """_HamiltonianConversionService.convert: context check, defaults merged under explicit kwargs, converter result
    returned; registry graph: every registered form is reachable from 'physical'; generating-function cache keys."""
    mod, cls = ri.find_def(HS, "_HamiltonianConversionService")
    calls = []

    def conv(ham, **kw):
        calls.append((ham, kw))
        return sp.Symbol("RESULT")

    P = sp.Symbol("POINT")
    ham = SymObj(None, {"name": "srcform", "__class__": ClassRef(mod, cls)}, "ham")
    svc = SymObj(ClassRef(mod, cls), {"_registry": {("srcform", "dstform"): (conv, ["point"], {"tol": sp.Integer(7), "other": sp.Integer(1)})}}, "svc")
    ip = Interp()
    res = ip.apply(ip.getattr(svc, "convert"), [ham, "dstform"], {"point": P, "tol": sp.Integer(9)})
    ok = res == sp.Symbol("RESULT") and len(calls) == 1 and calls[0][0] is ham and calls[0][1] == {"tol": 9, "other": 1, "point": P}
    chk.check(ok, "C18.a", f"{HS}::_HamiltonianConversionService.convert[merge]",
              f"convert does not call the registered converter with defaults overridden by explicit kwargs: {calls}",
              sample="converter(ham, **{**default_params, **kwargs})")
    # ... and the registered defaults are still the registered defaults afterwards: a second call without options runs with them
    reg_defaults = svc.attrs["_registry"][("srcform", "dstform")][2]
    ip.apply(ip.getattr(svc, "convert"), [ham, "dstform"], {"point": P})
    ok = reg_defaults == {"tol": 7, "other": 1} and len(calls) == 2 and calls[1][1] == {"tol": 7, "other": 1, "point": P}
    chk.check(ok, "C18.a", f"{HS}::_HamiltonianConversionService.convert[defaults kept]",
              f"after one call with tol=9 the registry entry's defaults are {reg_defaults} and a call without options runs with {calls[1][1] if len(calls) > 1 else None}: "
              f"options of one call have become the defaults of every later call of that edge", sample="registered defaults unchanged by a call; next call uses them")
    try:
        Interp().apply(Interp().getattr(svc, "convert"), [ham, "dstform"], {})
        raised = False
    except KpeRaise:
        raised = True
    chk.check(raised, "C18.a", f"{HS}::_HamiltonianConversionService.convert[missing context]",
              "convert does not reject a call that lacks the registered required_context", sample="missing 'point' -> ValueError")
    try:
        Interp().apply(Interp().getattr(svc, "convert"), [ham, "nowhere"], {"point": P})
        raised = False
    except KpeRaise:
        raised = True
    chk.check(raised, "C18.a", f"{HS}::_HamiltonianConversionService.convert[no path]", "unregistered target does not raise", nontrivial=False)
    # registry graph
    _, regs = _registered()
    edges = {}
    for _, src, dst, req, _ in regs:
        edges.setdefault(src, set()).add(dst)
        chk.check((not req) or "point" in req, "C18.a", f"{WR}[{src}->{dst},context]",
                  f"edge {src}->{dst} requires context {req} that the pipeline's path search never supplies", nontrivial=False)
    seen, todo = {"physical"}, ["physical"]
    while todo:
        cur = todo.pop()
        for d in edges.get(cur, ()):
            if d not in seen:
                seen.add(d)
                todo.append(d)
    forms = set(edges) | {d for v in edges.values() for d in v}
    chk.check(forms <= seen, "C18.a", f"{WR}[registry reachability]", f"forms not reachable from 'physical': {sorted(forms - seen)}",
              sample=f"{len(forms)} forms reachable from 'physical' through {sum(len(v) for v in edges.values())} edges")
    generating_function_slots(chk)
    pmod, pcls = ri.find_def(PL, "HamiltonianPipeline")
    # builder selection by point kind (shared with C07.d)
    for kind, want, mix in (("collinear", "_build_physical_hamiltonian_collinear", (1, 2)), ("triangular", "_build_physical_hamiltonian_triangular", (0, 1, 2))):
        pipe = SymObj(ClassRef(pmod, pcls), {}, "pipe")
        init = ri.class_member(pmod, pcls, "__init__")
        ipx = Interp(overrides={"get_hamiltonian_services": lambda ip_, a, k: sp.Symbol("REG")})
        ipx.apply(FuncRef(init[0], init[2], bound_self=pipe, qual="HamiltonianPipeline.__init__", owner=(init[0], init[1])), [_point(kind), 6], {})
        b = pipe.attrs.get("_build_hamiltonian")
        chk.check(isinstance(b, FuncRef) and b.node.name == want and tuple(pipe.attrs.get("_mix_pairs", ())) == mix, "C18.b",
                  f"{PL}::HamiltonianPipeline.__init__[{kind}]", f"{kind} point selects builder {getattr(getattr(b, 'node', None), 'name', b)} / mix {pipe.attrs.get('_mix_pairs')}",
                  sample=f"{kind}: {want}, mix_pairs={mix}")
