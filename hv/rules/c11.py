"""C11 — event detection returns the first admissible crossing, on the trajectory.

a  crossing predicates over the sign abstraction (27 cases each), EventConfig admits {-1,0,1}
b  one protocol, seven event drivers (fixed, rk45, dop853 x generic/Hamiltonian, symplectic): unrolled under
   accept/reject and event-sign tapes and compared with the reference protocol; integrate() result shapes
c  one bisection, five refiners: unrolled under event-value tapes against the reference bisection
d  Hamiltonian and generic drivers agree (both equal the same reference; shared with C17.c)
e  the plane-crossing wrapper

b (added)  the symplectic event driver advances the carried extended state (Q,P,X,Y); caches of compiled event functions are keyed by
           code, closure and defaults (hv.memo)
c-derivative  the derivative fed to the symplectic Hermite interpolant is (dH/dP, -dH/dQ) (C16.d, re-filed)
d (round 4)  backward event search shows the event function the signed time (known findings: the three RK families); d-time: C10.a's event-time frame rules re-filed
"""
from __future__ import annotations

import ast
import itertools

import numpy as np
import sympy as sp

from ..core import Check, AnalysisError
from .. import repoindex as ri
from ..drivers import Harness, vkey, tagvec, RK, SY, UT
from ..kpe import Interp, SymObj, ClassRef, FuncRef, to_obj_array, S, OutsideFragment, KpeRaise
from ..regions import RegionDecider
from . import drv

R = sp.Rational
SH = "hiten.algorithms.poincare.singlehit.backend"
CFGS = "hiten.algorithms.types.configs"

REP = {"-": [R(-3, 2), R(-1, 7)], "0": [sp.Integer(0)], "+": [R(5, 4), sp.Integer(9)]}


def run(tier):
    chk = Check("C11", tier, "other",
                "The crossing predicates are evaluated exhaustively over the sign abstraction; each event driver and refiner is "
                "unrolled by the partial evaluator with every data-touching callee replaced by a logging stub (fresh symbols) "
                "under accept/reject and event-sign tapes, and the trace of abstract calls is compared, step by step and "
                "order-insensitively, with a reference protocol written from the property.",
                trusted_base=["python ast", "hv.kpe", "hv.drivers harness", "reference protocols in hv/rules/drv.py",
                              "dense evaluators are the ones proved in C02.b / C15.c"])
    # compiled event callbacks that are cached must be keyed by everything numba freezes into them
    from .. import memo
    memo.check_modules(chk, "C11.b-memo", ["hiten.algorithms.integrators.base", "hiten.algorithms.integrators.rk", "hiten.algorithms.integrators.symplectic",
                                           "hiten.algorithms.integrators.utils", "hiten.algorithms.poincare.singlehit.backend"], floor=1,
                       what="hand-rolled caches of compiled event functions")
    _a_predicates(chk)
    _b_drivers(chk, tier)
    _b_symplectic(chk, tier)
    _c_refiners(chk, tier)
    _b_integrate_wrappers(chk)
    _e_wrapper(chk)
    # the derivative fed to the symplectic driver's Hermite interpolant is the Hamiltonian vector field (dH/dP, -dH/dQ)
    from . import c16
    from .common import Relabel
    c16._gradient_slots(Relabel(chk, {"C16.d": "C11.c-derivative"}))
    # the reported event time is in the frame of the requested grid for every integrator and direction (C10.a's time-frame rules re-filed)
    from . import c10 as _c10
    from .common import Relabel as _Relabel3
    _c10._a_integrate_times(_Relabel3(chk, {"C10.a": "C11.d-time"}))
    _d_event_time_argument(chk)
    return chk


# ------------------------------------------------------------------------------------------------ a
def _a_predicates(chk):
    gp, gn = sp.symbols("gp gn", real=True)
    n = 0
    for fname, ref in (("_event_crossed", drv.ref_crossed),
                       ("_crossed_direction", lambda a, b, d: ((a < 0 < b) or (a > 0 > b)) if d == 0 else ((a < 0 < b) if d > 0 else (a > 0 > b)))):
        for direction in (-1, 0, 1):
            for ra, rb in itertools.product("-0+", repeat=2):
                outs = []
                for va in REP[ra]:
                    for vb in REP[rb]:
                        ip = Interp(decide=RegionDecider({gp: va, gn: vb}))
                        r = ip.call_function(UT, fname, [gp, gn, direction])
                        tv = ip.truth(r)
                        outs.append(tv)
                        n += 1
                want = bool(ref(REP[ra][0], REP[rb][0], direction))
                chk.check(all(o is want for o in outs), "C11.a", f"{UT}::{fname}[dir={direction},prev{ra},new{rb}]",
                          f"{fname}(sign {ra}, sign {rb}, direction={direction}) = {outs[0]}, reference {want} "
                          f"({'strict compatible sign change or exact zero at the new sample' if fname == '_event_crossed' else 'strict compatible sign change'})",
                          sample=f"{fname}: dir={direction}, ({ra},{rb}) -> {want}")
    chk.count("order-abstract evaluations", n)
    # bisection update and bracket convergence
    a, b, gl, mid, gm = sp.symbols("a b gl mid gm", real=True)
    out = Interp().call_function(UT, "_bisection_update", [a, b, gl, mid, gm, True])
    chk.check(tuple(out) == (a, mid, gl), "C11.c", f"{UT}::_bisection_update[crossed]", f"crossed -> {out}, expected (a, mid, g_left)", sample="crossed: b = mid")
    out = Interp().call_function(UT, "_bisection_update", [a, b, gl, mid, gm, False])
    chk.check(tuple(out) == (mid, b, gm), "C11.c", f"{UT}::_bisection_update[not crossed]", f"not crossed -> {out}, expected (mid, b, g_mid)", sample="else: a = mid, g_left = g_mid")
    h, xt = sp.Symbol("h", real=True), sp.Symbol("xtol", positive=True)
    conv = Interp().call_function(UT, "_bracket_converged", [a, b, h, xt])
    chk.check(sp.simplify(conv.lhs - conv.rhs - ((b - a) * sp.Abs(h) - xt)) == 0 and isinstance(conv, (sp.Le, sp.Lt)) if isinstance(conv, sp.core.relational.Relational) else False,
              "C11.c", f"{UT}::_bracket_converged", f"termination test is {conv}, expected (b-a)|h| <= xtol", sample="(b-a)*|h| <= xtol")
    # EventConfig admits exactly {-1,0,1}
    mod, cls = ri.find_def(CFGS, "EventConfig")
    for d, ok_want in ((-1, True), (0, True), (1, True), (2, False), (-3, False)):
        obj = SymObj(ClassRef(mod, cls), {"direction": d, "terminal": True}, "cfg")
        post = ri.class_member(mod, cls, "__post_init__") or ri.class_member(mod, cls, "_validate")
        if post is None:
            raise AnalysisError("EventConfig has no validation hook")
        try:
            Interp().apply(FuncRef(post[0], post[2], bound_self=obj, qual="EventConfig.__post_init__", owner=(post[0], post[1])), [], {})
            ok = True
        except KpeRaise:
            ok = False
        chk.check(ok == ok_want, "C11.a", f"{CFGS}::EventConfig[direction={d}]", f"EventConfig(direction={d}) is {'accepted' if ok else 'rejected'}",
                  sample=f"direction={d}: {'accepted' if ok_want else 'rejected'}", nontrivial=False)


# ------------------------------------------------------------------------------------------------ b
DRIVERS = [("fixed", "_FixedStepRK._integrate_fixed_rk_until_event", False), ("fixed", "_FixedStepRK._integrate_fixed_rk_until_event_ham", True),
           ("rk45", "_RK45._integrate_rk45_until_event", False), ("rk45", "_RK45._integrate_rk45_until_event_ham", True),
           ("dop853", "_DOP853._integrate_dop853_until_event", False), ("dop853", "_DOP853._integrate_dop853_until_event_ham", True)]
GRID = ["0", "1/4", "1", "3/2"]      # non-uniform on purpose (a hoisted step size must show)


def _result_ok(fam, out, ref):
    kind = ref.result[0]
    if kind == "hit":
        ok = out[0] is True or out[0] == 1
        ok = ok and str(out[1]) == ref.result[1] and vkey(out[2]) == ref.result[2]
        return ok
    ok = (out[0] is False or out[0] == 0) and vkey(out[1]) == ref.result[1] and vkey(out[2]) == ref.result[2]
    return ok


def _b_drivers(chk, tier):
    signs = [sp.Integer(-1), sp.Integer(0), sp.Integer(1)]
    nsteps = 3
    acc_tapes = [(True, True, True, True), (False, True, True, True), (True, False, True, True), (True, True, False, True)] if tier == "quick" \
        else list(itertools.product((True, False), repeat=4))
    total = 0
    for fam, q, ham in DRIVERS:
        bad = []
        bad_res = []
        problems = set()
        n = 0
        for direction in (-1, 0, 1):
            for tape in itertools.product(signs, repeat=(nsteps + 1 if fam == "fixed" else nsteps)):
                for acc in ([()] if fam == "fixed" else acc_tapes):
                    n += 1
                    h = Harness(accept_tape=acc, event_tape=tape, direction=direction, ham=ham)
                    try:
                        if fam == "fixed":
                            kind, out = h.run(RK, q, grid=GRID)
                            ref = drv.ref_fixed(GRID, event_tape=list(tape), direction=direction)
                        else:
                            kind, out = h.run(RK, q, t0=0, tmax=1)
                            ref = drv.ref_adaptive(fam, acc, 0, 1, "1/2", "1/2", event_tape=list(tape), direction=direction)
                    except OutsideFragment as exc:
                        raise AnalysisError(f"{q} left the analysable fragment: {exc}")
                    if kind != "return":
                        bad.append((direction, tape, acc, f"raised {out}"))
                        continue
                    d = drv.compare(h.trace, ref, ham)
                    if d:
                        bad.append((direction, [int(x) for x in tape], acc, d))
                    elif not _result_ok(fam, out, ref):
                        bad_res.append((direction, [int(x) for x in tape], acc, str(out[:3])[:160], str(ref.result[:3])[:160]))
                    problems |= set(h.problems)
        total += n
        c0 = f"{RK}::{q}"
        chk.check(not bad, "C11.b", c0 + "[protocol]",
                  f"{len(bad)} of {n} (direction, event-sign tape, accept tape) cases deviate from the event protocol (g_prev from the last committed node, "
                  f"event at the new time/state after every committed step, refine on this step's data when crossed, otherwise carry on): "
                  f"e.g. direction={bad[0][0] if bad else ''}, g={bad[0][1] if bad else ''}, accepts={bad[0][2] if bad else ''}: {bad[0][3] if bad else ''}",
                  sample=f"{n} tapes ({{-,0,+}}^{nsteps + 1} x 3 directions x {1 if fam == 'fixed' else len(acc_tapes)} accept tapes) match the reference protocol")
        chk.check(not bad_res, "C11.b", c0 + "[result]",
                  f"{len(bad_res)} cases return the wrong tuple: e.g. {bad_res[0] if bad_res else ''} (hit -> (True, t_hit, y_hit); no hit -> (False, t_end, last state))",
                  sample="hit: refiner's (t_hit, y_hit); no hit: state at the end of the span")
        chk.check(not problems, "C11.b", c0 + "[arguments]", f"argument forwarding problems: {sorted(problems)[:3]}", sample="tables and Hamiltonian data forwarded unchanged",
                  nontrivial=False)
    chk.count("driver tapes unrolled", total)


def _b_symplectic(chk, tier):
    """_integrate_symplectic_until_event: same protocol with the composite step as the step."""
    signs = [sp.Integer(-1), sp.Integer(0), sp.Integer(1)]
    grid = [R(0), R(1, 2), R(1), R(3, 2)]
    mod, fn = ri.find_def(SY, "_integrate_symplectic_until_event")
    n = 0
    bad = []
    carried = []
    for direction in (-1, 0, 1):
        for tape in itertools.product(signs, repeat=4):
            n += 1
            trace = []
            st = {"step": 0, "ev": 0, "rhs": 0, "refine": None}
            y0 = to_obj_array([sp.Symbol(f"s{i}", real=True) for i in range(6)])

            def rec_update(ip, args, kwargs):
                q_ext, dt = args[0], args[1]
                k = st["step"]
                st["step"] += 1
                trace.append(("STEP", vkey(to_obj_array(q_ext)[:6]), vkey(dt), vkey(to_obj_array(q_ext)[6:])))
                q_ext[...] = to_obj_array([sp.Symbol(f"Z{k}_{i}", real=True) for i in range(12)])
                return None

            def ham_der(ip, args, kwargs):
                k = st["rhs"]
                st["rhs"] += 1
                trace.append(("RHS", vkey(np.concatenate([to_obj_array(args[0]), to_obj_array(args[1])]))))
                return to_obj_array([sp.Symbol(f"F{k}_{i}", real=True) for i in range(6)])

            def event(t, y):
                k = st["ev"]
                st["ev"] += 1
                trace.append(("EVENT", vkey(t), vkey(y)))
                return tape[k] if k < len(tape) else tape[-1]

            def refine(ip, args, kwargs):
                st["refine"] = [vkey(a) for a in args[1:]]
                return (sp.Symbol("THIT"), to_obj_array([sp.Symbol(f"YH{i}") for i in range(6)]))

            ip = Interp(overrides={"_recursive_update_poly": rec_update, "_eval_hamiltonian_derivative": ham_der, "_hermite_refine_event_symplectic": refine,
                                   "_get_tao_omega": lambda ip_, a, k: sp.Symbol("OMEGA")})
            out = ip.apply(FuncRef(mod, fn, qual=fn.name), [], dict(initial_state_6d=y0, t_values=to_obj_array(grid), jac_H=sp.Symbol("JAC"), clmo_H=sp.Symbol("CLMO"),
                                                                    order=4, event_fn=event, direction=direction, xtol=R(1, 10 ** 9), gtol=R(1, 10 ** 9)))
            # reference
            g_prev = tape[0]
            node_y, node_t, node_f = vkey(y0), grid[0], "F0"
            want_hit = None
            for i in range(3):
                g_new = tape[i + 1]
                ynew = vkey(to_obj_array([sp.Symbol(f"Z{i}_{k}", real=True) for k in range(6)]))
                if drv.ref_crossed(g_prev, g_new, direction):
                    want_hit = (i, node_t, node_y, grid[i + 1], ynew)
                    break
                g_prev, node_y, node_t = g_new, ynew, grid[i + 1]
            if want_hit is not None:
                i, t_old, y_old, t_new, y_new = want_hit
                r = st["refine"]
                ok = (out[0] is True or out[0] == 1) and out[1] == sp.Symbol("THIT") and r is not None and r[0] == vkey(t_old) and r[1] == y_old \
                    and r[3] == vkey(t_new) and r[4] == y_new and r[6] == vkey(t_new - t_old) and r[7] == vkey(direction) \
                    and r[2] == vkey(to_obj_array([sp.Symbol(f"F{i}_{k}", real=True) for k in range(6)])) \
                    and r[5] == vkey(to_obj_array([sp.Symbol(f"F{i + 1}_{k}", real=True) for k in range(6)]))
            else:
                ok = (out[0] is False or out[0] == 0) and st["refine"] is None and vkey(out[1]) == vkey(grid[-1]) \
                    and vkey(out[2]) == vkey(to_obj_array([sp.Symbol(f"Z2_{k}", real=True) for k in range(6)]))
            # events evaluated at the new grid time with the new state
            evs = [e for e in trace if e[0] == "EVENT"]
            ok = ok and evs[0] == ("EVENT", vkey(grid[0]), vkey(y0))
            for j, e in enumerate(evs[1:]):
                ok = ok and e == ("EVENT", vkey(grid[j + 1]), vkey(to_obj_array([sp.Symbol(f"Z{j}_{k}", real=True) for k in range(6)])))
            # the composite step advances the carried extended state (Q,P,X,Y): lifted once from y0 with X=Q, Y=P, then each step
            # starts from the full 12-vector the previous step produced (re-lifting X,Y from Q,P every step destroys the
            # binding that keeps the energy error bounded and makes the event path differ from the plain path)
            steps = [e for e in trace if e[0] == "STEP"]
            for j, e in enumerate(steps):
                if j == 0:
                    want_q, want_x = vkey(y0), vkey(y0)
                else:
                    prev = to_obj_array([sp.Symbol(f"Z{j - 1}_{k}", real=True) for k in range(12)])
                    want_q, want_x = vkey(prev[:6]), vkey(prev[6:])
                if e != ("STEP", want_q, vkey(grid[j + 1] - grid[j]), want_x):
                    ok = False
                    carried.append((direction, [int(x) for x in tape], j))
                    break
            if not ok:
                bad.append((direction, [int(x) for x in tape], str(out[:2])))
    chk.check(not carried, "C11.b", f"{SY}::_integrate_symplectic_until_event[extended state]",
              f"{len(carried)} of {n} cases: a composite step does not start from the extended state (Q,P,X,Y) the previous step produced (first step: X=Q0, Y=P0) "
              f"with dt = t[i+1]-t[i], e.g. (direction, tape, step) = {carried[0] if carried else ''}", sample="q_ext carried across steps; dt = grid differences")
    chk.check(not bad, "C11.b", f"{SY}::_integrate_symplectic_until_event[protocol]",
              f"{len(bad)} of {n} cases deviate from the event protocol, e.g. {bad[0] if bad else ''}", sample=f"{n} tapes match the reference protocol")
    chk.count("driver tapes unrolled", n)


# ------------------------------------------------------------------------------------------------ c
REFINERS = [(RK, "_hermite_refine_in_step", "_hermite_eval_dense"), (RK, "_rk45_refine_in_step", "_rk45_eval_dense"),
            (RK, "_dop853_refine_in_step", "_dop853_eval_dense"), (RK, "_dop853_refine_in_step_ham", "_dop853_eval_dense"),
            (SY, "_hermite_refine_event_symplectic", "_hermite_eval_dense_symplectic")]


def _ref_bisect(tape, direction, h, xtol, gtol):
    """Reference bisection: returns (x_hit, number of event evaluations incl. the left end)."""
    a, b = R(0), R(1)
    g_left = tape[0]
    k = 1
    for _ in range(128):
        mid = (a + b) / 2
        g_mid = tape[k] if k < len(tape) else tape[-1]
        k += 1
        if abs(g_mid) <= gtol:
            return mid, k
        crossed = ((g_left < 0 < g_mid) or (g_left > 0 > g_mid)) if direction == 0 else ((g_left < 0 < g_mid) if direction > 0 else (g_left > 0 > g_mid))
        if crossed:
            b = mid
        else:
            a, g_left = mid, g_mid
        if (b - a) * abs(h) <= xtol:
            break
    return b, k


def _c_refiners(chk, tier):
    vals = [sp.Integer(-1), sp.Integer(1), sp.Integer(0)]
    for modname, fname, dense_name in REFINERS:
        mod, fn = ri.find_def(modname, fname)
        params = [a.arg for a in fn.args.args]
        bad = []
        n = 0
        for hstep in (R(1, 2), R(-1, 2)):
            xtol = abs(hstep) / 8
            for direction in (-1, 0, 1):
                for tape in itertools.product(vals, repeat=4):
                    if tape[0] == 0:
                        continue
                    n += 1
                    H = Harness(event_tape=[tape[0], tape[0] * 0 + tape[1], tape[2], tape[3]], direction=direction, ham=fname.endswith("_ham"), refine_stub=False)
                    # the dop853 refiner evaluates the right end once before bisecting: give it its own (unused) value
                    ev_tape = list(tape)
                    calls = {"n": 0}
                    t0 = R(1, 3)
                    t1 = t0 + hstep

                    def event(t, y, _calls=calls, _tape=ev_tape):
                        if S(t) == t1 and _calls.get("right") is None and fname.startswith("_dop853"):
                            _calls["right"] = True
                            H.trace.append(("EVENT_RIGHT", vkey(t), vkey(y)))
                            return sp.Integer(1)
                        k = _calls["n"]
                        _calls["n"] += 1
                        H.trace.append(("EVENT", vkey(t), vkey(y)))
                        return _tape[k] if k < len(_tape) else _tape[-1]

                    binds = {"event_fn": event, "f": H.rhs, "t0": t0, "t1": t1, "y0": tagvec("ya"), "y1": tagvec("yb"), "f0": tagvec("fa"), "f1": tagvec("fb"),
                             "h": hstep, "Kseg": to_obj_array([[sp.Symbol(f"KS{i}_{d}") for d in range(2)] for i in range(4)]), "direction": direction, "xtol": xtol, "gtol": R(1, 10 ** 9)}
                    binds.update(H.tables)
                    binds.update(H.hamtags)
                    miss = [p for p in params if p not in binds]
                    if miss:
                        raise AnalysisError(f"{fname}: no binding for {miss}")
                    ip = Interp(overrides=H.overrides(), max_depth=20)
                    try:
                        t_hit, y_hit = ip.apply(FuncRef(mod, fn, qual=fname), [], {p: binds[p] for p in params})
                    except OutsideFragment as exc:
                        raise AnalysisError(f"{fname} left the analysable fragment: {exc}")
                    x_ref, nev = _ref_bisect(ev_tape, direction, hstep, xtol, R(1, 10 ** 9))
                    ok = S(t_hit) == t0 + x_ref * hstep
                    # y_hit is the dense evaluation of THIS step's data at x_hit
                    dens = [e for e in H.trace if e[0] == dense_name]
                    last = dens[-1] if dens else None
                    ok = ok and last is not None and vkey(y_hit) == vkey(tagvec(f"D{len(dens) - 1}")) and vkey(x_ref) in last and vkey(tagvec("ya")) in last
                    # mid-point event evaluations happen at t0 + mid*h on the dense state
                    evs = [e for e in H.trace if e[0] == "EVENT"]
                    ok = ok and evs and evs[0] == ("EVENT", vkey(t0), vkey(tagvec("ya"))) and len(evs) == nev
                    if not ok:
                        bad.append((float(hstep), direction, [int(v) for v in tape], str(t_hit), str(t0 + x_ref * hstep)))
        chk.check(not bad, "C11.c", f"{modname}::{fname}",
                  f"{len(bad)} of {n} (h sign, direction, event-value tape) cases deviate from the reference bisection (a,b=0,1; mid; early exit iff |g_mid|<=gtol; "
                  f"crossed -> b=mid else a=mid,g_left=g_mid; stop when (b-a)|h|<=xtol; answer = right end b; t_hit = t0 + x_hit*h; state from this step's dense output): "
                  f"e.g. {bad[0] if bad else ''}", sample=f"{n} tapes: t_hit and y_hit equal the reference bisection on the step's own dense output")
        chk.count("refiner tapes unrolled", n)


# ------------------------------------------------------------------------------------------------ integrate() wrappers
def _b_integrate_wrappers(chk):
    for cls_name, modname, drivers in (("_FixedStepRK", RK, ("_integrate_fixed_rk_until_event", "_integrate_fixed_rk_until_event_ham")),
                                       ("_RK45", RK, ("_integrate_rk45_until_event", "_integrate_rk45_until_event_ham")),
                                       ("_DOP853", RK, ("_integrate_dop853_until_event", "_integrate_dop853_until_event_ham"))):
        mod, cls = ri.find_def(modname, cls_name)
        for ham in (False, True):
            for hit in (True, False):
                for cfg_dir in (None, -1, 1):
                    cap = {}

                    def drv_stub(ip, args, kwargs, _cap=cap):
                        _cap.update(kwargs)
                        _cap["__called__"] = _cap.get("__called__", 0) + 1
                        if cls_name == "_FixedStepRK":
                            return (hit, sp.Symbol("T_EVENT"), tagvec("YEV"), np.vstack([tagvec("L0"), tagvec("YL")]))
                        return (hit, sp.Symbol("T_EVENT"), tagvec("YEV"), tagvec("YL"))

                    ov = {"_Solution": lambda ip_, a, k: SymObj(None, dict(k), "sol")}
                    for d in drivers:
                        ov[d] = (lambda ip_, a, k, _d=d, _s=drv_stub: (cap.__setitem__("__driver__", _d), _s(ip_, a, k))[1])
                    ip = Interp(overrides=ov)
                    ip.isinstance_hook = lambda v, c: (ham if (isinstance(c, ClassRef) and c.node.name == "_HamiltonianSystemProtocol") else None)
                    obj = SymObj(ClassRef(mod, cls), {"_A": sp.Symbol("A"), "_B_HIGH": sp.Symbol("B"), "_B_LOW": None, "_C": sp.Symbol("C"), "_E": sp.Symbol("E"),
                                                      "_E5": sp.Symbol("E5"), "_E3": sp.Symbol("E3"), "_p": 5, "_rtol": sp.Symbol("rtol"), "_atol": sp.Symbol("atol"),
                                                      "_max_step": sp.Symbol("mx"), "_min_step": sp.Symbol("mn"), "validate_inputs": lambda *a: None,
                                                      "_maybe_constant_solution": lambda *a: None, "_build_rhs_wrapper": lambda s: sp.Symbol("RHSF"),
                                                      "_compile_event_function": lambda e: ("compiled", e)}, "integrator")
                    system = SymObj(None, {"rhs_params": (sp.Symbol("JAC"), sp.Symbol("CLMO"), sp.Symbol("NDOF")), "dim": 2, "rhs": sp.Symbol("RHS")}, "system")
                    y0 = tagvec("y0")
                    tv = to_obj_array([sp.Symbol("T0"), sp.Symbol("T1"), sp.Symbol("T2")])
                    ecfg = None if cfg_dir is None else SymObj(None, {"direction": cfg_dir, "terminal": True}, "ecfg")
                    eopt = SymObj(None, {"xtol": sp.Symbol("XT"), "gtol": sp.Symbol("GT")}, "eopt")
                    sol = ip.apply(ip.getattr(obj, "integrate"), [system, y0, tv], {"event_fn": sp.Symbol("EVF"), "event_cfg": ecfg, "event_options": eopt})
                    times, states = to_obj_array(sol.attrs["times"]), to_obj_array(sol.attrs["states"])
                    tag = f"{cls_name}.integrate[ham={ham},hit={hit},dir={cfg_dir}]"
                    want_drv = drivers[1] if ham else drivers[0]
                    ok = cap.get("__driver__") == want_drv and cap.get("__called__") == 1
                    chk.check(ok, "C11.d", f"{modname}::{tag}[dispatch]", f"event integration of a {'Hamiltonian' if ham else 'generic'} system dispatches to {cap.get('__driver__')}",
                              sample=f"ham={ham} -> {want_drv}", nontrivial=False)
                    okd = cap.get("direction") == (0 if cfg_dir is None else cfg_dir) and cap.get("xtol") == sp.Symbol("XT") and cap.get("gtol") == sp.Symbol("GT") \
                        and cap.get("event_fn") == ("compiled", sp.Symbol("EVF"))
                    chk.check(okd, "C11.b", f"{modname}::{tag}[config]",
                              f"driver receives direction={cap.get('direction')}, xtol={cap.get('xtol')}, gtol={cap.get('gtol')}; expected the event configuration's "
                              f"direction (0 when absent) and the event options' tolerances", sample=f"direction={(0 if cfg_dir is None else cfg_dir)}, xtol, gtol from options",
                              nontrivial=False)
                    if hit:
                        okr = list(times) == [sp.Symbol("T0"), sp.Symbol("T_EVENT")] and states.shape == (2, 2) and list(states[0]) == list(y0) and list(states[1]) == list(tagvec("YEV"))
                    else:
                        okr = list(times) == [sp.Symbol("T0"), sp.Symbol("T2")] and states.shape == (2, 2) and list(states[0]) == list(y0) and list(states[1]) == list(tagvec("YL"))
                    chk.check(okr, "C11.b", f"{modname}::{tag}[result]",
                              f"integrate returns times {list(times)}, states {states.tolist()}; expected "
                              f"{'[t0, t_event] / [y0, y_event]' if hit else '[t0, t_end] / [y0, state at the end of the span]'}",
                              sample="hit -> ([t0,t_event],[y0,y_event]); no hit -> ([t0,t_end],[y0,y_last])", nontrivial=(cfg_dir is None))
    chk.count("functions partially evaluated", 36)


# ------------------------------------------------------------------------------------------------ e
def _d_event_time_argument(chk):
    """"The event function there is zero": the time the event function is evaluated at is the time that is reported.  Propagating
    backward, _propagate_dynsys reports signed times (0 ... -T); the integrator must then show the event function the signed time
    too - by integrating the signed grid (symplectic) or by wrapping the event function (RK families on the direction-wrapped
    system).  Decided per integrator on a direction-wrapped model system with fwd = -1: the grid the event kernel integrates is
    -t_vals, or the event function handed to it is not the caller's raw function."""
    from .c10 import _run_integrate, INTEGRATORS
    T = [sp.Symbol(f"T{i}", real=True) for i in range(3)]
    tv = to_obj_array(T)
    rep = {T[0]: 0, T[1]: 1, T[2]: 2}
    for cls_name, modname, drivers, kind in INTEGRATORS:
        outcome, sol, cap = _run_integrate(cls_name, modname, drivers, tv, rep, fwd=-1, ham=(cls_name == "_ExtendedSymplectic"), event=True, hit=True)
        ev = [c for c in cap["calls"] if "until_event" in c[0]]
        if outcome != "return" or not ev:
            raise AnalysisError(f"{cls_name}.integrate: event branch not reached on a direction-wrapped system ({outcome}: {sol})")
        name, kw, a = ev[0]
        vals = list(kw.values()) + list(a)
        grid = kw.get("t_values", kw.get("t_eval", kw.get("t_vals")))
        if grid is None:
            grid = next((x for x in a if isinstance(x, np.ndarray) and x.shape == (3,)), None)
        signed_grid = grid is not None and [S(v) for v in to_obj_array(grid)] == [-t for t in T]
        t0k, tmk = kw.get("t0"), kw.get("tmax")
        if grid is None and t0k is not None and tmk is not None:
            signed_grid = S(t0k) == -T[0] and S(tmk) == -T[2]
        raw_event = any(isinstance(v, sp.Basic) and v == sp.Symbol("EVF") for v in vals)
        chk.check(signed_grid or not raw_event, "C11.d", f"{modname}::{cls_name}.integrate[event time argument, backward]",
                  f"on a backward (direction-wrapped) system {name} integrates the unsigned grid and is handed the caller's event function as is: g is evaluated at +t "
                  f"while the hit is reported at -t, so a time-dependent event function is not zero at the reported (time, state)",
                  sample=f"{cls_name}: backward event search shows g the signed time")
    chk.count("functions partially evaluated", 4)


def _e_wrapper_direction(chk, rule="C11.e"):
    """The crossing search runs in the time direction that was asked for: the alignment step and the event-terminated
    integration see the same direction (the alignment moves the state off the plane; searching the other way re-crosses it
    after ~1e-12 and reports that as the 'half period')."""
    mod, cls = ri.find_def(SH, "_SingleHitBackend")
    pe_mod, pe_cls = ri.find_def("hiten.algorithms.poincare.core.events", "_PlaneEvent")
    for forward in (1, -1):
        cap = {}

        def integ(system, y, times, event_fn=None, event_cfg=None, **kw):
            cap["system"] = system
            return SymObj(None, {"times": to_obj_array([0, R(1)]), "states": to_obj_array([[sp.Symbol(f"a{i}") for i in range(6)], [sp.Symbol(f"b{i}") for i in range(6)]])}, "sol")

        def prop(ip_, a, k):
            cap["align_forward"] = k.get("forward", a[4] if len(a) > 4 else None)
            return SymObj(None, {"states": to_obj_array([[sp.Symbol(f"p{i}") for i in range(6)], [sp.Symbol(f"q{i}") for i in range(6)]])}, "sol")

        DYN = sp.Symbol("DYN")
        ov = {"RungeKutta": lambda ip_, a, k: SymObj(None, {"integrate": integ}, "rk"), "EventConfig": lambda ip_, a, k: SymObj(None, dict(k), "ecfg"),
              "_propagate_dynsys": prop, "_SectionHit": lambda ip_, a, k: SymObj(None, dict(k), "hit"),
              "_DirectedSystem": lambda ip_, a, k: ("directed", a[0], k.get("fwd", a[1] if len(a) > 1 else 1))}
        ip = Interp(overrides=ov)
        surface = SymObj(ClassRef(pe_mod, pe_cls), {"direction": None, "index": 1, "offset": R(0)}, "surface")
        be = SymObj(ClassRef(mod, cls), {}, "backend")
        st0 = to_obj_array([sp.Symbol(f"s{i}") for i in range(6)])
        ip.apply(ip.getattr(be, "_cross_event_driven"), [st0], {"dynsys": DYN, "surface": surface, "t0": R(1), "tmax": R(4), "forward": forward})
        sysm = cap.get("system")
        eff = 1 if sysm == DYN else (sysm[2] if isinstance(sysm, tuple) and sysm[:2] == ("directed", DYN) else None)
        chk.check(cap.get("align_forward") == forward and eff == forward, rule, f"{SH}::_SingleHitBackend._cross_event_driven[forward={forward}][direction]",
                  f"forward={forward}: the alignment step runs with forward={cap.get('align_forward')} but the crossing search integrates {sysm} (effective direction {eff})",
                  sample=f"forward={forward}: alignment and crossing search both run with direction {forward}", nontrivial=(forward == -1))
    chk.count("functions partially evaluated", 2)


def _e_wrapper(chk):
    _e_wrapper_direction(chk)
    mod, cls = ri.find_def(SH, "_SingleHitBackend")
    pe_mod, pe_cls = ri.find_def("hiten.algorithms.poincare.core.events", "_PlaneEvent")
    for idx, want_fn in ((0, "_g_x0"), (1, "_g_y0"), (2, "_g_z0")):
        for direction in (None, 1, -1):
            for outcome in ("hit", "late", "negative"):
                cap = {}
                span_sym = R(3)
                t_rel = {"hit": R(1), "late": R(3), "negative": R(-1)}[outcome]

                def integ(system, y, times, event_fn=None, event_cfg=None, **kw):
                    cap.update({"event_fn": event_fn, "cfg": event_cfg, "times": times, "system": system})
                    return SymObj(None, {"times": to_obj_array([0, t_rel]), "states": to_obj_array([[sp.Symbol(f"a{i}") for i in range(6)], [sp.Symbol(f"b{i}") for i in range(6)]])}, "sol")

                ov = {"RungeKutta": lambda ip_, a, k: (cap.__setitem__("order", k.get("order")), SymObj(None, {"integrate": integ}, "rk"))[1],
                      "EventConfig": lambda ip_, a, k: SymObj(None, dict(k), "ecfg"),
                      "_propagate_dynsys": lambda ip_, a, k: SymObj(None, {"states": to_obj_array([[sp.Symbol(f"p{i}") for i in range(6)], [sp.Symbol(f"q{i}") for i in range(6)]])}, "sol"),
                      "_SectionHit": lambda ip_, a, k: SymObj(None, dict(k), "hit")}
                ip = Interp(overrides=ov)
                surface = SymObj(ClassRef(pe_mod, pe_cls), {"direction": direction, "index": idx, "offset": R(0)}, "surface")
                be = SymObj(ClassRef(mod, cls), {}, "backend")
                st0 = to_obj_array([sp.Symbol(f"s{i}") for i in range(6)])
                res = ip.apply(ip.getattr(be, "_cross_event_driven"), [st0], {"dynsys": sp.Symbol("DYN"), "surface": surface, "t0": R(1), "tmax": R(4), "forward": 1})
                efn = cap.get("event_fn")
                ok = isinstance(efn, FuncRef) and efn.node.name == want_fn and getattr(cap.get("cfg"), "attrs", {}).get("direction") == (0 if direction is None else direction)
                chk.check(ok, "C11.e", f"{SH}::_SingleHitBackend._cross_event_driven[idx={idx},dir={direction},{outcome}][event]",
                          f"plane index {idx}, direction {direction}: event function {getattr(getattr(efn, 'node', None), 'name', efn)}, "
                          f"configured direction {getattr(cap.get('cfg'), 'attrs', {}).get('direction')}", sample=f"idx {idx} -> {want_fn}; direction None -> 0",
                          nontrivial=(outcome == "hit"))
                if outcome == "hit":
                    okh = isinstance(res, SymObj) and res.attrs.get("time") == R(1) + t_rel and list(to_obj_array(res.attrs.get("state"))) == [sp.Symbol(f"b{i}") for i in range(6)]
                else:
                    okh = res is None
                chk.check(okh, "C11.e", f"{SH}::_SingleHitBackend._cross_event_driven[idx={idx},dir={direction},{outcome}][result]",
                          f"relative hit time {t_rel} in a span of 3: returned {res}", sample="hit iff 0 <= t_rel < span; time = t_start + t_rel",
                          nontrivial=(idx == 1 and direction is None))
