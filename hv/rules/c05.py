"""C05 — a successful differential correction yields a genuinely periodic orbit.

a  Newton never hands back an unconverged state (bounded unrolling over residual/stepper outcome tapes + engine failure path)
b  Armijo: monotone residual (Armijo trial or best-point fallback), raise otherwise
c  step cap dominates every trial point (both steppers); constructor defaults in range
d  shooting configurations are symmetric ones; period = 2 x half-period
e  analytic Jacobian pieces: halo quadratic term == field accelerations; residual/Jacobian assembly; central differences

d (added)  start symmetry: the analytic start state lies in the fixed set of a reversing symmetry whose free coordinates contain the
           controls; same symmetry at both ends -> period 2*tau, different -> 4*tau
e (added)  tolerance chain: the crossing integrator and event location are no looser than the default convergence tolerance

d (round 3)  apply_correction on an orbit that already holds a state 1e-9 away: state, period and cache all updated (exact numpy allclose)
e (round 3)  the crossing search and the operators' STM run in the configured time direction (C11.e direction rule re-filed; call-site rule)
e (round 4)  options chain: create_problem + to_backend_inputs interpreted with symbolic options (tolerance, limits, direction, order, steps, indices, event reach the operators / the request);
   e-crossing: C11.e's wrapper rules re-filed (the end of the search window is never a hit)
d-members (round 5)  C13.f re-filed: members of a continuation carry the period (and, known finding, the correction scheme) of their own correction
d cache hit (round 5)  `_OrbitCorrectionService.correct` interpreted twice on one service with a remembering `get_or_create`: the result is applied to the
   orbit on both calls, with period = the scheme's factor * the returned half-period (the old code applied it inside the memoised factory only; fix 31621db)
"""
from __future__ import annotations

import ast
import itertools

import numpy as np
import sympy as sp

from ..core import Check, AnalysisError
from .. import repoindex as ri
from .. import sites
from ..cfg import CFG, resolve_guard
from ..kpe import Interp, SymObj, ClassRef, FuncRef, UFunc, to_obj_array, S, OutsideFragment, KpeRaise
from ..regions import RegionDecider, select_minmax
from ..alg import Radicals, is_zero, residual, short
from . import common

NB = "hiten.algorithms.corrector.backends.newton"
BB = "hiten.algorithms.corrector.backends.base"
AR = "hiten.algorithms.corrector.stepping.armijo"
PL = "hiten.algorithms.corrector.stepping.plain"
IFC = "hiten.algorithms.corrector.interfaces"
OPS = "hiten.algorithms.corrector.operators"
ENG = "hiten.algorithms.corrector.engine.engine"
CORE = "hiten.algorithms.types.core"
OS = "hiten.algorithms.types.services.orbits"
SH = "hiten.algorithms.poincare.singlehit.backend"

TOL = sp.Rational(1, 10)
NORMS = {"s": sp.Rational(1, 100), "m": sp.Rational(1, 2), "b": sp.Integer(5)}   # small < tol <= medium < 10 tol <= big


def run(tier):
    chk = Check("C05", tier, "other",
                "The Newton driver and both step strategies are unrolled by the partial evaluator under every outcome tape of "
                "the abstracted residual (norm small / between tol and 10 tol / large) and stepper (returns / raises), and the "
                "returned state must be one whose own residual norm was measured below tol; path rules on the CFG give the "
                "same for any iteration count; Armijo tapes are checked against the reference acceptance rule; shooting "
                "configurations are read from the services and matched with the reversing symmetries of the CR3BP; analytic "
                "Jacobian pieces are term identities against the extracted field.",
                trusted_base=["python ast", "hv.kpe", "hv.cfg", "mirror theorem: two perpendicular crossings of the fixed set of a reversing symmetry close the orbit"])
    _a_newton(chk, tier)
    _a_cfg(chk)
    _a_engine(chk)
    _b_armijo(chk, tier)
    _c_caps(chk)
    _d_configs(chk)
    _d_period(chk)
    _d_start_symmetry(chk)
    _d_period_setter(chk)
    _e_jacobian(chk)
    _e_tolerance_chain(chk)
    # the residual, its Jacobian and the crossing search all run in the configured time direction (a backward correction that
    # searched forward reported success with a half period of 5.6e-12)
    from . import c11
    c11._e_wrapper_direction(chk, rule="C05.e")
    _e_operator_direction(chk)
    _e_options_chain(chk)
    # the public facade binds every argument to the service parameter it is meant for (nominal swap rule, rules/common.py)
    from . import common as _common
    _common.facade_bindings(chk, "C05.d-facade", ['hiten.system.orbits'], floor=5)
    # the half period is a genuine crossing: reaching the end of the search window is "no crossing", never a hit (C11.e's wrapper rules re-filed)
    from .common import Relabel as _Relabel
    c11._e_wrapper(_Relabel(chk, {"C11.e": "C05.e-crossing"}))
    # orbits corrected on behalf of a continuation are handed out with the period of THEIR correction (C13.f re-filed)
    from . import c13 as _c13
    _c13._f_members(_Relabel(chk, {"C13.f": "C05.d-members", "C13.b": "C05.d-members"}))
    return chk


def _e_options_chain(chk):
    """The correction runs with the options of the call: _OrbitCorrectionInterface.create_problem and to_backend_inputs are
    interpreted with symbolic options and a model configuration; tolerance, iteration limit, step cap and finite-difference
    step reach the backend request, and direction / integrator order / steps / indices / event reach the operators, each
    under its own name (and the analytic Jacobian is used exactly when finite differences are not configured)."""
    imod, icls = ri.find_def(IFC, "_OrbitCorrectionInterface")
    TOL, MA, MD, FD, ORD, ST = (sp.Symbol(n) for n in ("TOL", "MAX_ATTEMPTS", "MAX_DELTA", "FD_STEP", "ORDER", "STEPS"))
    for fd_cfg in (False, True):
        ops_kw, req_kw = {}, {}
        base = SymObj(None, {"integration": SymObj(None, {"order": ORD, "steps": ST}, "io"), "convergence": SymObj(None, {"max_attempts": MA, "tol": TOL, "max_delta": MD}, "co"),
                             "numerical": SymObj(None, {"fd_step": FD}, "no")}, "base")
        opts = SymObj(None, {"base": base, "forward": -1}, "options")
        cfg = SymObj(None, {"control_indices": (0, 4), "residual_indices": (3, 5), "target": (0, 0), "extra_jacobian": sp.Symbol("XJ"), "event_func": sp.Symbol("EVENT"),
                            "integration": SymObj(None, {"method": "adaptive"}, "ic"), "numerical": SymObj(None, {"finite_difference": fd_cfg}, "nc")}, "config")
        ops = SymObj(None, {"build_residual_fn": lambda: sp.Symbol("RESIDUAL_FN"), "build_jacobian_fn": lambda: sp.Symbol("JACOBIAN_FN")}, "ops")
        ip = Interp(overrides={"_SingleShootingOrbitOperators": lambda ip_, a, k: (ops_kw.update(k), ops)[1],
                               "CorrectorInput": lambda ip_, a, k: (req_kw.update(k), SymObj(None, dict(k), "request"))[1],
                               "_BackendCall": lambda ip_, a, k: SymObj(None, dict(k), "call")})
        dom = SymObj(None, {}, "orbit")
        iface = SymObj(ClassRef(imod, icls), {"_norm_fn": lambda: sp.Symbol("NORM_FN"), "_initial_guess": lambda d, c: sp.Symbol("GUESS")}, "interface")
        try:
            prob = ip.apply(ip.getattr(iface, "create_problem"), [], {"domain_obj": dom, "config": cfg, "options": opts, "stepper_factory": sp.Symbol("STEPPER")})
            ip.apply(ip.getattr(iface, "to_backend_inputs"), [prob], {})
        except OutsideFragment as exc:
            raise AnalysisError(f"correction options chain outside fragment: {exc}")
        chk.count("functions partially evaluated", 2)
        want_ops = {"domain_obj": dom, "control_indices": (0, 4), "residual_indices": (3, 5), "target": (0, 0), "extra_jacobian": sp.Symbol("XJ"), "event_func": sp.Symbol("EVENT"),
                    "forward": -1, "method": "adaptive", "order": ORD, "steps": ST}
        bad = {k: ops_kw.get(k) for k, v in want_ops.items() if not (k in ops_kw and (ops_kw[k] is v or ops_kw[k] == v))}
        chk.check(not bad, "C05.e", f"{IFC}::_OrbitCorrectionInterface.create_problem[operators,fd={fd_cfg}]",
                  f"the shooting operators are built with {bad} instead of {dict((k, want_ops[k]) for k in bad)}", sample="operators: indices, target, event, forward, method, order, steps of the call")
        want_req = {"initial_guess": sp.Symbol("GUESS"), "residual_fn": sp.Symbol("RESIDUAL_FN"), "jacobian_fn": (None if fd_cfg else sp.Symbol("JACOBIAN_FN")), "norm_fn": sp.Symbol("NORM_FN"),
                    "max_attempts": MA, "tol": TOL, "max_delta": MD, "fd_step": FD}
        bad = {k: req_kw.get(k) for k, v in want_req.items() if not (k in req_kw and (req_kw[k] is v or req_kw[k] == v))}
        chk.check(not bad, "C05.e", f"{IFC}::_OrbitCorrectionInterface.to_backend_inputs[fd={fd_cfg}]",
                  f"the backend request carries {bad} instead of {dict((k, want_req[k]) for k in bad)}: the Newton iteration does not run with the options of the call",
                  sample="request: tol, max_attempts, max_delta, fd_step, residual / Jacobian / norm functions of this problem")


def _e_operator_direction(chk):
    """The operators' three helpers (event propagation, STM, fixed propagation of the symmetric copy) hand the configured
    direction on: call-site rule on _OrbitCorrectionOperatorBase."""
    OP = "hiten.algorithms.corrector.operators"
    mod, cls = ri.find_def(OP, "_OrbitCorrectionOperatorBase")
    for meth, callee in (("_compute_stm", "_compute_stm"), ("_propagate_to_event", "_event_func")):
        f = next((x for x in cls.body if isinstance(x, ast.FunctionDef) and x.name == meth), None)
        if f is None:
            raise AnalysisError(f"anchor: _OrbitCorrectionOperatorBase.{meth} not found")
        calls = [c for c in ast.walk(f) if isinstance(c, ast.Call) and ast.unparse(c.func).split(".")[-1] == callee]
        ok = bool(calls) and all(sites.arg_text(f, next((k.value for k in c.keywords if k.arg == "forward"), None)) == "self._forward" for c in calls)
        chk.check(ok, "C05.e", f"{OP}::_OrbitCorrectionOperatorBase.{meth}[forward]",
                  f"{meth} does not pass forward=self._forward to {callee}: the Jacobian / crossing are computed for the other time direction than the residual",
                  sample=f"{meth}: {callee}(..., forward=self._forward)")


def _e_tolerance_chain(chk):
    """The residual whose norm is compared with the convergence tolerance is produced by an event-terminated integration;
    convergence at `tol` means nothing for the true flow unless that integration (and the event location) is at least as
    accurate as the default tolerance at which success is declared.  Constants are read from the source."""
    OPT = "hiten.algorithms.types.options"
    SH = "hiten.algorithms.poincare.singlehit.backend"
    omod, ocls = ri.find_def(OPT, "ConvergenceOptions")
    tol = None
    for st in ocls.body:
        if isinstance(st, ast.AnnAssign) and isinstance(st.target, ast.Name) and st.target.id == "tol" and isinstance(st.value, ast.Constant):
            tol = sp.Rational(str(st.value.value))
    if tol is None:
        raise AnalysisError("anchor: ConvergenceOptions.tol default not found")
    smod, scls = ri.find_def(SH, "_SingleHitBackend")
    fn = next((f for f in scls.body if isinstance(f, ast.FunctionDef) and f.name == "_cross_event_driven"), None)
    if fn is None:
        raise AnalysisError("anchor: _SingleHitBackend._cross_event_driven not found")
    n = 0
    for call in [c for c in ast.walk(fn) if isinstance(c, ast.Call) and ast.unparse(c.func).split(".")[-1] in ("RungeKutta", "AdaptiveRK", "_DOP853", "_RK45")]:
        kws = {k.arg: k.value for k in call.keywords}
        for name in ("rtol", "atol"):
            v = kws.get(name)
            cv = sites.const_value(smod, fn, v) if v is not None else None
            if cv is None:
                chk.fail("C05.e", f"{SH}::_SingleHitBackend._cross_event_driven[{name}]", f"the crossing integrator is built without a literal {name} ({ast.unparse(call)[:80]}): its accuracy is not tied to the correction tolerance")
                continue
            n += 1
            val = sp.Rational(str(cv))
            chk.check(val <= tol, "C05.e", f"{SH}::_SingleHitBackend._cross_event_driven[{name}]",
                      f"the crossing integration runs with {name}={cv}, looser than the default convergence tolerance {float(tol)}: a residual below tol is then below the "
                      "integration error and the corrected orbit does not close to a small multiple of tol", sample=f"{name}={cv} <= ConvergenceOptions.tol={float(tol)}")
    chk.floor("literal tolerances of the crossing integrator", n, 2)
    # event location defaults
    ecls = next((c for c in omod.tree.body if isinstance(c, ast.ClassDef) and c.name == "EventOptions"), None)
    if ecls is not None:
        for st in ecls.body:
            if isinstance(st, ast.AnnAssign) and isinstance(st.target, ast.Name) and st.target.id in ("xtol", "gtol") and isinstance(st.value, ast.Constant):
                chk.check(sp.Rational(str(st.value.value)) <= tol, "C05.e", f"{OPT}::EventOptions.{st.target.id}",
                          f"default event {st.target.id}={st.value.value} is looser than the default convergence tolerance {float(tol)}", sample=f"{st.target.id}={st.value.value}", nontrivial=False)


# ------------------------------------------------------------------------------------------------ a
def _newton_run(norm_tape, step_tape, max_attempts):
    mod, cls = ri.find_def(NB, "_NewtonBackend")
    st = {"k": 0, "norm_of": {}, "steps": 0}
    x0 = to_obj_array([sp.Symbol("x0_0"), sp.Symbol("x0_1")])

    def tag(x):
        return tuple(str(e) for e in to_obj_array(x).ravel())

    def residual_fn(x):
        k = st["k"]
        st["k"] += 1
        lvl = norm_tape[k] if k < len(norm_tape) else "b"
        r = to_obj_array([sp.Symbol(f"r{k}_0"), sp.Symbol(f"r{k}_1")])
        st["norm_of"][tag(x)] = NORMS[lvl]
        st.setdefault("res_level", {})[tag(r)] = NORMS[lvl]
        return r

    def norm_fn(r):
        return st["res_level"][tag(r)]

    def stepper(x, delta, cur):
        j = st["steps"]
        st["steps"] += 1
        oc = step_tape[j] if j < len(step_tape) else "ok"
        if oc == "raise":
            raise KpeRaise("line search failed")
        nxt = norm_tape[st["k"]] if st["k"] < len(norm_tape) else "b"
        return (to_obj_array([sp.Symbol(f"x{j + 1}_0"), sp.Symbol(f"x{j + 1}_1")]), NORMS[nxt], 1)

    request = SymObj(None, {"tol": TOL, "max_attempts": max_attempts, "fd_step": sp.Symbol("fd"), "max_delta": sp.Symbol("md"),
                            "residual_fn": residual_fn, "jacobian_fn": None, "norm_fn": norm_fn, "initial_guess": x0, "metadata": {}}, "request")
    be = SymObj(ClassRef(mod, cls), {"_stepper_factory": lambda *a: stepper, "on_iteration": lambda *a, **k: None, "on_accept": lambda *a, **k: None,
                                     "on_failure": lambda *a, **k: None, "_compute_jacobian": lambda *a: sp.Symbol("J"),
                                     "_solve_delta_dense": lambda *a: sp.Symbol("delta")}, "backend")
    ip = Interp()
    try:
        out = ip.apply(ip.getattr(be, "run"), [], {"request": request})
    except KpeRaise as exc:
        return ("raise", exc.text, st)
    return ("return", out, st)


def _a_newton(chk, tier):
    n = bad_unconv = bad_norm = bad_raise = 0
    ex1 = ex2 = ex3 = None
    maxes = (0, 1, 2, 3) if tier == "quick" else (0, 1, 2, 3, 4)
    for ma in maxes:
        for norm_tape in itertools.product("smb", repeat=ma + 1):
            for step_tape in itertools.product(("ok", "raise"), repeat=min(ma, 2)):
                n += 1
                kind, out, st = _newton_run(norm_tape, step_tape, ma)
                if kind == "return":
                    xc = tuple(str(e) for e in to_obj_array(out.attrs["x_corrected"]).ravel())
                    nrm = st["norm_of"].get(xc)
                    if nrm is None or not nrm < TOL:
                        bad_unconv += 1
                        ex1 = ex1 or (norm_tape, step_tape, ma, xc, nrm)
                    elif S(out.attrs["residual_norm"]) != nrm:
                        bad_norm += 1
                        ex2 = ex2 or (norm_tape, step_tape, ma, out.attrs["residual_norm"], nrm)
                else:
                    # raising is always allowed by the property; but raising although the current iterate already met tol is a defect
                    # only if no stepper failure happened before: reference check
                    want_return = _newton_reference(norm_tape, step_tape, ma)
                    if want_return:
                        bad_raise += 1
                        ex3 = ex3 or (norm_tape, step_tape, ma)
    chk.count("outcome tapes unrolled", n)
    c0 = f"{NB}::_NewtonBackend.run"
    chk.check(bad_unconv == 0, "C05.a", c0 + "[unrolled:returned state]",
              f"{bad_unconv} of {n} tapes return a state whose own residual norm was not measured below tol (e.g. norms={ex1[0] if ex1 else ''}, "
              f"steps={ex1[1] if ex1 else ''}, max_attempts={ex1[2] if ex1 else ''}: returned {ex1[3] if ex1 else ''} with |R|={ex1[4] if ex1 else ''}, tol={TOL})",
              sample=f"{n} tapes (norm levels {{<tol, [tol,10tol), >=10tol}} x stepper {{ok, raises}} x max_attempts {list(maxes)}): every return carries |R(x_returned)| < tol")
    chk.check(bad_norm == 0, "C05.a", c0 + "[unrolled:reported norm]", f"{bad_norm} tapes report a residual norm that is not the one of the returned state: {ex2}",
              sample="residual_norm == ||R(x_corrected)||")
    chk.check(bad_raise == 0, "C05.a", c0 + "[unrolled:spurious failure]", f"{bad_raise} tapes raise although an iterate met the tolerance within the iteration cap: {ex3}",
              sample="converged iterates are returned, not rejected", nontrivial=False)


def _newton_reference(norm_tape, step_tape, ma):
    k = 0
    for it in range(ma):
        if norm_tape[k] == "s":
            return True
        k += 1
        oc = step_tape[it] if it < len(step_tape) else "ok"
        if oc == "raise":
            return False
    return norm_tape[k] == "s" if k < len(norm_tape) else False


def _a_cfg(chk):
    """All iteration counts: every return in run() is guarded by `<norm> < tol` on the true edge."""
    mod, fn = ri.find_def(NB, "_NewtonBackend.run")
    cfg = CFG(fn)
    idom = cfg.dominators()
    rets = cfg.stmt_nodes(ast.Return)
    chk.floor("return sites in Newton run", len(rets), 2)
    tol_names = {"tol"} | {t.targets[0].id for t in ast.walk(fn) if isinstance(t, ast.Assign) and isinstance(t.targets[0], ast.Name)
                           and ast.unparse(t.value) == "request.tol"}
    for r in rets:
        guards = cfg.guarded_by(r, idom)
        ok = False
        why = ""
        for t, pol in guards:
            e, pol = resolve_guard(fn, cfg.data(t)["ast"], pol)
            if isinstance(e, ast.Compare) and len(e.ops) == 1 and isinstance(e.ops[0], (ast.Lt, ast.LtE)) and pol is True \
                    and isinstance(e.comparators[0], ast.Name) and e.comparators[0].id in tol_names and isinstance(e.left, ast.Name):
                nrm = e.left.id
                ret = cfg.data(r)["ast"].value
                kw = {k.arg: ast.unparse(k.value) for k in getattr(ret, "keywords", [])}
                ok = kw.get("residual_norm") == nrm
                why = f"guard `{ast.unparse(e)}`, returns residual_norm={kw.get('residual_norm')}"
        chk.check(ok, "C05.a", f"{NB}::_NewtonBackend.run[return guard:{ri.norm_stmt(cfg.data(r)['ast'])[:60]}]",
                  f"a return of the Newton driver is not dominated by the true edge of `<residual norm> < tol` on the norm it reports ({why or 'no tolerance guard'})",
                  sample=why)
    chk.count("CFG nodes", cfg.g.number_of_nodes())


def _a_engine(chk):
    """Backend failure must not fall through to to_results(converged=True)."""
    emod, ecls = ri.find_def(ENG, "_OrbitCorrectionEngine")
    called = []
    iface = SymObj(None, {"bind_backend": lambda b: None, "to_backend_inputs": lambda p: SymObj(None, {"request": sp.Symbol("REQ"), "kwargs": {}}, "call"),
                          "to_domain": lambda o, problem=None: (called.append("to_domain"), sp.Symbol("PAYLOAD"))[1],
                          "to_results": lambda o, problem=None, domain_payload=None: (called.append("to_results"), sp.Symbol("RESULT"))[1]}, "iface")

    def run_fail(**kw):
        raise KpeRaise("ConvergenceError")

    for label, runner in (("backend raises", run_fail), ("backend returns", lambda **kw: SymObj(None, {"x_corrected": 1, "iterations": 2, "residual_norm": 3}, "out"))):
        called.clear()
        backend = SymObj(None, {"run": runner, "on_success": lambda *a, **k: None}, "backend")
        eng = SymObj(ClassRef(emod, ecls), {"_backend": backend, "_interface": iface}, "engine")
        ip = Interp()
        try:
            res = ip.apply(ip.getattr(eng, "solve"), [sp.Symbol("PROBLEM")], {})
            outcome = "returned"
        except KpeRaise:
            outcome = "raised"
        except OutsideFragment as exc:
            outcome = f"fell through: {exc}"
        if label == "backend raises":
            chk.check(outcome == "raised" and "to_results" not in called, "C05.a", f"{ENG}::_OrbitCorrectionEngine.solve[failure path]",
                      f"when the backend raises, the engine {outcome} (to_results called: {'to_results' in called}); a failed correction must surface as an error, "
                      f"never as a result with converged=True", sample="backend failure -> EngineError; to_results unreachable")
        else:
            chk.check(outcome == "returned" and called == ["to_domain", "to_results"] and res == sp.Symbol("RESULT"), "C05.a",
                      f"{ENG}::_OrbitCorrectionEngine.solve[success path]", f"success path: {outcome}, calls {called}", nontrivial=False)
    chk.count("functions partially evaluated", 2)
    # every override of _handle_backend_failure in the package ends in raise on all paths
    n = 0
    for m in ri.all_modules():
        if "_handle_backend_failure" not in m.source:
            continue
        for q, fn in ri.functions_in(m):
            if fn.name == "_handle_backend_failure":
                n += 1
                cfg = CFG(fn)
                falls = [u for u, v in cfg.g.in_edges(cfg.exit)]
                chk.check(not falls, "C05.a", f"{m.name}::{q}[always raises]",
                          "an engine's backend-failure handler can return normally; solve() would continue with undefined outputs", sample="all paths end in raise")
    chk.floor("_handle_backend_failure definitions", n, 2)


# ------------------------------------------------------------------------------------------------ b
def _armijo_run(tape, capped, min_alpha=sp.Rational(1, 4)):
    mod, cls = ri.find_def(AR, "_ArmijoLineSearch")
    cur = sp.Integer(1)
    c = sp.Rational(1, 10)
    levels = {"O": sp.Rational(1, 2), "M": sp.Rational(99, 100), "N": sp.Rational(98, 100), "W": sp.Integer(2)}
    st = {"k": 0, "trials": []}
    x0 = to_obj_array([sp.Symbol("u0", real=True), sp.Symbol("u1", real=True)])
    d = to_obj_array([sp.Symbol("d0", real=True), sp.Symbol("d1", real=True)])
    md = sp.Symbol("maxd", positive=True)
    rep = {d[0]: sp.Integer(3), d[1]: sp.Integer(-1), md: sp.Integer(1) if capped else sp.Integer(10)}

    def residual_fn(x):
        k = st["k"]
        st["k"] += 1
        st["trials"].append(to_obj_array(x).copy())
        oc = tape[k] if k < len(tape) else "W"
        if oc == "X":
            raise KpeRaise("residual failed")
        return ("res", k, levels[oc])

    def norm_fn(r):
        return r[2]

    ls = SymObj(ClassRef(mod, cls), {"residual_fn": residual_fn, "norm_fn": norm_fn, "max_delta": md, "alpha_reduction": sp.Rational(1, 2),
                                     "min_alpha": min_alpha, "armijo_c": c}, "armijo")
    ip = Interp(decide=RegionDecider(rep))
    try:
        out = ip.apply(ip.getattr(ls, "__call__"), [], {"x0": x0, "delta": d, "current_norm": cur})
    except KpeRaise as exc:
        return "raise", None, st, (x0, d, md, rep, levels, cur, c)
    return "return", out, st, (x0, d, md, rep, levels, cur, c)


def _b_armijo(chk, tier):
    n = 0
    bad = {"accept": [], "fallback": [], "raise": [], "monotone": [], "trial": []}
    ntr = 3
    for capped in (False, True):
        for tape in itertools.product("OMNWX", repeat=ntr):
            n += 1
            kind, out, st, (x0, d, md, rep, levels, cur, c) = _armijo_run(tape, capped)
            alphas = [sp.Rational(1, 2 ** k) for k in range(ntr)]
            scale = (md / sp.Max(sp.Abs(d[0]), sp.Abs(d[1]))) if capped else 1
            # trial points
            for k, xt in enumerate(st["trials"]):
                for i in range(2):
                    want = x0[i] + alphas[k] * d[i] * scale
                    if residual(select_minmax(S(xt[i]), rep) - select_minmax(want, rep)) != 0:
                        bad["trial"].append((tape, capped, k, str(xt[i])))
            # reference
            ref = None
            best = None
            for k, oc in enumerate(tape):
                if oc == "X":
                    continue
                v = levels[oc]
                if v <= (1 - c * alphas[k]) * cur:
                    ref = ("accept", k, v)
                    break
                if v < (best[2] if best else cur):
                    best = ("fallback", k, v)
            if ref is None:
                ref = best
            if ref is None:
                if kind != "raise":
                    bad["raise"].append((tape, capped))
                continue
            if kind != "return":
                bad[ref[0]].append((tape, capped, "raised"))
                continue
            xr, nr, ar = out
            k = ref[1]
            ok = S(nr) == ref[2] and S(ar) == alphas[k] and all(
                residual(select_minmax(S(to_obj_array(xr)[i]), rep) - select_minmax(x0[i] + alphas[k] * d[i] * scale, rep)) == 0 for i in range(2))
            if not ok:
                bad[ref[0]].append((tape, capped, str(nr), str(ar)))
            if not S(nr) <= cur:
                bad["monotone"].append((tape, capped, str(nr)))
    chk.count("outcome tapes unrolled", n)
    c0 = f"{AR}::_ArmijoLineSearch.__call__"
    texts = {"accept": "the first trial satisfying |r_trial| <= (1 - c*alpha)|r| is not what is returned (with its own norm and alpha)",
             "fallback": "when no trial passes the Armijo test the best strictly-improving trial is not what is returned",
             "raise": "a step is returned although no trial reduced the residual (must raise)",
             "monotone": "a returned residual norm exceeds the current one",
             "trial": "a trial point is not x0 + alpha * (capped) delta with alpha = 1, 1/2, 1/4, ..."}
    for key, text in texts.items():
        ex = bad[key]
        chk.check(not ex, "C05.b" if key != "trial" else "C05.c", c0 + f"[unrolled:{key}]", f"{text}; {len(ex)} of {n} tapes, e.g. {ex[0] if ex else ''}",
                  sample=f"{n} tapes over {{armijo-ok, improves, improves-more, worse, raises}}^{ntr} x cap on/off agree with the reference ({key})")


# ------------------------------------------------------------------------------------------------ c
def _c_caps(chk):
    # plain stepper: cap and trial point
    mod, cls = ri.find_def(PL, "_CorrectorPlainStep")
    x = to_obj_array([sp.Symbol("u0", real=True), sp.Symbol("u1", real=True)])
    d = to_obj_array([sp.Symbol("d0", real=True), sp.Symbol("d1", real=True)])
    md = sp.Symbol("maxd", positive=True)
    for capped in (False, True):
        rep = {d[0]: sp.Integer(3), d[1]: sp.Integer(-1), md: sp.Integer(1) if capped else sp.Integer(10)}
        seen = []
        st = SymObj(ClassRef(mod, cls), {}, "plain")
        ip = Interp(decide=RegionDecider(rep))
        stepper = ip.apply(ip.getattr(st, "_make_plain_stepper"), [lambda v: (seen.append(to_obj_array(v).copy()), "R")[1], lambda r: sp.Symbol("NRM"), md], {})
        xn, nn, al = ip.apply(stepper, [x, d, sp.Symbol("cur")], {})
        scale = md / sp.Max(sp.Abs(d[0]), sp.Abs(d[1])) if capped else 1
        ok = all(residual(select_minmax(S(to_obj_array(xn)[i]), rep) - select_minmax(x[i] + d[i] * scale, rep)) == 0 for i in range(2)) and nn == sp.Symbol("NRM") \
            and len(seen) == 1 and all(residual(select_minmax(S(seen[0][i]), rep) - select_minmax(x[i] + d[i] * scale, rep)) == 0 for i in range(2))
        chk.check(ok, "C05.c", f"{PL}::_CorrectorPlainStep._make_plain_stepper[cap={'on' if capped else 'off'}]",
                  f"plain step with ||delta||_inf {'>' if capped else '<='} max_delta: new point {list(xn)} is not x + delta*min(1, max_delta/||delta||_inf) "
                  f"(or the reported norm is not that of the new point)", sample=f"cap {'on' if capped else 'off'}: x_new = x + delta*{'max_delta/||delta||' if capped else '1'}")
        # capped magnitude equals max_delta
        if capped:
            step_vec = [select_minmax(S(to_obj_array(xn)[i]) - x[i], rep) for i in range(2)]
            mag = sp.Max(*[sp.Abs(e) for e in step_vec]).subs(rep)
            chk.check(sp.simplify(mag - rep[md]) == 0, "C05.c", f"{PL}::_CorrectorPlainStep._make_plain_stepper[cap magnitude]",
                      f"capped update has infinity norm {mag}, not max_delta={rep[md]}", sample="||capped delta||_inf == max_delta")
    chk.count("functions partially evaluated", 2)
    # constructor defaults
    amod, acls = ri.find_def(AR, "_ArmijoLineSearch")
    ls = Interp().apply(ClassRef(amod, acls), [], {"residual_fn": lambda v: v})
    ar, ma, c = S(ls.attrs["alpha_reduction"]), S(ls.attrs["min_alpha"]), S(ls.attrs["armijo_c"])
    chk.check(0 < ar < 1 and ma > 0 and 0 <= c < 1, "C05.b", f"{AR}::_ArmijoLineSearch.__init__[defaults]",
              f"defaults alpha_reduction={ar}, min_alpha={ma}, armijo_c={c} out of range (need 0<reduction<1, min_alpha>0, 0<=c<1)",
              sample=f"alpha_reduction={ar}, min_alpha={ma}, armijo_c={c}")
    smod, scls = ri.find_def(AR, "_ArmijoStep")
    init = next(f for f in scls.body if isinstance(f, ast.FunctionDef) and f.name == "__init__")
    dfl = {a.arg: d for a, d in zip(init.args.kwonlyargs, init.args.kw_defaults) if d is not None}
    vals = {k: S(Interp().eval(v, __import__("hv.kpe", fromlist=["Env"]).Env(smod))) for k, v in dfl.items() if k in ("alpha_reduction", "min_alpha", "armijo_c")}
    chk.check(0 < vals.get("alpha_reduction", 0) < 1 and vals.get("min_alpha", 0) > 0 and 0 <= vals.get("armijo_c", -1) < 1, "C05.b",
              f"{AR}::_ArmijoStep.__init__[defaults]", f"stepper defaults out of range: {vals}", sample=str(vals))
    # the searcher is built with the stepper's own parameters
    stp = SymObj(ClassRef(smod, scls), {"alpha_reduction": sp.Symbol("AR"), "min_alpha": sp.Symbol("MA"), "armijo_c": sp.Symbol("AC")}, "armijo_step")
    cap = {}
    ipx = Interp(overrides={"_ArmijoLineSearch": lambda ip_, a, k: (cap.update(k), SymObj(None, dict(k), "searcher"))[1]})
    ipx.apply(ipx.getattr(stp, "_build_line_searcher"), [sp.Symbol("RF"), sp.Symbol("NF"), sp.Symbol("MD")], {})
    ok = cap.get("residual_fn") == sp.Symbol("RF") and cap.get("norm_fn") == sp.Symbol("NF") and cap.get("max_delta") == sp.Symbol("MD") and \
        cap.get("alpha_reduction") == sp.Symbol("AR") and cap.get("min_alpha") == sp.Symbol("MA") and cap.get("armijo_c") == sp.Symbol("AC")
    chk.check(ok, "C05.c", f"{AR}::_ArmijoStep._build_line_searcher", f"line searcher is not configured with the step cap and the stepper's parameters: {cap}",
              sample="searcher(residual_fn, norm_fn, max_delta, alpha_reduction, min_alpha, armijo_c)")
    # the orbit service uses the Armijo stepper
    omod = ri.need_module(OS)
    uses = [n for n in ast.walk(omod.tree) if isinstance(n, ast.Call) and isinstance(n.func, ast.Name) and n.func.id == "make_armijo_stepper"]
    chk.check(bool(uses), "C05.b", f"{OS}[make_armijo_stepper]", "the orbit correction service no longer builds its backend with the Armijo stepper",
              sample="stepper_factory=make_armijo_stepper()", nontrivial=False)


# ------------------------------------------------------------------------------------------------ d
SYMMETRIES = {"S1 (x,-y,z; -vx,vy,-vz)": ({1, 3, 5}, {0, 2, 4}), "S2 (x,-y,-z; -vx,vy,vz)": ({1, 2, 3}, {0, 4, 5})}


def _d_configs(chk):
    omod = ri.need_module(OS)
    n = 0
    for cls in omod.tree.body:
        if not isinstance(cls, ast.ClassDef):
            continue
        fn = next((f for f in cls.body if isinstance(f, ast.FunctionDef) and f.name == "_default_correction_config"), None)
        if fn is None:
            continue
        if not any(isinstance(x, ast.Return) and x.value is not None for x in ast.walk(fn)):
            continue
        cap = {}
        ip = Interp(overrides={"OrbitCorrectionConfig": lambda ip_, a, k: (cap.update(k), SymObj(None, dict(k), "cfg"))[1],
                               "IntegrationConfig": lambda ip_, a, k: SymObj(None, dict(k), "icfg"),
                               "NumericalConfig": lambda ip_, a, k: SymObj(None, dict(k), "ncfg"),
                               "_plane_crossing_factory": lambda ip_, a, k: ("plane", a[0])})
        svc = SymObj(ClassRef(omod, cls), {"_halo_quadratic_term": sp.Symbol("HALO_TERM")}, "svc")
        try:
            ip.apply(ip.getattr(svc, "_default_correction_config"), [], {})
        except KpeRaise:
            continue
        n += 1
        ev = cap.get("event_func")
        coord = {"x": 0, "y": 1, "z": 2}.get(ev[1]) if isinstance(ev, tuple) and ev[0] == "plane" else None
        res = {int(S(i)) for i in cap.get("residual_indices", ())}
        ctl = {int(S(i)) for i in cap.get("control_indices", ())}
        zero = res | ({coord} if coord is not None else set())
        match = [name for name, (zs, free) in SYMMETRIES.items() if zero == zs and ctl <= free]
        tgt = [S(t) for t in cap.get("target", ())]
        chk.check(bool(match) and all(t == 0 for t in tgt) and len(tgt) == len(res), "C05.d", f"{OS}::{cls.name}._default_correction_config",
                  f"event plane coordinate {coord} + residual indices {sorted(res)} = {sorted(zero)} with controls {sorted(ctl)} is not the zero-set / free set of a "
                  f"reversing symmetry of the CR3BP (S1: zero {{y,vx,vz}}, free {{x,z,vy}}; S2: zero {{y,z,vx}}, free {{x,vy,vz}}); a perpendicular arrival there does not close the orbit",
                  sample=f"{cls.name}: plane {ev}, residual {sorted(res)}, control {sorted(ctl)} -> {match}")
        chk.check(getattr(cap.get("numerical"), "attrs", {}).get("line_search_enabled") is True, "C05.b", f"{OS}::{cls.name}._default_correction_config[line search]",
                  "default correction config disables the line search", nontrivial=False)
    chk.floor("default correction configurations", n, 3)
    # plane-crossing factory: coordinate -> unit normal / event index
    for coord, idx in (("x", 0), ("y", 1), ("z", 2)):
        cap = {}
        ip = Interp(overrides={"_PlaneEvent": lambda ip_, a, k: (cap.update(k), SymObj(None, dict(k), "event"))[1], "setattr": None})
        ip.overrides.pop("setattr")
        try:
            fnc = ip.call_function(SH, "_plane_crossing_factory", [coord, 0, None])
        except OutsideFragment as exc:
            # setattr is not modelled: evaluate only the event construction
            fnc = None
        chk.check(cap.get("coord") == coord and S(cap.get("value", 1)) == 0, "C05.d", f"{SH}::_plane_crossing_factory[{coord}]",
                  f"plane crossing for '{coord}' builds an event on {cap}", sample=f"_PlaneEvent(coord='{coord}', value=0)")
    ipg = Interp()
    y = to_obj_array([sp.Symbol(f"y{i}") for i in range(6)])
    for name, idx in (("_g_x0", 0), ("_g_y0", 1), ("_g_z0", 2)):
        v = S(ipg.call_function(SH, name, [sp.Symbol("t"), y]))
        chk.check(v == y[idx], "C05.d", f"{SH}::{name}", f"{name} reads {v}, expected y[{idx}]", sample=f"{name}(t,y) = y[{idx}]")


def _d_period_setter(chk):
    """The period the correction hands to the orbit is the period the orbit then has: assigning a value that differs from
    the stored one, however slightly (a re-correction at a tighter tolerance, a period pre-set from a neighbouring family
    member), takes effect and drops what was computed from the old one."""
    OSM = "hiten.algorithms.types.services.orbits"
    omod, ocls = ri.find_def(OSM, "_OrbitDynamicsService")
    setter = ri.class_member(omod, ocls, "period", kind="setter")
    if setter is None:
        raise AnalysisError("anchor: _OrbitDynamicsService.period setter not found")
    for label, old, new in (("1e-7 apart", sp.Rational(3, 1), sp.Rational(3, 1) + sp.Rational(1, 10 ** 7)), ("from None", None, sp.Rational(5, 2)),
                            ("clearly different", sp.Rational(3, 1), sp.Rational(7, 2))):
        resets = []
        obj = SymObj(ClassRef(omod, ocls), {"_period": old, "_trajectory": sp.Symbol("TRAJ"), "_stability_info": sp.Symbol("STAB"), "reset": lambda *a: resets.append(a)}, "dynamics")
        ip = Interp()
        ip.apply(FuncRef(setter[0], setter[2], bound_self=obj, qual="_OrbitDynamicsService.period", owner=(setter[0], setter[1])), [new], {})
        ok = obj.attrs.get("_period") == new and resets and obj.attrs.get("_trajectory") is None and obj.attrs.get("_stability_info") is None
        chk.check(ok, "C05.d", f"{OSM}::_OrbitDynamicsService.period[setter,{label}]",
                  f"assigning period {new} to an orbit whose period is {old} leaves period={obj.attrs.get('_period')} (cache dropped: {bool(resets)}): the corrected period does not take effect",
                  sample=f"{label}: period becomes the assigned value; trajectory/stability/cache dropped")
    chk.count("functions partially evaluated", 3)


def _guess_zero_pattern(omod, fam):
    """Indices of the analytic initial guess that are identically zero (the guess is interpreted with symbolic amplitudes,
    gamma, c_n and linear modes; sin(0) = 0 makes the pattern exact)."""
    cls = next((c for c in omod.tree.body if isinstance(c, ast.ClassDef) and c.name == f"_{fam}OrbitDynamicsService"), None)
    if cls is None or not any(isinstance(f, ast.FunctionDef) and f.name == "initial_guess" for f in cls.body):
        return None
    dyn = SymObj(None, {"gamma": sp.Symbol("gamma", positive=True), "won": (sp.Symbol("won"), sp.Symbol("primary")), "cn": lambda n: sp.Symbol(f"c{n}"),
                        "linear_modes": (sp.Symbol("lam1"), sp.Symbol("lam2"), sp.Symbol("lam3")), "position": to_obj_array([sp.Symbol("px"), 0, 0])}, "dyn")
    lp = SymObj(None, {"dynamics": dyn, "idx": 1, "position": to_obj_array([sp.Symbol("px"), 0, 0])}, "lp")
    A = sp.Symbol("A", positive=True)
    svc = SymObj(ClassRef(omod, cls), {"amplitude": A, "libration_point": lp, "_libration_point": lp, "mu": sp.Symbol("mu"), "zenith": "northern", "_zenith": "northern",
                                       "_amplitude_z": A, "_amplitude_x": A}, "svc")
    ip = Interp(decide=lambda c: None)
    try:
        out = to_obj_array(ip.apply(ip.getattr(svc, "initial_guess"), [], {}))
    except (KpeRaise, OutsideFragment):
        return None
    return {i for i in range(6) if S(out[i]) == 0}


def family_symmetries(chk=None):
    """For every orbit family with an analytic start state and a default correction configuration: (family, correction service
    class, zero components of the start state, control indices, residual indices, event coordinate, reversing symmetries whose
    fixed set contains the start state and whose free coordinates contain the controls, symmetries of the arrival conditions)."""
    omod = ri.need_module(OS)
    for cls in omod.tree.body:
        if not (isinstance(cls, ast.ClassDef) and cls.name.endswith("OrbitCorrectionService") and cls.name != "_OrbitCorrectionService"):
            continue
        fam = cls.name[1:-len("OrbitCorrectionService")]
        fn = next((f for f in cls.body if isinstance(f, ast.FunctionDef) and f.name == "_default_correction_config"), None)
        if fn is None:
            continue
        cap = {}
        ip = Interp(overrides={"OrbitCorrectionConfig": lambda ip_, a, k: (cap.update(k), SymObj(None, dict(k), "cfg"))[1], "IntegrationConfig": lambda ip_, a, k: SymObj(None, dict(k), "icfg"),
                               "NumericalConfig": lambda ip_, a, k: SymObj(None, dict(k), "ncfg"), "_plane_crossing_factory": lambda ip_, a, k: ("plane", a[0])})
        svc = SymObj(ClassRef(omod, cls), {"_halo_quadratic_term": sp.Symbol("HALO_TERM")}, "svc")
        try:
            ip.apply(ip.getattr(svc, "_default_correction_config"), [], {})
        except KpeRaise:
            continue
        Z0 = _guess_zero_pattern(omod, fam)
        if Z0 is None:
            if chk is not None:
                chk.note(f"{cls.name}: no analytic initial guess to read the start symmetry from")
            continue
        ev = cap.get("event_func")
        coord = {"x": 0, "y": 1, "z": 2}.get(ev[1]) if isinstance(ev, tuple) and ev[0] == "plane" else None
        res = {int(S(i)) for i in cap.get("residual_indices", ())}
        ctl = {int(S(i)) for i in cap.get("control_indices", ())}
        Z1 = res | ({coord} if coord is not None else set())
        start = [nm for nm, (zs, free) in SYMMETRIES.items() if zs <= Z0 and ctl <= free]
        arrive = [nm for nm, (zs, free) in SYMMETRIES.items() if zs == Z1 or (zs <= Z1 and Z1 - zs <= Z0)]
        yield fam, cls, Z0, ctl, res, coord, start, arrive


def _d_start_symmetry(chk):
    """Mirror theorem, both ends: the corrected orbit closes after 2*tau only if the start state lies (and stays, under the
    corrections applied to the control components) in the fixed set of the SAME reversing symmetry whose fixed set the
    event + residual make it hit perpendicularly at tau; if the two fixed sets belong to different symmetries the orbit is
    doubly symmetric and closes after 4*tau; if the controls move the start state off every fixed set it does not close at all."""
    omod = ri.need_module(OS)
    n = 0
    for fam, cls, Z0, ctl, res, coord, start, arrive in family_symmetries(chk):
        n += 1
        Z1 = res | ({coord} if coord is not None else set())
        names = {0: "x", 1: "y", 2: "z", 3: "vx", 4: "vy", 5: "vz"}
        chk.check(bool(start), "C05.d", f"{OS}::{cls.name}._default_correction_config[start symmetry]",
                  f"{fam}: the analytic start state has zero components {sorted(names[i] for i in Z0)} but the controls {sorted(names[i] for i in ctl)} are not free coordinates of a "
                  f"reversing symmetry whose fixed set contains it (S1 free x,z,vy; S2 free x,vy,vz): the corrector moves the start state off the symmetry set, so a perpendicular "
                  f"arrival at {sorted(names[i] for i in Z1)} = 0 does not close the orbit", sample=f"{fam}: start in Fix({start}), controls {sorted(names[i] for i in ctl)} stay inside")
        # period multiplier applied by this family's service
        dyn, _resets, xf = _dyn_model()
        hp = sp.Symbol("HALF", positive=True)
        svc2 = SymObj(ClassRef(omod, cls), {"domain_obj": SymObj(None, {"dynamics": dyn}, "orbit")}, "svc")
        payload = SymObj(None, {"x_full": xf, "half_period": hp}, "payload")
        Interp().apply(Interp().getattr(svc2, "apply_correction"), [payload], {})
        mult = sp.simplify(S(dyn.attrs["period"]) / hp)
        same = bool(set(start) & set(arrive)) if start else bool(arrive)
        want = 2 if same else 4
        chk.check(bool(arrive) and mult == want, "C05.d", f"{OS}::{cls.name}[period multiplier]",
                  f"{fam}: start fixed set {start or 'none'}, arrival fixed set {arrive or 'none'} -> the event time is a {'half' if same else 'quarter'} period, "
                  f"but the service sets period = {mult} * event time", sample=f"{fam}: start {start}, arrival {arrive}, period = {mult} * tau")
    chk.floor("families with an analytic start state examined", n, 3)


def _dyn_model():
    """An orbit's dynamics service as the correction service sees it: it already holds a state (the uncorrected one, 1e-9 away
    from the corrected one in one component: what a re-correction at a tighter tolerance produces), a period and cached results."""
    R = sp.Rational
    old = to_obj_array([R(4, 5), R(0), R(1, 10), R(0), R(1, 5), R(0)])
    xf = old.copy()
    xf[4] = R(1, 5) + R(1, 10 ** 9)
    resets = []
    dyn = SymObj(None, {"reset": lambda *a: resets.append(1), "_initial_state": old, "initial_state": old, "period": R(3), "_period": R(3)}, "dynamics")
    return dyn, resets, xf


def _d_period(chk):
    omod, ocls = ri.find_def(OS, "_OrbitCorrectionService")
    dyn, resets, xf = _dyn_model()
    dom = SymObj(None, {"dynamics": dyn}, "orbit")
    svc = SymObj(ClassRef(omod, ocls), {"domain_obj": dom}, "svc")
    hp = sp.Symbol("HALF", positive=True)
    payload = SymObj(None, {"x_full": xf, "half_period": hp}, "payload")
    ip = Interp()
    ip.apply(ip.getattr(svc, "apply_correction"), [payload], {})
    st = dyn.attrs.get("_initial_state")
    chk.check(sp.simplify(S(dyn.attrs["period"]) - 2 * hp) == 0 and st is not None and [S(v) for v in to_obj_array(st)] == [S(v) for v in xf] and bool(resets), "C05.d",
              f"{OS}::_OrbitCorrectionService.apply_correction", f"after a correction that moved the state by 1e-9: period={dyn.attrs['period']} (expected 2*half_period), "
              f"state={list(to_obj_array(st)) if st is not None else None} (expected the corrected one), cached results dropped: {bool(resets)}",
              sample="period = 2*half_period; initial_state = x_full (1e-9 from the old state); reset() called")
    # correct(): returned period is 2*half_period of the same result
    res = SymObj(None, {"x_corrected": sp.Symbol("XC"), "half_period": hp, "iterations": 3, "residual_norm": sp.Symbol("RN")}, "result")
    applied = []
    svc2 = SymObj(ClassRef(omod, ocls), {"domain_obj": dom, "corrector": SymObj(None, {"correct": lambda d, options=None: res}, "corr"),
                                         "make_key": lambda *a: "KEY", "get_or_create": lambda k, f: f(), "apply_correction": lambda p: applied.append(p),
                                         "correction_options": SymObj(None, {"to_dict": lambda: {}}, "opts")}, "svc")
    ipx = Interp(overrides={"_from_mapping": lambda ip_, a, k: SymObj(None, dict(a[0]), "payload"),
                            "OrbitCorrectionDomainPayload._from_mapping": lambda ip_, a, k: SymObj(None, dict(a[0]), "payload")})
    out = ipx.apply(ipx.getattr(svc2, "correct"), [], {"options": SymObj(None, {"to_dict": lambda: {}}, "opts")})
    ok = isinstance(out, tuple) and out[0] == sp.Symbol("XC") and sp.simplify(S(out[1]) - 2 * hp) == 0 and len(applied) >= 1 and all(p.attrs.get("half_period") == hp for p in applied)
    chk.check(ok, "C05.d", f"{OS}::_OrbitCorrectionService.correct", f"correct() returns period {out[1] if isinstance(out, tuple) else out}, expected 2*half_period of its own result",
              sample="(x_corrected, 2*half_period, result); apply_correction(payload of the same result)")
    # ... on a cache hit too: a second correct() with the same options (after the caller has overridden the period, say) must put the corrected state and
    # period back - a result that is only applied inside the memoised factory leaves the orbit with the caller's period and reports success
    applied.clear()
    store = {}

    def goc(k, f):
        if k not in store:
            store[k] = f()
        return store[k]

    svc3 = SymObj(ClassRef(omod, ocls), {"domain_obj": dom, "corrector": SymObj(None, {"correct": lambda d, options=None: res}, "corr"),
                                         "make_key": lambda *a: "KEY", "get_or_create": goc, "apply_correction": lambda p: applied.append(p),
                                         "correction_options": SymObj(None, {"to_dict": lambda: {}}, "opts")}, "svc")
    o1 = ipx.apply(ipx.getattr(svc3, "correct"), [], {"options": SymObj(None, {"to_dict": lambda: {}}, "opts")})
    n1 = len(applied)
    o2 = ipx.apply(ipx.getattr(svc3, "correct"), [], {"options": SymObj(None, {"to_dict": lambda: {}}, "opts")})
    # at least once per call (applying twice in one call is idempotent, hence allowed)
    ok = n1 >= 1 and len(applied) > n1 and all(p.attrs.get("half_period") == hp for p in applied) and isinstance(o2, tuple) and sp.simplify(S(o2[1]) - 2 * hp) == 0
    chk.check(ok, "C05.d", f"{OS}::_OrbitCorrectionService.correct[cache hit]",
              f"two correct() calls with equal options apply the result {n1} + {len(applied) - n1} time(s): on the cache hit the orbit keeps whatever state / period it had while success is reported",
              sample="correct() twice: apply_correction(payload of the cached result) both times")
    chk.count("functions partially evaluated", 2)
    # half period comes from the same event function as the residual
    imod, icls = ri.find_def(IFC, "_OrbitCorrectionInterfaceBase")
    seen = {}

    def ev(**kw):
        seen.update(kw)
        return (sp.Symbol("T_EVENT"), sp.Symbol("X_EVENT"))

    base = SymObj(ClassRef(imod, icls), {}, "iface")
    prob = SymObj(None, {"event_func": ev, "forward": 1}, "problem")
    domo = SymObj(None, {"dynamics": SymObj(None, {"dynsys": sp.Symbol("DYNSYS")}, "dyn")}, "orbit")
    xs = to_obj_array([sp.Symbol(f"c{i}") for i in range(6)])
    t = Interp().apply(Interp().getattr(base, "_half_period"), [domo, xs, prob], {})
    chk.check(t == sp.Symbol("T_EVENT") and seen.get("dynsys") == sp.Symbol("DYNSYS") and list(to_obj_array(seen.get("x0"))) == list(xs), "C05.d",
              f"{IFC}::_OrbitCorrectionInterfaceBase._half_period", f"half period is not the event time of the corrected state on the orbit's own system: {t}, {seen}",
              sample="half_period = event_func(dynsys, x0=corrected).time")


# ------------------------------------------------------------------------------------------------ e
def _e_jacobian(chk):
    field = common.crtbp_field()
    st = common.STATE
    R = Radicals()
    omod, hcls = ri.find_def(OS, "_HaloOrbitCorrectionService")
    svc = SymObj(ClassRef(omod, hcls), {"domain_obj": SymObj(None, {"mu": common.MU}, "orbit")}, "svc")
    Phi = np.empty((6, 6), dtype=object)
    for i in range(6):
        for j in range(6):
            Phi[i, j] = sp.Symbol(f"F{i}{j}", real=True)
    ip = Interp(decide=lambda c: False)
    out = to_obj_array(ip.apply(ip.getattr(svc, "_halo_quadratic_term"), [to_obj_array(list(st)), Phi], {}))
    chk.count("functions partially evaluated")
    want = [[field[3] * Phi[1, 0] / st[4], field[3] * Phi[1, 4] / st[4]], [field[5] * Phi[1, 0] / st[4], field[5] * Phi[1, 4] / st[4]]]
    bad = []
    if out.shape != (2, 2):
        raise AnalysisError(f"_halo_quadratic_term returns shape {out.shape}")
    for i in range(2):
        for j in range(2):
            z, res = is_zero(S(out[i, j]) - want[i][j], R)
            if not z:
                bad.append((i, j, short(res, 100)))
    chk.check(not bad, "C05.e", f"{OS}::_HaloOrbitCorrectionService._halo_quadratic_term",
              f"event-time correction is not (1/vy)[ax; az]·Phi[y, (x, vy)] with ax, az the field accelerations: {bad}",
              sample="[[ax],[az]] @ Phi[[Y], (X,VY)] / vy with (ax, az) == _crtbp_accel[3], [5]")
    # residual / jacobian assembly
    pmod, pcls = ri.find_def(OPS, "_SingleShootingOrbitOperators")
    base = to_obj_array([sp.Symbol(f"b{i}") for i in range(6)])
    xev = to_obj_array([sp.Symbol(f"e{i}") for i in range(6)])
    extra_calls = []
    ops = SymObj(ClassRef(pmod, pcls), {"_control_indices": (0, 4), "_residual_indices": (3, 5), "_target": to_obj_array([sp.Symbol("tg0"), sp.Symbol("tg1")]),
                                        "_base_state": base, "_extra_jacobian": lambda xe, P: (extra_calls.append((xe, P)), to_obj_array([[sp.Symbol("X00"), sp.Symbol("X01")], [sp.Symbol("X10"), sp.Symbol("X11")]]))[1],
                                        "propagate_to_event": lambda x: (sp.Symbol("TE"), xev), "compute_stm_to_event": lambda x, t: Phi}, "ops")
    ipo = Interp()
    rf = ipo.apply(ipo.getattr(ops, "build_residual_fn"), [], {})
    params = to_obj_array([sp.Symbol("p0"), sp.Symbol("p1")])
    r = to_obj_array(ipo.apply(rf, [params], {}))
    chk.check(list(r) == [xev[3] - sp.Symbol("tg0"), xev[5] - sp.Symbol("tg1")], "C05.e", f"{OPS}::_SingleShootingOrbitOperators.build_residual_fn",
              f"residual is not x_event[residual_indices] - target: {list(r)}", sample="R = x_event[res] - target")
    jf = ipo.apply(ipo.getattr(ops, "build_jacobian_fn"), [], {})
    Jm = to_obj_array(ipo.apply(jf, [params], {}))
    ok = Jm.shape == (2, 2) and sp.expand(S(Jm[0, 0]) - (Phi[3, 0] - sp.Symbol("X00"))) == 0 and sp.expand(S(Jm[0, 1]) - (Phi[3, 4] - sp.Symbol("X01"))) == 0 \
        and sp.expand(S(Jm[1, 0]) - (Phi[5, 0] - sp.Symbol("X10"))) == 0 and sp.expand(S(Jm[1, 1]) - (Phi[5, 4] - sp.Symbol("X11"))) == 0
    chk.check(ok, "C05.e", f"{OPS}::_SingleShootingOrbitOperators.build_jacobian_fn", f"Jacobian is not Phi[res, ctrl] - extra(x_event, Phi): {Jm.tolist()}",
              sample="J = Phi[ix_(res, ctrl)] - extra_jacobian(x_event, Phi)")
    xf = to_obj_array(ipo.apply(ipo.getattr(ops, "reconstruct_full_state"), [base, params], {}))
    chk.check(list(xf) == [params[0], base[1], base[2], base[3], params[1], base[5]] and list(base) == [sp.Symbol(f"b{i}") for i in range(6)], "C05.e",
              f"{OPS}::_SingleShootingOrbitOperators.reconstruct_full_state", f"full state is not the template with the control entries replaced: {list(xf)}",
              sample="x_full = base; x_full[ctrl] = params (template untouched)")
    # central differences
    bmod, bcls = ri.find_def(BB, "_CorrectorBackend")
    be = SymObj(ClassRef(bmod, bcls), {}, "backend")
    g = UFunc("g", 2)
    xx = to_obj_array([sp.Symbol("x0", real=True), sp.Symbol("x1", real=True)])
    fd = sp.Symbol("fd", positive=True)
    ipj = Interp()
    J = to_obj_array(ipj.apply(ipj.getattr(be, "_compute_jacobian"), [xx, g, None, fd], {}))
    ok = J.shape == (2, 2)
    for i in range(2):
        h = fd * sp.Max(1, sp.Abs(xx[i]))
        xp, xm = list(xx), list(xx)
        xp[i] = xx[i] + h
        xm[i] = xx[i] - h
        for r_ in range(2):
            want = (sp.Function(f"g_{r_}")(*xp) - sp.Function(f"g_{r_}")(*xm)) / (2 * h)
            ok = ok and sp.simplify(S(J[r_, i]) - want) == 0
    chk.check(ok, "C05.e", f"{BB}::_CorrectorBackend._compute_jacobian", "finite-difference Jacobian is not the central difference (R(x+h e_i) - R(x-h e_i))/(2h), column i",
              sample="J[:, i] = (R(x+h e_i) - R(x-h e_i)) / (2 h), h = fd*max(1,|x_i|)")
    chk.count("functions partially evaluated", 5)
