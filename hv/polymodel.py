"""Polynomial-ring summaries of hiten's polynomial primitives, for analysing their CLIENTS (Hamiltonian builders, Lie
series).  A polynomial list becomes a PolyVal (sympy expression in x0..x5 + truncation degree).  Each summary is the
mathematical operation the primitive is shown to implement under C06.c."""
from __future__ import annotations

import numpy as np
import sympy as sp

from .kpe import OutsideFragment, S, to_obj_array, as_int, KModel
from .polyref import X, monomial, poisson


def trunc(expr, max_deg, min_deg=0):
    expr = sp.expand(expr)
    if expr == 0:
        return sp.Integer(0)
    P = sp.Poly(expr, *X)
    out = sp.Integer(0)
    for m, c in P.terms():
        if min_deg <= sum(m) <= max_deg:
            out += c * monomial(m)
    return out


def homogeneous(expr, d):
    return trunc(expr, d, d)


class HomPart(KModel):
    """View of the degree-d coefficient block of a PolyVal (only what clients touch: len, [0] of degree 0, any())."""

    def __init__(self, poly, d):
        self.poly = poly
        self.d = d

    def __len__(self):
        return int(sp.binomial(self.d + 5, 5))

    @property
    def size(self):
        return len(self)

    @property
    def shape(self):
        return (len(self),)

    def expr(self):
        return homogeneous(self.poly.expr, self.d)

    def __getitem__(self, i):
        if self.d == 0 and as_int(i) == 0:
            return trunc(self.poly.expr, 0)
        raise OutsideFragment("coefficient-level read of a polynomial block in client code (outside the polynomial-ring summary)")

    def __setitem__(self, i, v):
        if self.d == 0 and as_int(i) == 0:
            self.poly.expr = sp.expand(self.poly.expr - trunc(self.poly.expr, 0) + S(v))
            return
        raise OutsideFragment("coefficient-level write of a polynomial block in client code")

    def any(self):
        return self.expr() != 0

    def copy(self):
        return HomBlock(self.expr(), self.d)


class HomBlock(HomPart):
    """A detached homogeneous block (result of copying / selecting terms)."""

    def __init__(self, expr, d):
        self._expr = sp.expand(expr)
        self.d = d
        self.poly = None

    def expr(self):
        return self._expr

    def __getitem__(self, i):
        raise OutsideFragment("coefficient-level read of a detached block")

    def __setitem__(self, i, v):
        raise OutsideFragment("coefficient-level write of a detached block")


class PolyVal(KModel):
    def __init__(self, expr, max_deg):
        self.expr = sp.expand(expr)
        self.max_deg = int(max_deg)

    def __len__(self):
        return self.max_deg + 1

    def __getitem__(self, d):
        d = as_int(d)
        if d < 0:
            d += self.max_deg + 1
        if not 0 <= d <= self.max_deg:
            raise OutsideFragment(f"polynomial block index {d} out of range")
        return HomPart(self, d)

    def __setitem__(self, d, block):
        d = as_int(d)
        if isinstance(block, HomPart):
            self.expr = sp.expand(self.expr - homogeneous(self.expr, d) + homogeneous(block.expr(), d))
            return
        raise OutsideFragment("assignment of a non-polynomial value to a polynomial block")

    def __iter__(self):
        return iter([HomPart(self, d) for d in range(self.max_deg + 1)])

    def copy(self):
        return PolyVal(self.expr, self.max_deg)

    def __repr__(self):
        return f"<PolyVal deg<={self.max_deg}: {str(self.expr)[:80]}>"


PSI, CLMO, ENC = sp.Symbol("PSI_TABLE"), sp.Symbol("CLMO_TABLE"), sp.Symbol("ENCODE_TABLE")


def _pv(v, what):
    if isinstance(v, PolyVal):
        return v
    raise OutsideFragment(f"{what}: expected a polynomial, got {type(v).__name__}")


def summaries():
    """overrides dict for hv.kpe.Interp."""
    def zero_list(ip, a, k):
        return PolyVal(0, as_int(a[0]))

    def variable(ip, a, k):
        return PolyVal(X[as_int(a[0])], as_int(a[1]))

    def variables_list(ip, a, k):
        return [PolyVal(X[i], as_int(a[0])) for i in range(6)]

    def add_inplace(ip, a, k):
        p, q = _pv(a[0], "add_inplace"), _pv(a[1], "add_inplace")
        scale = S(a[2]) if len(a) > 2 else S(k.get("scale", 1))
        md = as_int(a[3]) if len(a) > 3 else as_int(k.get("max_deg", -1))
        lim = min(p.max_deg, q.max_deg) if md == -1 else min(md, p.max_deg, q.max_deg)
        p.expr = sp.expand(p.expr + scale * trunc(q.expr, lim))
        return None

    def multiply(ip, a, k):
        p, q, md = _pv(a[0], "multiply"), _pv(a[1], "multiply"), as_int(a[2])
        return PolyVal(trunc(p.expr * q.expr, md), md)

    def power(ip, a, k):
        p, e, md = _pv(a[0], "power"), as_int(a[1]), as_int(a[2])
        r = sp.Integer(1)
        for _ in range(e):
            r = trunc(r * p.expr, md)
        return PolyVal(r, md)

    def bracket(ip, a, k):
        p, q, md = _pv(a[0], "poisson"), _pv(a[1], "poisson"), as_int(a[2])
        return PolyVal(trunc(poisson(p.expr, q.expr), md), md)

    def clean(ip, a, k):
        return _pv(a[0], "clean").copy()

    def evaluate(ip, a, k):
        p = _pv(a[0], "evaluate")
        pt = to_obj_array(a[1]).ravel()
        return p.expr.subs(dict(zip(X, [S(v) for v in pt])), simultaneous=True)

    def total_degree(ip, a, k):
        p = _pv(a[0], "degree")
        if p.expr == 0:
            return -1
        return max(sum(m) for m in sp.Poly(p.expr, *X).monoms())

    def differentiate(ip, a, k):
        names = ["poly_p", "var_idx", "max_deg"]
        b = dict(zip(names, a))
        b.update(k)
        p = _pv(b["poly_p"], "differentiate")
        md = max(as_int(b["max_deg"]) - 1, 0)
        return (PolyVal(trunc(sp.diff(p.expr, X[as_int(b["var_idx"])]), md), md), md)

    def substitute_linear(ip, a, k):
        p, C, md = _pv(a[0], "substitute"), to_obj_array(a[1]), as_int(a[2])
        lin = {X[i]: sum(S(C[i, j]) * X[j] for j in range(6)) for i in range(6)}
        return PolyVal(trunc(p.expr.subs(lin, simultaneous=True), md), md)

    return {
        "_init_index_tables": lambda ip, a, k: (PSI, CLMO),
        "_create_encode_dict_from_clmo": lambda ip, a, k: ENC,
        "_polynomial_zero_list": zero_list,
        "_polynomial_variable": variable,
        "_polynomial_variables_list": variables_list,
        "_polynomial_add_inplace": add_inplace,
        "_polynomial_multiply": multiply,
        "_polynomial_power": power,
        "_polynomial_poisson_bracket": bracket,
        "_polynomial_clean": clean,
        "_polynomial_evaluate": evaluate,
        "_polynomial_total_degree": total_degree,
        "_polynomial_degree": total_degree,
        "_polynomial_differentiate": differentiate,
        "_substitute_linear": substitute_linear,
    }
