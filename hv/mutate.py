"""Developer/self-test helper: apply one textual edit to a scratch copy of /repo/src and run checks on it.

usage: python3-vt hv/mutate.py <relpath under src/hiten> <old> <new> <Cxx> [<Cxx>...]
The scratch copy lives in a mkdtemp directory outside /repo and /verif and is removed afterwards.
"""
import os, shutil, subprocess, sys, tempfile

def run_mutant(rel, old, new, checks, count=1, tier="quick"):
    tmp = tempfile.mkdtemp(prefix="hvmut_")
    try:
        shutil.copytree("/repo/src", os.path.join(tmp, "src"), ignore=shutil.ignore_patterns("__pycache__", "_tests", "*.png"))
        p = os.path.join(tmp, "src", "hiten", rel)
        s = open(p).read()
        if s.count(old) < 1:
            return [("SETUP", 99, f"pattern not found in {rel}: {old!r}")]
        s = s.replace(old, new, count)
        open(p, "w").write(s)
        import ast; ast.parse(s)
        out = []
        for c in checks:
            env = dict(os.environ, HV_REPO=tmp, HV_NO_EVIDENCE="1")
            r = subprocess.run(["python3-vt", "/verif/vcheck", c, "--tier", tier], capture_output=True, text=True, env=env)
            out.append((c, r.returncode, r.stdout[-1500:] + r.stderr[-500:]))
        return out
    finally:
        shutil.rmtree(tmp, ignore_errors=True)

if __name__ == "__main__":
    rel, old, new = sys.argv[1:4]
    for c, rc, txt in run_mutant(rel, old.encode().decode("unicode_escape"), new.encode().decode("unicode_escape"), sys.argv[4:]):
        print(f"== {c}: exit {rc}")
        print("\n".join(l for l in txt.splitlines() if l.startswith(("VIOLATION", "  violated", "ANALYSIS", "KNOWN", "Traceback")) or "Error" in l)[:1500])
