"""Call-site enumeration and argument binding over the resolved program."""
from __future__ import annotations

import ast

from . import repoindex as ri
from .core import AnalysisError


def enclosing_functions(mod):
    """Yield (qualname, fn, own_nodes) where own_nodes excludes nested function bodies."""
    for q, fn in ri.functions_in(mod):
        nested = set()
        for ch in ast.walk(fn):
            if ch is not fn and isinstance(ch, (ast.FunctionDef, ast.AsyncFunctionDef, ast.Lambda)):
                for n in ast.walk(ch):
                    if n is not ch:
                        nested.add(id(n))
        yield q, fn, nested


def call_sites(target_mod, target_name, modules=None):
    """All calls (in non-test modules) whose callee name resolves to target_mod::target_name."""
    out = []
    for mod in (modules or ri.all_modules()):
        if target_name not in mod.source:
            continue
        seen = set()
        for q, fn, nested in enclosing_functions(mod):
            for n in ast.walk(fn):
                if id(n) in nested or not isinstance(n, ast.Call) or id(n) in seen:
                    continue
                if _resolves_to(mod, fn, n.func, target_mod, target_name):
                    seen.add(id(n))
                    out.append((mod, q, fn, n))
        # module-level calls
        for n in ast.walk(mod.tree):
            if isinstance(n, ast.Call) and id(n) not in seen and _is_module_level(n):
                if _resolves_to(mod, None, n.func, target_mod, target_name):
                    out.append((mod, "<module>", None, n))
    return out


def _is_module_level(node):
    p = getattr(node, "_parent", None)
    while p is not None:
        if isinstance(p, (ast.FunctionDef, ast.AsyncFunctionDef, ast.Lambda, ast.ClassDef)):
            return False
        p = getattr(p, "_parent", None)
    return True


def _resolves_to(mod, fn, func, target_mod, target_name):
    if isinstance(func, ast.Name) and func.id == target_name:
        # a local import inside the function also counts
        if fn is not None:
            for st in ast.walk(fn):
                if isinstance(st, ast.ImportFrom):
                    for a in st.names:
                        if (a.asname or a.name) == target_name and mod._abs(st.level, st.module) == target_mod:
                            return True
        r = ri.resolve(mod, func.id)
        return bool(r and r[0] == "def" and r[1].name == target_mod and r[2].name == target_name)
    if isinstance(func, ast.Name) and fn is not None:
        # aliased import
        r = ri.resolve(mod, func.id)
        return bool(r and r[0] == "def" and r[1].name == target_mod and r[2].name == target_name)
    if isinstance(func, ast.Attribute) and func.attr == target_name and isinstance(func.value, ast.Name):
        r = ri.resolve(mod, func.value.id)
        if r and r[0] == "module" and r[1] == target_mod:
            return True
    return False


def bind_call(call, fdef, skip_self=False):
    """Map parameter name -> argument expression (ast) for a call against a FunctionDef signature.
    Returns (bound, extra_kwargs, has_star)."""
    params = [a.arg for a in fdef.args.posonlyargs + fdef.args.args]
    if skip_self and params and params[0] in ("self", "cls"):
        params = params[1:]
    bound = {}
    has_star = False
    for i, a in enumerate(call.args):
        if isinstance(a, ast.Starred):
            has_star = True
            break
        if i < len(params):
            bound[params[i]] = a
    extra = {}
    kwonly = [a.arg for a in fdef.args.kwonlyargs]
    for k in call.keywords:
        if k.arg is None:
            has_star = True
        elif k.arg in params or k.arg in kwonly:
            bound[k.arg] = k.value
        else:
            extra[k.arg] = k.value
    return bound, extra, has_star


def default_of(fdef, name):
    a = fdef.args
    params = a.posonlyargs + a.args
    nd = len(a.defaults)
    for i, p in enumerate(params):
        if p.arg == name:
            di = i - (len(params) - nd)
            return a.defaults[di] if di >= 0 else None
    for p, d in zip(a.kwonlyargs, a.kw_defaults):
        if p.arg == name:
            return d
    return None


def local_defs(fn, name):
    """Value expressions assigned to local `name` inside fn (plain assignments only)."""
    out = []
    for st in ast.walk(fn):
        if isinstance(st, ast.Assign):
            for t in st.targets:
                if isinstance(t, ast.Name) and t.id == name:
                    out.append(st.value)
        elif isinstance(st, ast.AnnAssign) and isinstance(st.target, ast.Name) and st.target.id == name and st.value is not None:
            out.append(st.value)
    return out


def const_int(node):
    if isinstance(node, ast.Constant) and isinstance(node.value, int) and not isinstance(node.value, bool):
        return node.value
    if isinstance(node, ast.UnaryOp) and isinstance(node.op, ast.USub):
        v = const_int(node.operand)
        return None if v is None else -v
    return None


def need(cond, what):
    if not cond:
        raise AnalysisError(f"anchor: {what}")


def _clone(node):
    """Parent-free copy of an expression node (loaded trees carry _parent pointers, which deepcopy would follow to the module)."""
    return ast.parse(ast.unparse(node), mode="eval").body


_SINGLE = {}


def _single_defs(fn):
    """name -> defining expression, for locals of fn assigned exactly once by a plain assignment (never a parameter, a loop
    target or an augmented target)."""
    key = id(fn)
    if key not in _SINGLE:
        params = {a.arg for a in fn.args.args + fn.args.kwonlyargs + fn.args.posonlyargs}
        defs, bad = {}, set(params)
        for n in ast.walk(fn):
            if isinstance(n, ast.Assign):
                for t in n.targets:
                    if isinstance(t, ast.Name):
                        defs.setdefault(t.id, []).append(n.value)
                    else:
                        bad |= {x.id for x in ast.walk(t) if isinstance(x, ast.Name)}
            elif isinstance(n, ast.AnnAssign) and isinstance(n.target, ast.Name) and n.value is not None:
                defs.setdefault(n.target.id, []).append(n.value)
            elif isinstance(n, ast.AugAssign):
                bad |= {x.id for x in ast.walk(n.target) if isinstance(x, ast.Name)}
            elif isinstance(n, (ast.For, ast.comprehension)):
                bad |= {x.id for x in ast.walk(n.target) if isinstance(x, ast.Name)}
            elif isinstance(n, (ast.With,)):
                for it in n.items:
                    if it.optional_vars is not None:
                        bad |= {x.id for x in ast.walk(it.optional_vars) if isinstance(x, ast.Name)}
        _SINGLE[key] = {k: v[0] for k, v in defs.items() if len(v) == 1 and k not in bad}
    return _SINGLE[key]


class _Inline(ast.NodeTransformer):
    def __init__(self, fn, depth):
        self.fn, self.depth = fn, depth

    def visit_Name(self, node):
        if isinstance(node.ctx, ast.Load) and self.depth < 5:
            d = _single_defs(self.fn).get(node.id)
            if d is not None:
                return _Inline(self.fn, self.depth + 1).visit(_clone(d))
        return node


def resolve_local(fn, node):
    """`node` with every local that is assigned exactly once in `fn` replaced by its defining expression (so that
    `x0 = self.initial_state; f(x0)` reads as `f(self.initial_state)`).  Used by rules that compare argument expressions."""
    if fn is None or node is None:
        return node
    return ast.fix_missing_locations(_Inline(fn, 0).visit(_clone(node)))


def arg_text(fn, node):
    return None if node is None else ast.unparse(resolve_local(fn, node))


def const_value(mod, fn, node):
    """Numeric literal value of an expression after resolving single-assignment locals and module-level constants; else None."""
    node = resolve_local(fn, node)
    if isinstance(node, ast.Constant) and isinstance(node.value, (int, float)) and not isinstance(node.value, bool):
        return node.value
    if isinstance(node, ast.UnaryOp) and isinstance(node.op, ast.USub):
        v = const_value(mod, None, node.operand)
        return None if v is None else -v
    if isinstance(node, ast.Name) and mod is not None:
        for st in mod.tree.body:
            tg = st.targets[0] if isinstance(st, ast.Assign) and len(st.targets) == 1 else (st.target if isinstance(st, ast.AnnAssign) else None)
            if isinstance(tg, ast.Name) and tg.id == node.id and getattr(st, "value", None) is not None:
                return const_value(mod, None, st.value)
    return None
