"""Run the checks against seeded changes kept under /verif/seeded/<id>/.

usage: python3-vt hv/seedrun.py [--all-checks] [--tier quick|thorough] [<seed id or patch file> ...]

Each seeded change is a patch against /repo.  The patch is applied to a scratch copy of /repo/src (mkdtemp, outside
/repo and /verif, removed afterwards) and the registered check of the property the change breaks (meta.json
"property"), or every check with --all-checks, is run on the copy through HV_REPO.  Nothing is written to /repo, to
/verif/evidence or to known_findings.json.  Prints one line per (seed, check): caught / MISSED / analysis-error.
Exit status 0 when every seed is caught by the check of its own property.
"""
import json, os, shutil, subprocess, sys, tempfile
from concurrent.futures import ThreadPoolExecutor

SEEDED = os.path.join(os.path.dirname(os.path.dirname(os.path.abspath(__file__))), "seeded")
ALL = [f"C{i:02d}" for i in range(1, 21)]


def run_patch(patch, checks, tier="quick"):
    tmp = tempfile.mkdtemp(prefix="hvseed_")
    try:
        shutil.copytree("/repo/src", os.path.join(tmp, "src"), ignore=shutil.ignore_patterns("__pycache__", "*.png", "*.h5"))
        r = subprocess.run(["patch", "-p1", "-s", "-d", tmp, "-i", os.path.abspath(patch)], capture_output=True, text=True)
        if r.returncode != 0:
            return [("SETUP", 99, "patch does not apply: " + (r.stdout + r.stderr)[-400:])]
        out = []
        env = dict(os.environ, HV_REPO=tmp, HV_NO_EVIDENCE="1")

        def one(c):
            q = subprocess.run(["python3-vt", "/verif/vcheck", c, "--tier", tier], capture_output=True, text=True, env=env)
            return (c, q.returncode, q.stdout[-3000:] + q.stderr[-800:])

        with ThreadPoolExecutor(max_workers=min(8, len(checks))) as ex:
            out = list(ex.map(one, checks))
        return out
    finally:
        shutil.rmtree(tmp, ignore_errors=True)


def main(argv):
    tier = "quick"
    allc = False
    sel = []
    it = iter(argv)
    for a in it:
        if a == "--tier":
            tier = next(it)
        elif a == "--all-checks":
            allc = True
        else:
            sel.append(a)
    seeds = []
    if not sel:
        sel = sorted(os.listdir(SEEDED)) if os.path.isdir(SEEDED) else []
    for s in sel:
        if os.path.isfile(s):
            seeds.append((os.path.basename(os.path.dirname(os.path.abspath(s))), s, None))
        else:
            d = os.path.join(SEEDED, s)
            if not os.path.isfile(os.path.join(d, "patch.diff")):
                continue
            meta = json.load(open(os.path.join(d, "meta.json"))) if os.path.isfile(os.path.join(d, "meta.json")) else {}
            seeds.append((s, os.path.join(d, "patch.diff"), meta.get("property")))
    bad = 0
    for sid, patch, prop in seeds:
        checks = ALL if (allc or not prop) else [prop]
        res = run_patch(patch, checks, tier)
        caught_by = [c for c, rc, _ in res if rc == 1]
        errs = [c for c, rc, _ in res if rc not in (0, 1)]
        own = prop in caught_by if prop else bool(caught_by)
        print(f"{sid}: property={prop} {'caught' if own else 'MISSED'} by={','.join(caught_by) or '-'}" + (f" analysis-error={','.join(errs)}" if errs else ""))
        for c, rc, txt in res:
            if rc != 0:
                for l in txt.splitlines():
                    if l.startswith(("  violated", "ANALYSIS", "Traceback")):
                        print(f"    [{c}] {l.strip()[:300]}")
        if not own:
            bad += 1
    return 1 if bad else 0


if __name__ == "__main__":
    sys.exit(main(sys.argv[1:]))
