"""Regenerates /verif/MANIFEST.json from the per-property table below (run: python3 hv/manifest_gen.py)."""
import json
import os

HERE = os.path.dirname(os.path.dirname(os.path.abspath(__file__)))

CHECKS = {}
NOT_APPLICABLE = {}


ADDED = {
    "C01": "caches of compiled right-hand sides are keyed by everything baked into the kernel (key-completeness slice, hv/memo.py). Round 3: two model systems with equal body names in one interpreter each receive the compiled systems of their own mu; the propagation wrapper keeps the 42-vector coherent in every direction. Round 4: the driver protocol and the manifold energy filter (measure and application) re-filed.",
    "C02": "the driver protocol (step = distance to the next node, dense output on the accepted segment), the slots in which tolerances reach _error_scale, and that the accept test's error norm carries the factor h exactly once (found and fixed a doubled |h| in the four DOP853 drivers). Round 4: propagation rules of C10 re-filed (short spans are integrated).",
    "C03": "cache-key completeness of the direction wrapper; cached monodromy/stability entries and recorded slots are dropped when the period changes; _compute_monodromy propagates over exactly (x0, period). Round 3: the direction wrapper is modelled through its own constructor and every getattr(system, name, 1) read in the integrators names an attribute it stores. Round 4: member periods and the period setter re-filed (the span of the monodromy is the orbit's own period).",
    "C04": "constructors admit all of (0, 1/2]; the bracketed solver exits only on an exact zero or the x-tolerance (CFG rule); L4/L5 linearisation matrix entry by entry; the frequency-selection code interpreted on the exact spectrum at the smallest catalogue ratio (found and fixed merged frequencies at L4/L5). Round 4: in-place loaders adopt the loaded object whole or rebuild services; facade argument binding. Round 5: the stability engine hands the options' band to the backend; Routh's constant (fixed).",
    "C05": "start-symmetry / period-multiplier rule from the analytic initial guess (known finding: vertical family), tolerance chain of the crossing integrator. Round 3: the crossing search and the operators' STM run in the configured time direction (fixed a backward correction that 'converged' in 0 iterations); apply_correction on a state 1e-9 away. Round 4: options chain interface -> operators / backend request; the end of the crossing search window is never a hit. Round 5: members of a continuation carry the period of their own correction (re-filed; known finding: not the seed's correction scheme).",
    "C06": "integer widths of slot numbers and packed indices at the table degree (roles inferred from the values flowing through each cast). Round 4: exponents above the truncation degree; evaluate hands over every block.",
    "C07": "gamma of the local frame is the equilibrium's distance ratio; caches on the construction path are keyed by point and degree. Round 3: the point facade returns the requested form at the requested degree. Round 4: velocity consistency of the local -> synodic map, rule C07.c(v) (known findings L1, L2: sign pattern (-,-,+), a defect the earlier acceleration-only formulation let pass); solver exits and evaluate re-filed. Round 5: one pipeline per degree, nothing pre-filled from another degree.",
    "C08": "1/k! series weights with formal blocks at N_max = 7 for both series; the coordinate series are requested the way the pipeline requests them; generating-function slots. Round 4: the restriction never writes into the cached normal form (re-filed). Round 5: the facade's generating-function objects keep G_n at its degree (fixed).",
    "C09": "the series requested from the pipeline realise H_cm = H o Phi and invert each other; degree-dependent caches are keyed / invalidated with the degree. Round 3: keys contain every parameter whole; the restriction leaves its input untouched (an earlier vacuous formulation repaired). Round 5: solver exits re-filed.",
    "C10": "event time frame, signed time for time-dependent right-hand sides (fixed), exact zero-span test (fixed), cache key of the direction wrapper. Round 3: signed end time through System.propagate and the system service; a direction wrapper never reaches the parametric Hamiltonian kernel. Round 4: zero-span short-circuit on every integrate() (fixed RK45, symplectic). Round 5: time stamps multiplied by the sign of the direction flag (fixed).",
    "C11": "the symplectic event driver carries the extended state; the derivative fed to its interpolant; key completeness of compiled-event caches. Round 4: backward event search shows the event function the signed time (known findings: RK families); event-time frame re-filed.",
    "C12": "order-preserving selection of real eigenpairs at representative multipliers; option forwarding facade -> service -> kernel. Round 3: the energy filter measures max|C_i-C_0|/|C_0| of the Jacobi constant (exact histories); two manifold services never share one stability pipeline. Round 4: the cleaning step keeps eigen-solver order and pairing. Round 5: the engine path that really runs hands matrix, delta, tol and system type to the backend.",
    "C13": "one-parameter secant steps of either sign. Round 3: the default continuation parameter consists of free coordinates of the reversing symmetry the family's correction relies on (fixed Lyapunov, known finding vertical); generate() key contains the options whole. Round 4: component order of the continuation state; width validation (known finding); options chain. Round 5: the real _instantiate is interpreted; members receive the seed's correction configuration (known finding).",
    "C14": "iterates fed back on the section; the service generates the requested section for every history of the generator; the direction quantity does not vanish on the section (known findings: p2, p3). Round 4: config -> problem -> request chain; compute() returns the payload of its own key. Round 5: exact zeroing of 1e-9 residuals; a backward integration request is rejected (fixed).",
    "C15": "every backend request built by the engine copies every detection setting of the template (serial and per-worker siblings). Round 3: configurations built by their real constructor reach the backend with the configured normal and the interpolation kind as the string the backend tests (fixed: cubic unreachable, normal ignored); affine-in-time data located exactly on non-uniform grids; time-orientation equivariance in cubic mode (fixed a dt > 0 guard).",
    "C16": "gradient blocks stored unchanged; the event driver advances the same carried extended state as the plain driver. Round 3: direction model built by _DirectedSystem's own constructor.",
    "C17": "right-hand side at special states (a canonical pair or all of Q exactly zero); Jacobian blocks stored unchanged; tolerances per slot; cache keys of compiled right-hand sides. Round 3: the Hamiltonian and the generic kernel of one integrator receive equal tolerances, limits, tables and grid. Round 5: event and plain symplectic drivers receive the same options.",
    "C18": "who-may-write rule for the conversion table (fixed a late-registration defect); substitutions return the substituted polynomial unchanged; memoised conversions keyed by form and context. Round 3: triangular (C, C_inv) pair on an exact symplectic instance; conversions never write into their source polynomial. Round 4: registry defaults unchanged by a call; class-based from_state.",
    "C19": "a cloud separating greedy matching from mutual nearest neighbours; the limit is tested on the reported mismatch itself; cached requests keyed by the options. Round 3: radius, delta-v limit and ballistic tolerance of the call reach the backend request. Round 4: direction of the connection configuration, the configured normal (fixed) and untrimmed clouds reach the extraction / the request. Round 5: meeting point checked at result level, fallback included (fixed).",
    "C20": "keyed (partial) resets cover every dependent tag; recorded slots are cleared with the cache; sibling rule for attributes other keys contain; reset() overrides write only the cache (decidable part of the save/load clause); key completeness of every hand-rolled cache in the package. Round 3: parameters enter keys whole (no rounding, no field selection); factory reads followed through properties (fixed four configuration setters); setter guards compare exactly; save filter accepts every state slot and no service outside the saved source holds settable state (two known findings). Round 4: create_* never memoises; no `numeric or default` (fixed one); in-place loaders; facade argument binding over the whole facade. Round 5: __setstate__ hooks leave the parked computed state alone.",
}


def claim(pid, category, text, note, technique, design_ref):
    if pid in ADDED:
        text = text + " Added after the seeded-change campaign (DESIGN.md section 0.4): " + ADDED[pid]
    CHECKS[pid] = {
        "property_id": pid,
        "quick_cmd": f"python3-vt vcheck {pid} --tier quick",
        "thorough_cmd": f"python3-vt vcheck {pid} --tier thorough",
        "evidence_file": f"/verif/evidence/{pid}.json",
        "replay_cmd_template": f"python3-vt vcheck {pid} --tier quick --replay {{path}}",
        "engine": "hv",
        "level_claimed": {"category": category, "text": text, "design_ref": design_ref},
        "level_note": note,
        "technique": technique,
    }


claim("C01", "proof",
      "The kernels _crtbp_accel, _jacobian_crtbp, _var_equations, the three compiled right-hand sides and every "
      "energy-like function are partially evaluated from their syntax trees into terms; 36+42 identities "
      "(Jacobian = derivative of the field, variational system = field + Df*Phi), the wiring of mu and the Lie "
      "derivative of each reported energy along the field are decided as polynomial identities for all mu and all "
      "states. Decides the algebraic clauses; does not decide the numerical constancy along integrated trajectories.",
      "Trusted: python ast, sympy polynomial normal forms, the partial evaluator hv/kpe.py (numpy semantics of the "
      "fragment used by the kernels), chain rule. Not decided: integration error magnitudes.",
      "static analysis: partial evaluation of kernels to terms + polynomial identity testing",
      "DESIGN.md §5 C01")

claim("C02", "proof",
      "For every scheme reachable from RungeKutta/FixedRK/AdaptiveRK and for the centre-manifold map's own stepper, the "
      "tableau the code actually applies is extracted by partial evaluation of the stepping code together with its "
      "literal tables; all rooted-tree order conditions up to the declared order (200 trees at order 8), the embedded "
      "error weights, the FSAL stage, the row-sum condition, and the continuous order conditions of both dense outputs "
      "(order 4 / order 7, as polynomial identities in theta) are evaluated in exact rational arithmetic. Controller "
      "arithmetic is decided over order-abstract regions. Decides declared order and table fidelity; does not decide "
      "that the global error is a modest multiple of the tolerance.",
      "Trusted: Butcher's order-condition theorem, kpe/numpy fragment semantics, Fractions. Decimal tables are judged "
      "on the digits written with threshold 1e-15. Adaptive drivers' loops are covered by C10/C11 path rules, not here.",
      "static analysis: partial evaluation to an effective tableau + exact rooted-tree order conditions",
      "DESIGN.md §5 C02")

claim("C03", "proof",
      "The integrated variational system is proved to be (f, Df*Phi) with Phi(0)=I in the 36+6 row-major layout that "
      "_compute_stm builds and slices (interpreted with the propagator abstracted); the extracted Jacobian satisfies "
      "F^T W + W F = 0 for the rotating-frame canonical two-form (36 identities), hence the flow derivative is symplectic; "
      "every _DirectedSystem/_propagate_dynsys site where the direction may be -1 must negate the whole state; the "
      "monodromy/stability services are wired to the orbit's own variational system, state and period.",
      "Trusted: variational theorem, Liouville (infinitesimally symplectic => symplectic), kpe/numpy fragment semantics. "
      "Not decided: numerical accuracy of Phi, the reciprocal-pair matching heuristic on computed eigenvalues.",
      "static analysis: partial evaluation + polynomial identities; argument rule over resolved call sites",
      "DESIGN.md §5 C03")

claim("C12", "other",
      "Classification code (comparison-only) is evaluated exhaustively over the order-abstract regions of |lambda| and "
      "Re(lambda); result-field and tuple orders of the linalg pipeline, the real-eigenvector mask, the branch selection, "
      "the seed formula (as a term identity), direction flags and the retention guards (all 4 guard outcome "
      "combinations) are extracted by interpreting the service code on symbolic data; a call-site rule requires the "
      "classified/transporting transition matrix to be the forward one.",
      "Trusted: Floquet transport Phi(t)v, kpe semantics, stubs of propagation/eigen-solver (abstracted as uninterpreted "
      "data). Not decided: accuracy of computed eigenvectors and of the STM.",
      "static analysis: partial evaluation on symbolic data, order-abstract region enumeration, call-site rules",
      "DESIGN.md §5 C12")

claim("C15", "other",
      "Both crossing detectors (vectorised and scalar segment-refine) are interpreted on symbolic samples along the path "
      "selected by a representative of each region of the sign abstraction (sign g_k x sign g_k+1 x direction, 27 cases, "
      "two representatives per open region) and compared with the reference predicate table and with each other; alpha "
      "clamp, convex hit formulas, Newton clamps, stable ordering, de-duplication against the previous kept hit, "
      "truncation and labelling are extracted the same way; every cubic site (poincare utils, synodic inline basis, RK and "
      "symplectic dense Hermite, _Solution.interpolate) must satisfy the four Hermite end conditions and _hermite_der must "
      "be the exact s-derivative (polynomial identities).",
      "Trusted: kpe semantics incl. the numpy shims; representatives select a path, identities then hold on the whole "
      "region. Not decided: measured convergence orders; tangencies beyond the predicate table.",
      "static analysis: partial evaluation over an order-abstract (sign) domain + polynomial identities",
      "DESIGN.md §5 C15")

claim("C16", "other",
      "The two Hamiltonian sub-flows are evaluated with the polynomial evaluator abstracted as the gradient of an arbitrary "
      "H: their 12x12 Jacobians satisfy M^T J M = J identically (Hessian symmetric) and they read only variables they do "
      "not modify (exact inverse with -delta); the coupling flow is a symplectic rotation modulo c^2+s^2=1 with "
      "M(d)M(-d)=I; the composition is read off the call sequence: ABCBA palindrome, (g,1-2g,g) triple jumps, and the "
      "order condition 2g^(p+1)+(1-2g)^(p+1)=0 at every level reached from the public order keys, decided exactly in "
      "radical arithmetic; driver init/output slots, signed dt, omega, gradient slot tables.",
      "Trusted: composition of symplectic maps is symplectic; Yoshida/Suzuki triple-jump theorem; kpe view semantics. "
      "Not decided: long-time energy behaviour, measured convergence. Known finding: gamma uses 1/(order+1).",
      "static analysis: partial evaluation + symbolic Jacobian identities + exact radical arithmetic",
      "DESIGN.md §5 C16")

claim("C18", "other",
      "Each of the 13 registered conversions is interpreted from its syntax tree for a collinear and a triangular point "
      "with exactly the context its registration guarantees; names bound only under TYPE_CHECKING do not bind, kwargs reads "
      "must be covered, the produced Hamiltonian's name must equal the registered destination, two-way edges must use inverse "
      "partner transforms with identical mix_pairs, Lie edges must return their generating functions; the conversion service's "
      "context check / default merge and registry reachability from 'physical' are checked; the complexification matrix is "
      "proved unitary-inverse and symplectic, polynomial and coordinate substitutions are shown to use the same matrix in "
      "matching direction, and synodic<->local maps are proved exact inverses (24 identities).",
      "Trusted: kpe semantics; transforms are abstracted while the wrappers are analysed (their own semantics is C06/C08). "
      "Not decided: agreement up to the cleaning tolerance as a magnitude.",
      "static analysis: partial evaluation of registry functions with run-time binding rules + exact matrix/term identities",
      "DESIGN.md §5 C18")

claim("C04", "proof",
      "With mu and gamma symbolic: the collinear root function equals the field's x-acceleration on the axis; triangular "
      "positions annihilate the field; each gamma quintic is proportional over Q(mu) to the numerator of dOmega/dx at "
      "x_L(gamma) taken from the library's own local map, and its search range brackets a root for all mu; the position "
      "brackets (primary and fallback, extracted by interpreting _compute_position with Brent abstracted) contain a sign "
      "change for EVERY mu in (0,1/2], decided by exact real-root isolation of the endpoint values as rational functions "
      "of mu (or of t with mu=3t^3), and for each of the catalogue pairs; c_n equals the axis Taylor coefficient of the "
      "exact potential for n<=8 (12 thorough); Hessian entries (1+2c2,1-c2,-c2) and the characteristic polynomial; the "
      "closed-form normal-form matrix is symplectic and diagonalises H2 (57 obligations by Groebner reduction modulo the "
      "five defining relations).",
      "Trusted: Brent converges inside a valid bracket; sympy root isolation/Groebner; Legendre generating function; H2 "
      "reference formula. Not decided: numerical eigenvalue sorting in _compute_linear_modes; triangular normal form.",
      "static analysis: partial evaluation + exact algebra (root isolation, Groebner reduction)",
      "DESIGN.md §5 C04")

claim("C05", "other",
      "The Newton driver is unrolled by the partial evaluator under every outcome tape (residual norm below tol / between "
      "tol and 10 tol / large, stepper returns / raises, iteration caps 0..3): every return must carry a state whose own "
      "measured residual norm is below the unmodified tolerance; a CFG dominance rule gives the same for any iteration "
      "count; the engine's failure path must raise (to_results, which hard-codes converged=True, unreachable); the Armijo "
      "search is unrolled over 250 outcome tapes against the reference acceptance/best-point/raise rule with symbolic trial "
      "points (cap on/off); shooting configurations read from the services must be the zero/free sets of a reversing "
      "symmetry; period = 2 x half-period; halo event-time term, residual/Jacobian assembly and central differences are term "
      "identities against the extracted field.",
      "Trusted: mirror theorem; kpe semantics; residual/stepper abstracted as outcome tapes. Not decided: closure within a "
      "multiple of the tolerance under independent propagation; convergence of Newton.",
      "static analysis: bounded unrolling by partial evaluation over outcome tapes + CFG dominance + term identities",
      "DESIGN.md §5 C05")

claim("C13", "other",
      "(1) CFG path rules with constant-flag propagation on the predictor-corrector loop: after the out-of-target edge and "
      "after the retry-limit edge no further predict is reachable (all histories). (2) The loop is unrolled by the partial "
      "evaluator under every corrector outcome tape over {accept, reject, raise}^4 (6 thorough) x member/retry limits x two "
      "parameter histories and compared with a reference transition system: family size, accepted/rejected/iteration "
      "counts, predict origin, step threading, info lengths. Step clamp/shrink, natural and secant predictions, tangent "
      "bookkeeping, member correction (tolerance, 2*half_period) and period hand-over are extracted as terms.",
      "Trusted: the reference loop model written from the property statement; kpe semantics; corrector abstracted. Not "
      "decided: that members lie on the intended family; numerical validity of members (C05's undecided part).",
      "static analysis: CFG reachability with flag propagation + bounded unrolling by partial evaluation",
      "DESIGN.md §5 C13")

claim("C10", "other",
      "Every integrate() (fixed, RK45, DOP853, symplectic; generic and Hamiltonian) is interpreted with its kernels "
      "abstracted: returned times must equal the requested grid unsigned for both directions, and _propagate_dynsys "
      "(interpreted for all three methods and both directions) multiplies by the direction exactly once on the grid "
      "linspace(t0,tf,steps); the direction wrapper and every reversal site must negate the whole state (rule C03.c); a "
      "strictly decreasing grid fed to each integrate() under a representative ordering must raise before any forward-only "
      "kernel runs, while direction-agnostic kernels are unrolled on a descending grid against the signed-step reference; "
      "plain drivers are unrolled under accept/reject tapes against the reference stepping and dense-sampling protocol.",
      "Trusted: harness stubs (fresh symbols for step/RHS/dense results), reference protocols in hv/rules/drv.py, frozen "
      "classification forward-only = {RK45, DOP853}. Not decided: round-trip error magnitudes.",
      "static analysis: partial evaluation of integrate()/propagate + bounded unrolling of drivers over tapes",
      "DESIGN.md §5 C10")

claim("C11", "other",
      "Crossing predicates are evaluated exhaustively over the sign abstraction (2 x 27 cases, two representatives per "
      "open region); each of the seven event drivers is unrolled under all event-sign tapes {-,0,+}^k x 3 directions x "
      "accept/reject tapes and its abstract-call trace compared segment-wise with the reference protocol; the five "
      "bisection refiners are unrolled for both signs of h against the reference bisection (t_hit exact, y_hit = this "
      "step's dense output at x_hit); integrate() wrappers (dispatch, direction/tolerance wiring, result shapes) and the "
      "plane-crossing wrapper (event function table, hit window) are interpreted on symbolic data.",
      "Trusted: harness stubs, reference protocols, dense evaluators proved in C02.b/C15.c. Not decided: that the crossing "
      "is the first one when two lie inside one step; accuracy against the exact flow.",
      "static analysis: order-abstract evaluation + bounded unrolling of drivers/refiners over tapes (partial evaluation)",
      "DESIGN.md §5 C11")

claim("C17", "other",
      "A local type flow infers what every _build_rhs_impl closure makes numba freeze (typed List/list/dict/object are "
      "violations); _hamiltonian_rhs, the system's dH_dQ/dH_dP and rhs_params are extracted as terms over uninterpreted "
      "jac_H evaluations; the three step-kernel pairs and the dense-cache pair are compared term by term with the real "
      "tables; six driver pairs and the DOP853 refiner pair are run under identical tapes and must produce identical "
      "abstract-call traces and results; integrate() must take the _ham kernel with the system's (jac_H, clmo_H, n_dof) on "
      "both the event and the non-event branch.",
      "Trusted: numba freezing rules (documentation), harness stubs. Not decided: bit-for-bit equality of floating-point "
      "trajectories (implied up to rounding).",
      "static analysis: closure-capture kind inference + twin comparison in term and trace mode (partial evaluation)",
      "DESIGN.md §5 C17")

claim("C19", "other",
      "The counting and the filling pass of the radius search are interpreted on symbolic coordinates and the predicates they "
      "ask are compared term by term over the loop nest; the interior solution of the closest-point routine is proved "
      "stationary (two polynomial identities) and its result on 88 (thorough 110) exact rational segment configurations - "
      "generic, each clamp, parallel, anti-parallel, collinear, degenerate, with reversals and swaps - is compared with an "
      "exact reference minimiser; the refinement's midpoint/argument/fallback structure is extracted; the backend is "
      "interpreted on representative clouds with symbolic 6-D states: delta_v is proved to be the norm of the velocity "
      "difference of the very states reported, thresholds, labels, indices, mutual-nearest pairing and sort order are "
      "compared with the reference.",
      "Trusted: kpe semantics, the reference minimiser (candidate enumeration in rational arithmetic). Not decided: "
      "optimality of the clamped case analysis for ALL configurations (real quantifier elimination; solver family).",
      "static analysis: partial evaluation on symbolic data along representative paths + exact reference comparison",
      "DESIGN.md §5 C19")

claim("C06", "other",
      "hiten's table builders are interpreted from their syntax trees at a bounded degree (6; 9 thorough): psi equals the "
      "binomials, every multi-index of each degree occurs exactly once, and pack / decode / fill / encode agree with an "
      "independent reference of the documented layout on all 924 positions; bit probes extract each site's field table "
      "(5 disjoint 6-bit fields, capacity 63 >= global degree 30, top bit < 32); _combinations is checked on the whole table "
      "domain. Race freedom of every njit(parallel=True) function is an effect rule on prange bodies (thread-private rows "
      "selected by get_thread_id and fully reduced, outputs indexed by the loop variable, no nested parallel kernel, no "
      "callee writing a shared argument): holds under every schedule. Every kernel and list operation is interpreted on "
      "generic symbolic coefficient arrays (degrees <= 3-4) with 3 simulated threads under a scrambled thread-id assignment "
      "and compared with sympy (product, derivative, integral, Poisson bracket, evaluation, truncated multiply/power, "
      "linear/affine substitution with a non-symmetric symbolic matrix).",
      "Trusted: kpe/numpy-fragment semantics, numba prange semantics per documentation, sympy. Bounded by the degrees "
      "interpreted (the kernels are degree-uniform loops). Not decided: rounding error magnitudes.",
      "static analysis: partial evaluation on generic symbolic coefficients + effect (race) analysis of prange bodies",
      "DESIGN.md §5 C06")

claim("C07", "other",
      "The Hamiltonian builders are interpreted with the polynomial primitives replaced by their ring summaries (each "
      "summary justified by C06.c): T_n = rho^n P_n(x/rho) and A_n = rho^n P_n(d.r/rho) for n <= 6 (9 thorough); the "
      "collinear and triangular assemblies equal the stated closed forms with symbolic c_n, mu, sign; for L1, L2, L3 every "
      "homogeneous part n = 2..4 (5 thorough) of the polynomial equals the multivariate Taylor coefficient of the exact "
      "energy pulled back through the library's own _local2synodic_collinear, with c_n := _compute_cn(n), as rational "
      "identities in (mu, gamma); the local origin must map to the libration point at rest; the second time derivative of "
      "the mapped position along Hamilton's equations of the un-truncated pulled-back energy must equal _crtbp_accel at the "
      "mapped state (exact identities; L1/L2 hold). Pipeline builder selection and form name.",
      "Trusted: hv.polymodel summaries, sympy series/legendre, E_true = the Jacobi formula proved a first integral in C01.d. "
      "Known findings: L3 accelerations; triangular local map (origin and accelerations). Not decided: the O(r^(N+1)) "
      "remainder as a measured rate; degrees above the bound.",
      "static analysis: partial evaluation with polynomial-ring summaries + exact series/term identities",
      "DESIGN.md §5 C07")

claim("C08", "other",
      "The Lie-series drivers (_lie_transform partial and full, _solve_homological_equation, both term selectors, "
      "_apply_poly_transform, _lie_expansion, _apply_coord_transform, _zero_q1p1) are interpreted on hiten's real packed "
      "layout at degree 4 (5 thorough) with a generic Hamiltonian: H2 in complex normal form with a generic rational "
      "frequency vector (two vectors thorough), 15+ higher-order monomials of both kinds, a subset of their coefficients "
      "symbolic (exact arithmetic over QQ_I[h]); only the list-level Poisson bracket is replaced by its ring summary "
      "(C06.c). Checked as exact polynomial identities: no monomial with k_q1 != k_p1 (partial) / no non-resonant monomial "
      "(full) remains in degrees 3..N; {H2,G_n} cancels exactly the selected terms; H_new equals the independently "
      "computed Lie series with the returned generators AND equals H_old composed with the library's own forward "
      "coordinate series; that series is canonical ({Phi_i,Phi_j}=J_ij) and forward o inverse = inverse o forward = id, all "
      "modulo degree N+1; truncation counts K, K_max suffice on the whole grid 3<=n<=N<=30.",
      "Trusted: C06.c summary of the Poisson bracket, sympy Poly arithmetic. Bounded by N and by the generic instance "
      "(identities are polynomial in the symbolic coefficients; frequencies are generic representatives). Not decided: "
      "small-divisor behaviour, remainder size, cleaning tolerances.",
      "static analysis: partial evaluation of the Lie drivers on a generic symbolic instance + exact polynomial identities",
      "DESIGN.md §5 C08")

claim("C09", "other",
      "Both conversion chains (centre manifold -> synodic and back) are interpreted with every stage replaced by a tagging "
      "stub: stage sequences must be mirror images through a frozen inverse-partner table (pairs proved inverse in C18.c/d "
      "and C08.c), the forward chain must use the forward coordinate series, every stage must consume its predecessor's "
      "output with the caller's tolerance and the service's mix_pairs; point configuration binds the collinear map pair "
      "together and refuses L3/triangular points; the 4<->6 packing, _STATE_INDEX, _CM_SECTION_TABLE, build_state, the "
      "missing-coordinate map, state_map, var_indices and the backend's slots are extracted and must denote one layout; the "
      "energy-level lift is extracted as the term Re H(state) - h0 with the unknown in its own slot; the centre-manifold "
      "restriction keeps exactly the monomials free of q1 and p1 (interpreted on generic coefficients).",
      "Trusted: inverse-partner table (each pair proved elsewhere), kpe semantics. Not decided: the r^(N+1) scaling of the "
      "round-trip and energy discrepancies.",
      "static analysis: stage tracing by partial evaluation + slot-table extraction",
      "DESIGN.md §5 C09")

claim("C14", "other",
      "The prange body of _poincare_map is checked by the effect (race) rule and its callees write no argument; the engine's "
      "solve() is interpreted with a simulated executor whose futures complete in reverse order for 1, 2 and 3 workers with "
      "the backend abstracted as a deterministic row-wise map: the returned (state, time) rows are equal as multisets and "
      "every row has its section coordinate zero; worker and backend write no shared attribute; section enforcement, "
      "plane projection and labels are extracted on symbolic states for all four sections; the crossing test is evaluated "
      "over the sign abstraction (4 sections x 27 cases) incl. alpha, the Hermite refinement pairing (old/new state and "
      "rhs of the same slot) and slot tables are read from the interpreted step.",
      "Trusted: numba prange semantics (documentation), backend row-wise abstraction (justified by the race rule), kpe. "
      "Not decided: conservation of the reduced energy along iterates and 'genuine return' (numerical).",
      "static analysis: effect (race) analysis + partial evaluation with a simulated executor + order-abstract evaluation",
      "DESIGN.md §5 C14")

claim("C20", "other",
      "make_key/_make_hashable is interpreted on nested option dictionaries (keys must differ when a nested value differs); "
      "all get_or_create sites of the service classes (>= 30) are enumerated from the syntax tree and checked by "
      "history-independent who-reads/who-writes rules: the key contains every parameter the factory reads; the factory "
      "writes no attribute of self or the domain object (transitively through self-methods); it does not return an "
      "attribute it has just mutated; every assignment of an attribute read by a memoised factory has a cache reset in the "
      "same block; key expressions sharing a cache are pairwise non-unifiable (tag, arity or component kind); identity-keyed "
      "caches hold their referent; every _HitenBase subclass rebuilds its services in __setstate__. Decides the named causes "
      "of stale/aliased values; does not decide the pickle round trip (declared not applicable: reflective "
      "__getstate__/dir()/getattr has no static handle).",
      "Trusted: the list of causes is the rule set (a stale value from another cause is not covered); exemption table "
      "KEY_EXEMPT_PARAMS; lazy-initialisation and property-setter idioms recognised. 8 known findings keyed by site.",
      "static analysis: who-reads/who-writes rules over memoisation sites + partial evaluation of make_key",
      "DESIGN.md §5 C20")

PENDING = ["C02", "C03", "C04", "C05", "C06", "C07", "C08", "C09", "C10", "C11", "C12", "C13", "C14", "C15",
           "C16", "C17", "C18", "C19", "C20"]


def main():
    na = [{"property_id": p, "reason": NOT_APPLICABLE.get(p, "check under construction in this session; not yet claimed")}
          for p in PENDING if p not in CHECKS]
    man = {
        "version": 1,
        "setup_cmd": "python3-vt -c \"import sympy, networkx, numpy; print('hv deps ok', sympy.__version__)\"",
        "hooks": {
            "guard": "HITEN_VERIF",
            "enable": "none needed: the checks parse /repo's working tree and never build or import it",
            "baseline_off_cmd": "cd /repo && /venv/bin/python -m pytest -ra -q -p no:cacheprovider --timeout=900 --continue-on-collection-errors",
            "source_commits": [],
            "add_only": True,
        },
        "engines": [
            {"name": "hv", "path": "/verif/hv", "serves_properties": sorted(CHECKS),
             "kind_free_text": "repository-specific static analysis on python ast: resolved-program index, kernel partial "
                               "evaluator to sympy terms (identities by polynomial normal form), statement CFG path rules, "
                               "effect/race rules, exact constant tables + rooted-tree order conditions"},
        ],
        "checks": [CHECKS[k] for k in sorted(CHECKS)],
        "notes": "C20: the clause 'a save/load round trip preserves all observable state' is not decided (reflective pickling); all other clauses of C20 and all other properties are claimed for the clauses named in DESIGN.md. All checks are static (no hiten import, no test run). Exit 0 held / 1 VIOLATION / 2 ANALYSIS-ERROR "
                 "(anchor vanished or code left the analysable fragment). Known findings: /verif/known_findings.json.",
        "not_applicable": na,
    }
    with open(os.path.join(HERE, "MANIFEST.json"), "w") as fh:
        json.dump(man, fh, indent=1)
        fh.write("\n")


if __name__ == "__main__":
    main()
