"""C03 — the state-transition matrix is the derivative of the flow and is symplectic.

a  integrated system is x'=f(x), Phi'=Df(x)Phi, Phi(0)=I, with the 36+6 layout used consistently
b  Df^T W + W Df = 0 for the canonical two-form W of the rotating frame (=> Phi^T W Phi = W)
c  time reversal is a full negation of the right-hand side at every site where forward may be -1
d  monodromy / stability services are wired to the variational system of the same orbit

c-memo  the cached compiled wrapper of a directed system is keyed by base rhs, direction and flip indices (hv.memo)
d-invalidation  cached monodromy/stability entries and recorded slots are dropped when the period changes (C20.e on the orbit service)

c (round 3)  the wrapper is built by its own constructor (attribute names are the class's business); every literal name a direction-aware
   integrator reads with getattr(system, name, 1) is an attribute that constructor stores;  d-mu: C01's system wiring re-filed
d-period (round 4)  family members carry the period of their own correction (C13.f) and an assigned period takes effect however close to the old one (C05.d), re-filed
"""
from __future__ import annotations

import ast

import numpy as np
import sympy as sp

from ..core import Check, AnalysisError
from .. import repoindex as ri
from .. import sites
from ..kpe import Interp, SymObj, UFunc, FuncRef, Opaque, to_obj_array, S, OutsideFragment
from ..alg import Radicals, is_zero, short
from . import common

RTBP = "hiten.algorithms.dynamics.rtbp"
BASE = "hiten.algorithms.dynamics.base"

# frozen field-type table: attribute name of a dynamical system -> state dimension (confirmed by reading
# rtbp.py: _RTBPRHS dim 6, _VarEqRHS dim 42, _JacobianRHS dim 3)
DYNSYS_DIM = {"dynsys": 6, "var_dynsys": 42, "jacobian_dynsys": 3}


def run(tier):
    chk = Check("C03", tier, "proof",
                "Variational kernel and Jacobian are partially evaluated to terms; symplecticity is the 36 polynomial "
                "identities F^T W + W F = 0; the 42-vector layout of _compute_stm is extracted by interpreting it with "
                "the propagator abstracted; the direction rule is a who-may-call/argument rule over every "
                "_DirectedSystem/_propagate_dynsys/_compute_stm site.",
                trusted_base=["python ast", "sympy normal forms", "hv.kpe", "variational theorem (Phi'=Df Phi, Phi(0)=I "
                              "is the flow derivative)", "Liouville: infinitesimally symplectic generator => symplectic flow"])
    R = Radicals()
    st, mu = common.STATE, common.MU
    field = common.crtbp_field()

    # ------------------------------------------------------------ C03.a (kernel part; shares C01.a/b obligations)
    F = to_obj_array(Interp().call_function(RTBP, "_jacobian_crtbp", [st[0], st[1], st[2], mu]))
    Fm = sp.Matrix(6, 6, lambda i, j: F[i, j])
    bad = []
    for i in range(6):
        for j in range(6):
            z, res = is_zero(F[i, j] - sp.diff(field[i], st[j]), R)
            if not z:
                bad.append((i, j, short(res, 100)))
    chk.check(not bad, "C03.a", f"{RTBP}::_jacobian_crtbp", f"Jacobian differs from d(field): {bad[:4]}",
              sample="36 entries F[i,j] == d f_i / d s_j")
    Phi = np.empty((42,), dtype=object)
    for k in range(36):
        Phi[k] = sp.Symbol(f"P{k // 6}{k % 6}", real=True)
    for k in range(6):
        Phi[36 + k] = st[k]
    out = to_obj_array(Interp().call_function(RTBP, "_var_equations", [sp.Symbol("t"), Phi.copy(), mu]))
    Pm = sp.Matrix(6, 6, lambda i, j: Phi[6 * i + j])
    want = sp.Matrix(6, 6, lambda i, j: sp.diff(field[i], st[j])) * Pm
    bad = []
    for k in range(36):
        z, res = is_zero(out[k] - want[k // 6, k % 6], R)
        if not z:
            bad.append((k, short(res, 100)))
    for k in range(6):
        z, res = is_zero(out[36 + k] - field[k], R)
        if not z:
            bad.append((36 + k, short(res, 100)))
    chk.check(not bad, "C03.a", f"{RTBP}::_var_equations", f"variational system is not (Df·Phi, f): {bad[:4]}",
              sample="42 components: dPhi = Df(x) Phi (row-major), dx = f(x)")
    chk.count("functions partially evaluated", 3)

    _stm_layout(chk)

    # ------------------------------------------------------------ C03.b
    I3, Z3 = sp.eye(3), sp.zeros(3)
    K = sp.Matrix([[0, -1, 0], [1, 0, 0], [0, 0, 0]])
    T = sp.Matrix(sp.BlockMatrix([[I3, Z3], [K, I3]]))
    J = sp.Matrix(sp.BlockMatrix([[Z3, I3], [-I3, Z3]]))
    W = T.T * J * T
    G = Fm.T * W + W * Fm
    for i in range(6):
        for j in range(6):
            z, res = is_zero(G[i, j], R)
            chk.check(z, "C03.b", f"{RTBP}::_jacobian_crtbp[(F^T W + W F)[{i},{j}]]",
                      f"Jacobian is not infinitesimally symplectic for the rotating-frame two-form at ({i},{j})",
                      residual=short(res), nontrivial=(i != j),
                      sample=f"(F^T W + W F)[{i},{j}] == 0, W = T^T J T, p = v + K x")

    # ------------------------------------------------------------ C03.c
    _directed_semantics(chk)
    _direction_sites(chk)
    _directed_memo(chk)

    # ------------------------------------------------------------ C03.d
    _wiring(chk)
    # the span the monodromy is taken over is the orbit's own period: family members carry the period of their own correction (C13.f), and
    # a period assigned to an orbit takes effect however close it is to the old one (C05.d)
    from . import c13, c05
    from .common import Relabel
    c13._f_members(Relabel(chk, {"C13.f": "C03.d-period", "C13.b": "C03.d-period"}), scheme=False)   # the periods only: which scheme corrects a member is C13 / C05
    c05._d_period_setter(Relabel(chk, {"C05.d": "C03.d-period"}))
    return chk


class _Captured(Exception):
    pass


def _stm_layout(chk):
    """Interpret _compute_stm with _propagate_dynsys abstracted: initial vector, slicing, flip, forwarding."""
    cap = {}
    nsteps = 3
    states = np.empty((nsteps, 42), dtype=object)
    for i in range(nsteps):
        for k in range(42):
            states[i, k] = sp.Symbol(f"S{i}_{k}")
    times = to_obj_array([sp.Symbol(f"T{i}") for i in range(nsteps)])

    def fake_propagate(ip, args, kwargs):
        names = ["dynsys", "state0", "t0", "tf", "forward", "steps", "method", "order", "flip_indices"]
        b = dict(zip(names, args))
        b.update(kwargs)
        cap.update(b)
        return SymObj(None, {"states": states, "times": times}, "sol")

    ip = Interp(overrides={"_propagate_dynsys": fake_propagate})
    x0 = to_obj_array([sp.Symbol(f"x0_{k}") for k in range(6)])
    tf, fwd = sp.Symbol("tf"), sp.Symbol("fwd")
    dyn = SymObj(None, {"dim": 42}, "var_dynsys")
    res = ip.call_function(RTBP, "_compute_stm", [dyn, x0, tf], {"forward": fwd, "steps": nsteps})
    chk.count("functions partially evaluated")
    if not cap:
        raise AnalysisError("_compute_stm no longer propagates through _propagate_dynsys")
    c = f"{RTBP}::_compute_stm"
    s0 = to_obj_array(cap.get("state0"))
    eye = [1 if (k // 6 == k % 6) else 0 for k in range(36)]
    ok = s0.shape == (42,) and all(S(s0[k]) == eye[k] for k in range(36)) and all(S(s0[36 + k]) == x0[k] for k in range(6))
    chk.check(ok, "C03.a-layout", c + "[PHI0]", "initial 42-vector is not (vec(I_6) row-major, x0)",
              sample="PHI0[:36] = eye(6).ravel(), PHI0[36:] = x0")
    chk.check(cap.get("dynsys") is dyn, "C03.a-layout", c + "[dynsys]", "the given variational system is not the one propagated")
    chk.check(S(cap.get("t0", sp.nan)) == 0 and S(cap.get("tf", sp.nan)) == tf, "C03.a-layout", c + "[span]",
              f"propagation span is not [0, tf]: t0={cap.get('t0')}, tf={cap.get('tf')}")
    chk.check(S(cap.get("forward", 1)) == fwd, "C03.a-layout", c + "[forward]", "direction argument is not forwarded")
    # returned pieces
    try:
        x, tt, phiT, PHI = res
    except Exception:  # noqa: BLE001
        raise AnalysisError("_compute_stm does not return a 4-tuple")
    x, phiT, PHI = to_obj_array(x), to_obj_array(phiT), to_obj_array(PHI)
    ok = x.shape == (nsteps, 6) and all(x[i, k] == states[i, 36 + k] for i in range(nsteps) for k in range(6))
    chk.check(ok, "C03.a-layout", c + "[x]", "returned trajectory is not the state block PHI[:,36:42]",
              sample="x = PHI[:, 36:42]")
    ok = phiT.shape == (6, 6) and all(phiT[i, j] == states[nsteps - 1, 6 * i + j] for i in range(6) for j in range(6))
    chk.check(ok, "C03.a-layout", c + "[phi_T]", "phi_T is not the last sample's first 36 entries reshaped row-major",
              sample="phi_T = PHI[-1,:36].reshape(6,6)")
    ok = PHI.shape == states.shape and all(PHI[idx] == states[idx] for idx in np.ndindex(states.shape))
    chk.check(ok, "C03.a-layout", c + "[PHI]", "PHI is not the propagated 42-vector history")
    chk.check(all(tt[i] == times[i] for i in range(nsteps)) if isinstance(tt, np.ndarray) else False, "C03.a-layout",
              c + "[times]", "returned times are not the solution's times")
    # C03.c at this site: forward is a parameter here, so the flip must be total
    flip = cap.get("flip_indices", None)
    ok = flip is None or (isinstance(flip, slice) and _slice_covers(flip, 42))
    chk.check(ok, "C03.c", c + "[flip_indices]",
              f"backward STM propagation negates only {flip!r} of the 42-vector: Phi' = +Df·Phi along a reversed orbit is "
              f"not the linearisation of the backward flow", sample=f"flip_indices = {flip!r} on dim 42")
    # monodromy = third component at forward=+1 over one period
    cap2 = {}

    def fake_stm(ip, args, kwargs):
        cap2["args"], cap2["kw"] = args, kwargs
        return (sp.Symbol("X"), sp.Symbol("TT"), sp.Symbol("M"), sp.Symbol("PHI"))

    ip2 = Interp(overrides={"_compute_stm": fake_stm})
    per = sp.Symbol("period")
    M, err = None, None
    try:
        M = ip2.call_function(RTBP, "_compute_monodromy", [dyn, x0, per])
    except OutsideFragment as exc:   # what follows the propagation is outside the fragment; the propagation itself is judged below
        err = str(exc)
    args, kw = cap2.get("args", []), cap2.get("kw", {})
    span = args[2] if len(args) > 2 else kw.get("tf")
    ok = bool(args) and args[0] is dyn and span == per and S(kw.get("forward", 1)) == 1 and (len(args) < 5 or S(args[4]) == 1)
    chk.check(ok, "C03.a-layout", f"{RTBP}::_compute_monodromy[span]",
              f"monodromy is not computed from the forward variational flow over exactly one period from x0 (time span handed to _compute_stm: {span}); "
              "symmetry shortcuts hold only for initial states on the symmetry plane",
              sample="_compute_stm(dynsys, x0, period), forward")
    chk.check(M == sp.Symbol("M"), "C03.a-layout", f"{RTBP}::_compute_monodromy",
              f"monodromy is not Phi(T) returned unchanged: {M if err is None else err}",
              sample="_compute_monodromy = _compute_stm(dynsys, x0, period)[2]")


def _slice_covers(sl, dim):
    lo = 0 if sl.start is None else sl.start
    hi = dim if sl.stop is None else sl.stop
    stp = 1 if sl.step is None else sl.step
    return lo <= 0 and hi >= dim and stp == 1


def _directed_memo(chk):
    """The cached compiled wrapper of a directed system is keyed by the base rhs, the direction and the flip indices."""
    from .. import memo
    memo.check_modules(chk, "C03.c-memo", [BASE], floor=2, what="hand-rolled caches of compiled right-hand sides")


def _directed_semantics(chk, signed_time=False):
    """_DirectedSystem's compiled wrapper: fwd=+1 -> g, fwd=-1 & no flip -> -g, partial flip -> partial.

    signed_time (C10, user right-hand sides): the base system is evaluated at the signed time fwd*t.  For the autonomous
    systems of C03 the time argument is immaterial and either sign is accepted."""
    n = 4
    mod, cls = ri.find_def(BASE, "_DirectedSystem")
    from ..kpe import ClassRef
    dmod, dcls = ri.find_def(BASE, "_DynamicalSystem")

    def build(fwd, flip):
        """The wrapper as its own constructor builds it (attribute names are the class's business)."""
        g = UFunc("g", n)
        base = SymObj(ClassRef(dmod, dcls), {"rhs": g, "dim": n, "_dim": n}, "base")
        ip = Interp()
        ip.isinstance_hook = lambda v, c: (v is base) if (isinstance(c, ClassRef) and c.node.name == "_DynamicalSystem") else None
        try:
            obj = ip.instantiate(ClassRef(mod, cls), [base, fwd], {"flip_indices": flip})
        except OutsideFragment as exc:
            raise AnalysisError(f"_DirectedSystem.__init__ outside fragment: {exc}")
        return ip, obj, g

    for fwd, flip, expect in ((1, None, "+"), (-1, None, "-"), (-1, slice(0, n), "-"), (-1, slice(2, n), "partial"), (5, None, "+"), (-3, None, "-")):
        ip, obj, g = build(fwd, flip)
        rhs = ip.apply(ip.getattr(obj, "_build_rhs_impl"), [], {})
        if not isinstance(rhs, FuncRef):
            raise AnalysisError("_DirectedSystem._build_rhs_impl did not return a function")
        y = to_obj_array([sp.Symbol(f"y{k}") for k in range(n)])
        t = sp.Symbol("t")
        got = to_obj_array(ip.apply(rhs, [t, y.copy()], {}))
        # a backward propagation over the unsigned time s = -t integrates dy/ds = -f(-s, y): for a time-dependent right-hand
        # side the base system has to be evaluated at the signed time
        sgn = 1 if fwd >= 0 else -1
        ref = to_obj_array(ip.apply_ufunc(g, [sgn * t, y]))
        if not signed_time:
            got = to_obj_array([S(v).subs(-t, t) if S(v).has(-t) else v for v in got])
            ref = to_obj_array(ip.apply_ufunc(g, [t, y]))
        if expect == "+":
            ok = all(got[k] == ref[k] for k in range(n))
        elif expect == "-":
            ok = all(sp.expand(got[k] + ref[k]) == 0 for k in range(n))
        else:
            ok = all(got[k] == ref[k] for k in range(2)) and all(sp.expand(got[k] + ref[k]) == 0 for k in range(2, n))
        chk.check(ok, "C03.c-wrapper", f"{BASE}::_DirectedSystem._build_rhs_impl[fwd={fwd},flip={flip}]",
                  f"direction wrapper constructed with fwd={fwd}, flip={flip} does not return the expected sign pattern ({expect}): {list(got)}",
                  sample=f"fwd={fwd}, flip={flip}: rhs = {list(got)}")
    chk.count("functions partially evaluated", 6)
    # what the direction-aware integrators read off a system (getattr(system, <name>, 1): silent fallback to +1) is what the
    # wrapper's constructor stores: every such literal name must be an attribute the constructor sets to the normalised direction
    readers = 0
    for modname in ("hiten.algorithms.integrators.symplectic", "hiten.algorithms.integrators.rk", "hiten.algorithms.integrators.base"):
        m = ri.need_module(modname)
        for q, fn in ri.functions_in(m):
            for c in ast.walk(fn):
                if isinstance(c, ast.Call) and isinstance(c.func, ast.Name) and c.func.id == "getattr" and len(c.args) == 3 and isinstance(c.args[1], ast.Constant) \
                        and isinstance(c.args[1].value, str) and isinstance(c.args[0], ast.Name) and c.args[0].id in ("system", "dynsys"):
                    name = c.args[1].value
                    readers += 1
                    vals = {}
                    for fwd in (1, -1):
                        _ip, obj, _g = build(fwd, None)
                        vals[fwd] = obj.attrs.get(name)
                    ok = vals[1] is not None and vals[-1] is not None and vals[1] != vals[-1]
                    chk.check(ok, "C03.c-wrapper", f"{modname}::{q}[getattr(system, {name!r}, default)]",
                              f"{q} reads the direction as getattr(system, {name!r}, {ast.unparse(c.args[2])}) but _DirectedSystem's constructor stores {vals} under that name: "
                              f"the read falls back to the default and a backward system is integrated forward", sample=f"{q}: getattr(system, {name!r}) = +-1 as stored by _DirectedSystem.__init__")
    chk.floor("direction attribute readers", readers, 1)


def _direction_sites(chk):
    """Every _propagate_dynsys / _DirectedSystem call: partial flip only with forward literally +1."""
    n_sites = 0
    _, pdef = ri.find_def(BASE, "_propagate_dynsys")
    _, ddef_cls = ri.find_def(BASE, "_DirectedSystem")
    dinit = next(s for s in ddef_cls.body if isinstance(s, ast.FunctionDef) and s.name == "__init__")
    for target, fdef, skip_self, fwd_name in (("_propagate_dynsys", pdef, False, "forward"), ("_DirectedSystem", dinit, True, "fwd")):
        for mod, q, fn, call in sites.call_sites(BASE, target):
            n_sites += 1
            bound, extra, star = sites.bind_call(call, fdef, skip_self=skip_self)
            construct = f"{mod.name}::{q}[{target}(...)]"
            flip = bound.get("flip_indices")
            fwd = bound.get(fwd_name)
            fwd_const = sites.const_int(fwd) if fwd is not None else 1
            if flip is None or (isinstance(flip, ast.Constant) and flip.value is None):
                chk.ok("C03.c", construct, sample=f"{ri.norm_stmt(call)[:120]} : no selective flip", nontrivial=fwd_const != 1)
                continue
            if mod.name == BASE and q == "_propagate_dynsys" and isinstance(flip, ast.Name) and flip.id == "flip_indices":
                chk.ok("C03.c", construct, sample="pass-through of the caller's flip_indices", nontrivial=False)
                continue
            if fwd_const == 1:
                chk.ok("C03.c", construct, sample="forward is the literal +1; flip is inert", nontrivial=False)
                continue
            dim = _site_dim(mod, fn, bound)
            cover = _flip_cover(flip)
            ok = dim is not None and cover is not None and cover[0] <= 0 and cover[1] >= dim
            chk.check(ok, "C03.c", construct,
                      f"direction may be -1 here but flip_indices={ast.unparse(flip)} does not cover the whole state "
                      f"(dim={dim}): the reversed system is q'=f_q, p'=-f_p, the time reverse of nothing",
                      sample=f"flip_indices={ast.unparse(flip)} covers [0,{dim})")
    chk.floor("direction call sites", n_sites, 7)


def _flip_cover(node):
    if isinstance(node, ast.Call) and isinstance(node.func, ast.Name) and node.func.id == "slice":
        vals = [None if (isinstance(a, ast.Constant) and a.value is None) else sites.const_int(a) for a in node.args]
        if len(vals) == 1:
            return (0, vals[0]) if vals[0] is not None else None
        if len(vals) >= 2:
            lo = 0 if vals[0] is None else vals[0]
            if vals[1] is None:
                return (lo, 10 ** 9)
            if len(vals) == 3 and vals[2] not in (None, 1):
                return None
            return (lo, vals[1])
    if isinstance(node, (ast.List, ast.Tuple)):
        idx = [sites.const_int(e) for e in node.elts]
        if None in idx or not idx:
            return None
        s = sorted(set(idx))
        if s == list(range(s[0], s[-1] + 1)):
            return (s[0], s[-1] + 1)
    return None


def _site_dim(mod, fn, bound):
    s0 = bound.get("state0")
    if isinstance(s0, ast.Name) and fn is not None:
        for v in sites.local_defs(fn, s0.id):
            if isinstance(v, ast.Call) and ast.unparse(v.func) in ("np.zeros", "np.empty", "np.ones") and v.args:
                d = sites.const_int(v.args[0])
                if d is not None:
                    return d
    d = bound.get("dynsys") or bound.get("base_or_dim")
    if d is not None:
        tail = ast.unparse(d).split(".")[-1]
        if tail in DYNSYS_DIM:
            return DYNSYS_DIM[tail]
    return None


def _wiring(chk):
    modname = "hiten.algorithms.types.services.orbits"
    mod = ri.need_module(modname)
    n = 0
    for target in ("_compute_monodromy", "_compute_stm"):
        _, fdef = ri.find_def(RTBP, target)
        for m, q, fn, call in sites.call_sites(RTBP, target, modules=[mod]):
            n += 1
            bound, extra, star = sites.bind_call(call, fdef)
            got = tuple(sites.arg_text(fn, bound[k]) if k in bound else None for k in fdef.args.args[:3] for k in [k.arg])
            ok = got == ("self.var_dynsys", "self.initial_state", "self.period")
            fwd = bound.get("forward")
            ok = ok and (fwd is None or sites.const_int(fwd) == 1)
            chk.check(ok, "C03.d", f"{modname}::{q}[{target}]",
                      f"{target} is not evaluated on (self.var_dynsys, self.initial_state, self.period) forward: {got}",
                      sample=ri.norm_stmt(call))
    chk.floor("monodromy/stability wiring sites", n, 2)
    # the orbit's var_dynsys is the system's variational system
    hit = 0
    for q, fn in ri.functions_in(mod):
        if fn.name == "var_dynsys" and "property" in ri.decorators(fn):
            hit += 1
            rets = [r for r in ast.walk(fn) if isinstance(r, ast.Return) and r.value is not None]
            ok = bool(rets) and all(ast.unparse(r.value).endswith(".var_dynsys") for r in rets)
            chk.check(ok, "C03.d", f"{modname}::{q}", "orbit var_dynsys is not delegated to the system's variational system",
                      sample=ri.norm_stmt(rets[0]) if rets else "")
    chk.floor("var_dynsys properties", hit, 1)
    # the stability index reported for an eigenvalue is (lambda + 1/lambda)/2, complex for a complex quadruplet
    lmod, lcls = ri.find_def("hiten.algorithms.linalg.backend", "_LinalgBackend")
    lam = sp.Symbol("lam_re", real=True) + sp.I * sp.Symbol("lam_im", real=True)
    from ..kpe import ClassRef
    nu = S(Interp().apply(Interp().getattr(SymObj(ClassRef(lmod, lcls), {}, "backend"), "_calc_stability_index"), [lam], {}))
    chk.check(sp.simplify(nu - (lam + 1 / lam) / 2) == 0, "C03.d", "hiten.algorithms.linalg.backend::_LinalgBackend._calc_stability_index",
              f"stability index of a complex eigenvalue is {nu}, expected (lambda + 1/lambda)/2", sample="nu(lambda) = (lambda + 1/lambda)/2 for complex lambda")
    # the cached monodromy / stability of an orbit are dropped when its period or state changes (rule C20.e on the orbit service)
    from . import c20
    from .common import Relabel
    c20._e_invalidation(Relabel(chk, {"C20.e": "C03.d-invalidation"}), c20._sites(), only_classes={"_OrbitDynamicsService"})
    # the variational system an orbit integrates for its monodromy is the one built for its own system's mu (two model systems
    # with equal body names in one interpreter: C01's wiring rule)
    from . import c01
    c01._system_wiring(Relabel(chk, {"C01.c": "C03.d-mu"}))
