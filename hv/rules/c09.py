"""C09 — centre-manifold points map to synodic states consistently in position and energy.

a  the two conversion chains are mirror images with inverse partners (stage tracing), direction fixed by the forward series
b  the 4 <-> 6 packing and every slot table denote one layout
c  a section point is lifted onto the requested energy level and section (residual = Re H(state) - h0, right slots)
d  restriction to the centre manifold zeroes exactly the monomials containing q1 or p1

a-series  the series the chains request realise H_cm = H o Phi and invert each other (C08.b/c for the partial normal form, re-filed)
a-cache   anything cached from the degree-dependent pipeline is keyed on / invalidated with the degree (C20.b/e on the CM service)

a-cache (round 3)  keys of the centre-manifold service contain every parameter whole (no rounding);  a-slots: partial and full series keep their own slot
d (round 3)  the restriction leaves its INPUT polynomial untouched (the earlier formulation compared the input with itself after the call: vacuous, repaired)
c-gamma (round 5)  C04.c solver exits re-filed
"""
from __future__ import annotations

import numpy as np
import sympy as sp

from ..core import Check, AnalysisError
from .. import repoindex as ri
from ..kpe import Interp, SymObj, ClassRef, FuncRef, to_obj_array, S, OutsideFragment, KpeRaise
from ..regions import RegionDecider
from .. import polyref as pr
from ..polyref import X

CS = "hiten.algorithms.types.services.center"
CI = "hiten.algorithms.poincare.centermanifold.interfaces"
MS = "hiten.algorithms.types.services.maps"
TR = "hiten.algorithms.hamiltonian.transforms"
COL = "hiten.system.libration.collinear"
TRI = "hiten.system.libration.triangular"

INVERSE_PARTNER = {"_solve_complex": "_solve_real", "_solve_real": "_solve_complex", "_coordrealmodal2local": "_coordlocal2realmodal",
                   "_coordlocal2realmodal": "_coordrealmodal2local", "local2synodic": "synodic2local", "synodic2local": "local2synodic",
                   "lie(inverse=False)": "lie(inverse=True)", "lie(inverse=True)": "lie(inverse=False)"}


def run(tier):
    chk = Check("C09", tier, "other",
                "Both conversion chains are interpreted with every stage replaced by a tagging stub: the stage sequences, their "
                "data flow, tolerances and mix_pairs are compared as mirror images through a frozen inverse-partner table whose "
                "pairs are proved inverse elsewhere (C18.c/d, C08.c); slot tables are extracted by interpreting the small "
                "packing functions on symbolic data; the energy-level lift is extracted as a term.",
                trusted_base=["python ast", "hv.kpe", "inverse partners: C18.c (M/M_inv, C/C_inv), C18.d (synodic<->local), C08.c (forward o inverse = id)"])
    # conversions that cache anything derived from the degree-dependent pipeline must key on / be invalidated with the degree
    from . import c20
    from .common import Relabel
    c20._b_keyed_state(Relabel(chk, {"C20.b": "C09.a-cache"}), c20._sites(), only_classes={"_CenterManifoldDynamicsService"})
    c20._e_invalidation(Relabel(chk, {"C20.e": "C09.a-cache"}), c20._sites(), only_classes={"_CenterManifoldDynamicsService"})
    c20._e_lazy_slots(Relabel(chk, {"C20.e": "C09.a-cache"}), only_classes={"_CenterManifoldDynamicsService"})
    # ... and on every parameter their factory reads, whole (a map cached under a rounded energy is served for another level)
    c20._b_key_params(Relabel(chk, {"C20.b": "C09.a-cache"}), [x for x in c20._sites() if x.cls.name == "_CenterManifoldDynamicsService"])
    # the partial-normal-form series the reduction uses sit in their own slot (the full normal form's series must not replace them)
    from . import c18
    c18.generating_function_slots(Relabel(chk, {"C18.b": "C09.a-slots"}))
    _a_chains(chk)
    _a_series(chk)
    _a_configure(chk)
    _b_tables(chk)
    _c_lift(chk)
    _d_restriction(chk)
    # the public facade binds every argument to the service parameter it is meant for (nominal swap rule, rules/common.py)
    from . import common as _common
    _common.facade_bindings(chk, "C09.a-facade", ['hiten.system.center', 'hiten.system.maps.center'], floor=15)
    # the synodic state is built around gamma: the bracketed solver exits only on an exact zero or its x-tolerance (the quintics are flat for small mass
    # ratios; an exit on |f| <= tol leaves the expansion point off the equilibrium and the energy discrepancy linear in r) - C04.c re-filed
    from . import c04 as _c04
    _c04._solver_exits(Relabel(chk, {"C04.c": "C09.c-gamma"}))
    return chk


def _a_series(chk):
    """The series the chains request from the pipeline are the ones that realise H_cm = H_physical o Phi and invert each other.

    Re-files the C08.b/c obligations for the partial normal form (generic Hamiltonian, degree 4, the keyword arguments
    HamiltonianPipeline.get_lie_expansions itself passes) under C09.a: with the opposite generator sign, a restricted
    series or a wrong application order the energy relation / the round trip fail at degree 3 or 4."""
    from . import c08
    from .common import Relabel
    c08._one_frequency(Relabel(chk, {"C08.a": "C09.a-series", "C08.b": "C09.a-series", "C08.c": "C09.a-series", "C08.d": "C09.a-series"}), 4, c08.FREQS[0], 0, kinds=("partial",))


def _service():
    mod, cls = ri.find_def(CS, "_CenterManifoldDynamicsService")
    return mod, cls


def _trace_chain(method, arg):
    mod, cls = _service()
    trace = []
    n = [0]

    def fresh():
        n[0] += 1
        return to_obj_array([sp.Symbol(f"v{n[0]}_{i}") for i in range(6)])

    def stage(name, pos_in=0):
        def f(ip, a, k):
            out = fresh()
            trace.append({"stage": name, "in": to_obj_array(a[pos_in]).copy(), "out": out, "tol": k.get("tol", a[pos_in + 1] if len(a) > pos_in + 1 else None), "mix": k.get("mix_pairs"),
                          "point": a[0] if pos_in == 1 else None})
            return out.copy()
        return f

    point = sp.Symbol("POINT")
    clmo = sp.Symbol("CLMO")

    def lie(inverse=False, tol=None):
        tag = sp.Symbol(f"EXP_{'inv' if inverse else 'fwd'}")
        trace.append({"stage": f"lie(inverse={bool(inverse)})", "in": None, "out": tag, "tol": tol, "mix": None})
        return tag

    def evaluate(ip, a, k):
        out = fresh()
        trace.append({"stage": "evaluate", "exp": a[0], "in": to_obj_array(a[1]).copy(), "out": out, "clmo": a[2], "tol": None, "mix": None})
        return out.copy()

    def l2s(p, c, tol):
        out = fresh()
        trace.append({"stage": "local2synodic", "in": to_obj_array(c).copy(), "out": out, "tol": tol, "mix": None, "point": p})
        return out.copy()

    def s2l(p, c, tol):
        out = fresh()
        trace.append({"stage": "synodic2local", "in": to_obj_array(c).copy(), "out": out, "tol": tol, "mix": None, "point": p})
        return out.copy()

    ov = {"_solve_complex": stage("_solve_complex"), "_solve_real": stage("_solve_real"), "_coordrealmodal2local": stage("_coordrealmodal2local", 1),
          "_coordlocal2realmodal": stage("_coordlocal2realmodal", 1), "_evaluate_transform": evaluate}
    svc = SymObj(ClassRef(mod, cls), {"_point": point, "_mix_pairs": (1, 2), "_local2synodic": l2s, "_synodic2local": s2l,
                                      "make_key": lambda *a: ("key",) + tuple(str(x) for x in a), "get_or_create": lambda key, factory: ip.apply(factory, [], {}),
                                      "pipeline": SymObj(None, {"get_lie_expansions": lie}, "pipeline"),
                                      "hamsys": SymObj(None, {"clmo": clmo, "clmo_H": clmo}, "hamsys"),
                                      "_restrict_to_center_manifold": lambda c: (trace.append({"stage": "restrict", "in": to_obj_array(c).copy(), "out": c, "tol": None, "mix": None}), c)[1]}, "svc")
    ip = Interp(overrides=ov)
    tol = sp.Symbol("TOL")
    out = ip.apply(ip.getattr(svc, method), [arg, tol], {})
    return trace, to_obj_array(out), tol


def _a_chains(chk):
    cm = to_obj_array([sp.Symbol(f"cm{i}", real=True) for i in range(4)])
    syn = to_obj_array([sp.Symbol(f"syn{i}", real=True) for i in range(6)])
    fwd, out_f, tol_f = _trace_chain("_cm_point_to_synodic_4d", cm)
    bwd, out_b, tol_b = _trace_chain("synodic_to_cm", syn)
    chk.count("functions partially evaluated", 2)
    c0 = f"{CS}::_CenterManifoldDynamicsService"
    names_f = [t["stage"] for t in fwd if t["stage"] not in ("evaluate", "restrict")]
    names_b = [t["stage"] for t in bwd if t["stage"] not in ("evaluate", "restrict")]
    mirror = [INVERSE_PARTNER.get(n) for n in reversed(names_f)]
    chk.check(mirror == names_b and len(names_f) == 5, "C09.a", c0 + "[mirror]",
              f"synodic_to_cm stages {names_b} are not the reverse of _cm_point_to_synodic_4d stages {names_f} with each stage replaced by its inverse partner {mirror}",
              sample=f"forward {names_f}; backward {names_b}")
    # direction: the stage that follows the centre-manifold coordinates uses the FORWARD series
    chk.check("lie(inverse=False)" in names_f and "lie(inverse=True)" in names_b, "C09.a", c0 + "[direction]",
              "cm -> synodic must use the forward coordinate series (normalised -> modal, the Phi with H_new = H_old o Phi) and synodic -> cm the inverse one",
              sample="forward chain: inverse=False; backward chain: inverse=True")
    # data flow: every stage consumes the previous stage's output; evaluate uses the series just requested and the hamsys layout
    for label, tr, start in (("_cm_point_to_synodic_4d", fwd, None), ("synodic_to_cm", bwd, to_obj_array([sp.Symbol(f"syn{i}", real=True) for i in range(6)]))):
        prev = start
        ok = True
        exp_tag = None
        for t in tr:
            if t["stage"].startswith("lie("):
                exp_tag = t["out"]
                continue
            if t["stage"] == "evaluate":
                ok = ok and t["exp"] == exp_tag and t["clmo"] == sp.Symbol("CLMO")
            if prev is not None:
                ok = ok and list(t["in"]) == list(prev)
            prev = t["out"]
        chk.check(ok, "C09.a", c0 + f".{label}[data flow]", f"a stage of {label} does not consume the previous stage's output (or evaluates a different series / layout)",
                  sample=f"{label}: {len(tr)} stages chained output -> input")
        tols = {str(t["tol"]) for t in tr if t["tol"] is not None}
        mixes = {tuple(t["mix"]) for t in tr if t["mix"] is not None}
        chk.check(tols == {"TOL"} and mixes == {(1, 2)}, "C09.a", c0 + f".{label}[tol,mix]", f"{label}: stages use tolerances {tols} and mix_pairs {mixes}; both chains must pass the "
                  f"caller's tol and the service's mix_pairs to every stage", sample="tol and mix_pairs identical in every stage", nontrivial=False)
    # 4 <-> 6 packing mirrors
    first_in = fwd[0]["in"]
    cmv = to_obj_array([sp.Symbol(f"cm{i}", real=True) for i in range(4)])
    ok = list(first_in) == [0, cmv[0], cmv[2], 0, cmv[1], cmv[3]]
    chk.check(ok, "C09.b", c0 + "._cm_point_to_synodic_4d[packing]", f"(q2,p2,q3,p3) is embedded as {list(first_in)}, expected (0,q2,q3,0,p2,p3)", sample="6-vector = (0, q2, q3, 0, p2, p3)")
    last = bwd[-1]["out"] if bwd[-1]["stage"] != "restrict" else bwd[-1]["in"]
    ok = list(out_b) == [last[1], last[4], last[2], last[5]]
    chk.check(ok, "C09.b", c0 + ".synodic_to_cm[unpacking]", f"centre-manifold coordinates are extracted as {list(out_b)}, expected slots [1],[4],[2],[5] = (q2,p2,q3,p3)",
              sample="(q2,p2,q3,p3) = r[1], r[4], r[2], r[5]")
    chk.check(list(out_f) == list(fwd[-1]["out"]) and fwd[-1]["stage"] == "local2synodic", "C09.a", c0 + "._cm_point_to_synodic_4d[result]",
              "the returned synodic state is not the output of the local->synodic stage", nontrivial=False)


def _a_configure(chk):
    mod, cls = _service()
    for kind, clsname, modname, want in (("L1", "L1Point", COL, "ok"), ("L2", "L2Point", COL, "ok"), ("L3", "L3Point", COL, "raise"), ("L4", "L4Point", TRI, "raise")):
        pm, pc = ri.find_def(modname, clsname)
        svc = SymObj(ClassRef(mod, cls), {"_point": SymObj(ClassRef(pm, pc), {}, kind)}, "svc")
        ip = Interp()
        try:
            ip.apply(ip.getattr(svc, "_configure_point"), [], {})
            outcome = "ok"
        except KpeRaise:
            outcome = "raise"
        ok = outcome == want
        if want == "ok" and ok:
            a, b = svc.attrs.get("_local2synodic"), svc.attrs.get("_synodic2local")
            ok = isinstance(a, FuncRef) and isinstance(b, FuncRef) and a.node.name == "_local2synodic_collinear" and b.node.name == "_synodic2local_collinear" \
                and tuple(svc.attrs.get("_mix_pairs", ())) == (1, 2)
        chk.check(ok, "C09.a", f"{CS}::_CenterManifoldDynamicsService._configure_point[{kind}]",
                  f"{kind}: point configuration {outcome}; maps {getattr(getattr(svc.attrs.get('_local2synodic'), 'node', None), 'name', None)}/"
                  f"{getattr(getattr(svc.attrs.get('_synodic2local'), 'node', None), 'name', None)}, mix {svc.attrs.get('_mix_pairs')}",
                  sample=f"{kind}: {'collinear pair bound together, mix (1,2)' if want == 'ok' else 'refused (NotImplementedError)'}")


def _b_tables(chk):
    ip = Interp()
    st_idx = ip.module_value(CI, "_STATE_INDEX")
    sec_tab = ip.module_value(CI, "_CM_SECTION_TABLE")
    want_idx = {"q2": 0, "p2": 1, "q3": 2, "p3": 3}
    chk.check({k: int(S(v)) for k, v in st_idx.items()} == want_idx, "C09.b", f"{CI}::_STATE_INDEX", f"4-vector layout is {st_idx}, expected (q2,p2,q3,p3)", sample=str(want_idx))
    want_plane = {"q3": ("q2", "p2"), "p3": ("q2", "p2"), "q2": ("q3", "p3"), "p2": ("q3", "p3")}
    got_plane = {k: tuple(v["plane_coords"]) for k, v in sec_tab.items()}
    chk.check(got_plane == want_plane, "C09.b", f"{CI}::_CM_SECTION_TABLE", f"plane coordinates per section: {got_plane}", sample=str(want_plane))
    # build_state for every section: plane values and other values land in their own slots, section coordinate zero
    mod, cls = ri.find_def(CI, "_CenterManifoldSectionInterface")
    a, b, c, d = sp.symbols("A B C D")
    for sec in ("q3", "p3", "q2", "p2"):
        fn = next(f for f in cls.body if getattr(f, "name", "") == "build_state")
        out = Interp().apply(FuncRef(mod, fn, qual="build_state"), [sec, (a, b), (c, d)], {})
        vals = dict(zip(("q2", "p2", "q3", "p3"), out))
        plane = want_plane[sec]
        other = ("q3", "p3") if plane == ("q2", "p2") else ("q2", "p2")
        exp = {plane[0]: a, plane[1]: b, other[0]: c, other[1]: d}
        exp[sec] = 0
        chk.check(all(S(vals[k]) == S(exp[k]) for k in exp), "C09.b", f"{CI}::_CenterManifoldSectionInterface.build_state[{sec}]",
                  f"section {sec}: state (q2,p2,q3,p3) = {out}, expected {exp}", sample=f"{sec}: {exp}")
    # maps service state_map and solve_missing_coord var_indices: read as literals from the AST
    import ast
    for modname, fname, varname, want in ((MS, "get_points_with_4d_states", "state_map", want_idx), (CI, "solve_missing_coord", "var_indices", {"q1": 0, "q2": 1, "q3": 2, "p1": 3, "p2": 4, "p3": 5})):
        m = ri.need_module(modname)
        found = None
        for q, fn in ri.functions_in(m):
            if fn.name == fname:
                for st in ast.walk(fn):
                    if isinstance(st, ast.Assign) and isinstance(st.targets[0], ast.Name) and st.targets[0].id == varname and isinstance(st.value, ast.Dict):
                        found = {k.value: v.value for k, v in zip(st.value.keys, st.value.values) if isinstance(k, ast.Constant) and isinstance(v, ast.Constant)}
        if found is None:
            raise AnalysisError(f"anchor: {varname} in {modname}::{fname} not found")
        chk.check(found == want, "C09.b", f"{modname}::{fname}[{varname}]", f"{varname} = {found}, expected {want}", sample=str(want))
    # backend slots (_poincare_step packing and _detect_crossing): shared with C14.d
    from .c14 import backend_slots
    backend_slots(chk, "C09.b")


def _c_lift(chk):
    mod, cls = ri.find_def(CI, "_CenterManifoldInterface")
    iface = SymObj(ClassRef(mod, cls), {}, "iface")
    u, v = sp.symbols("U V", real=True)
    h0 = sp.Symbol("h0", real=True)
    partner = {"q3": "p3", "p3": "q3", "q2": "p2", "p2": "q2"}
    for sec in ("q3", "p3", "q2", "p2"):
        cap = {}

        def solve(varname, fixed, **kw):
            cap.update({"var": varname, "fixed": dict(fixed), "kw": kw})
            return sp.Symbol("ROOT")

        iface.attrs["solve_missing_coord"] = solve
        ip = Interp()
        out = ip.apply(ip.getattr(iface, "lift_plane_point"), [(u, v)], {"section_coord": sec, "h0": h0, "H_blocks": sp.Symbol("HB"), "clmo_table": sp.Symbol("CL")})
        plane = ("q2", "p2") if sec in ("q3", "p3") else ("q3", "p3")
        vals = dict(zip(("q2", "p2", "q3", "p3"), out))
        exp = {plane[0]: u, plane[1]: v, sec: 0, partner[sec]: sp.Symbol("ROOT")}
        ok = cap.get("var") == partner[sec] and {k: S(x) for k, x in cap.get("fixed", {}).items()} == {sec: 0, plane[0]: u, plane[1]: v} \
            and cap["kw"].get("h0") == h0 and cap["kw"].get("H_blocks") == sp.Symbol("HB") and all(S(vals[k]) == S(exp[k]) for k in exp)
        chk.check(ok, "C09.c", f"{CI}::_CenterManifoldInterface.lift_plane_point[{sec}]",
                  f"section {sec}: solves {cap.get('var')} with constraints {cap.get('fixed')} at h0={cap.get('kw', {}).get('h0')}, returns {out}; expected the conjugate "
                  f"{partner[sec]} solved on the requested energy with {sec}=0 and the plane values in their slots", sample=f"{sec}: solve {partner[sec]}; state {exp}")
    chk.count("functions partially evaluated", 4)
    # the residual is Re H(state) - h0 with the variable in its own slot
    iface2 = SymObj(ClassRef(mod, cls), {}, "iface")
    got = {}

    def brent(ip_, a, k):
        got["residual"] = a[0]
        return sp.Symbol("ROOTB")

    def peval(ip_, a, k):
        st = to_obj_array(a[1])
        return sp.Function("Hval")(*[S(x) for x in st]) + sp.I * sp.Symbol("junk", real=True)

    ip = Interp(overrides={"solve_bracketed_brent": brent, "_polynomial_evaluate": peval}, decide=lambda c: (False if isinstance(c, (sp.Gt, sp.Le, sp.Lt, sp.Ge)) else None))

    class Dec:
        def __init__(self):
            self.k = 0

        def __call__(self, c):
            self.k += 1
            # residual(0) > 0 ? no; r_b <= 0 ? no (so Brent is called right away); r_b > 0 ? yes
            if self.k == 1:
                return False
            if self.k == 2:
                return False
            return True

    ip.decide = Dec()
    root = ip.apply(ip.getattr(iface2, "solve_missing_coord"), ["p3", {"q3": sp.Integer(0), "q2": sp.Symbol("U"), "p2": sp.Symbol("V")}],
                    {"h0": h0, "H_blocks": sp.Symbol("HB"), "clmo_table": sp.Symbol("CL")})
    res = got.get("residual")
    ok = isinstance(res, FuncRef)
    if ok:
        xx = sp.Symbol("xx", real=True)
        val = S(ip.apply(res, [xx], {}))
        want = sp.re(sp.Function("Hval")(0, sp.Symbol("U"), 0, 0, sp.Symbol("V"), xx)) - h0
        hv = sp.Function("Hval")(0, sp.Symbol("U"), 0, 0, sp.Symbol("V"), xx)
        ok = sp.simplify(val - (sp.re(hv + sp.I * sp.Symbol("junk", real=True)) - h0)) == 0 or sp.simplify(val - want) == 0
    chk.check(ok and root == sp.Symbol("ROOTB"), "C09.c", f"{CI}::_CenterManifoldInterface.solve_missing_coord[residual]",
              "the energy-level residual is not Re H(q1=0,q2,q3,p1=0,p2,p3 with the unknown in its own slot) - h0, or the Brent root is not what is returned",
              sample="residual(x) = Re H(state with state[idx(var)] = x) - h0; returns Brent's root")
    # _to_real_4d_cm passes its own energy and section
    mmod = ri.need_module(MS)
    mcls = next(c for c in mmod.tree.body if getattr(c, "name", "") and any(getattr(f, "name", "") == "_to_real_4d_cm" for f in getattr(c, "body", [])))
    cap2 = {}

    def lift(plane, **kw):
        cap2.update(kw)
        cap2["plane"] = plane
        return (sp.Symbol("s0"), sp.Symbol("s1"), sp.Symbol("s2"), sp.Symbol("s3"))

    ifc = SymObj(None, {"plane_labels": lambda s: ("q2", "p2"), "lift_plane_point": lift}, "iface")
    svc = SymObj(ClassRef(mmod, mcls), {"generator": SymObj(None, {"_get_interface": lambda: ifc}, "gen"), "energy": sp.Symbol("ENERGY"),
                                        "hamsys": SymObj(None, {"poly_H": lambda: sp.Symbol("HB"), "clmo_table": sp.Symbol("CL")}, "hs")}, "mapsvc")
    out = Interp().apply(Interp().getattr(svc, "_to_real_4d_cm"), [to_obj_array([u, v]), "q3"], {})
    ok = cap2.get("section_coord") == "q3" and cap2.get("h0") == sp.Symbol("ENERGY") and tuple(cap2.get("plane", ())) == (u, v) and list(to_obj_array(out)) == [sp.Symbol(f"s{i}") for i in range(4)]
    chk.check(ok, "C09.c", f"{MS}::{mcls.name}._to_real_4d_cm", f"section point is lifted with {cap2}; expected the map's own energy and the requested section", sample="lift_plane_point(pt, section_coord, h0=self.energy)")
    chk.count("functions partially evaluated", 3)


def _d_restriction(chk):
    N = 3
    psi, clmo, enc = pr.tables(N)
    poly = [pr.generic_arr("r", d, psi, None if d <= 2 else set(range(0, 56, 3))) for d in range(N + 1)]
    pm_, pc_ = ri.find_def(COL, "L1Point")
    point = SymObj(ClassRef(pm_, pc_), {}, "L1")
    ip = Interp(decide=pr.generic_decide, max_depth=30)
    full = sp.Poly(sp.expand(pr.list_to_expr(poly, clmo)), *X)     # the source polynomial BEFORE the call
    try:
        out = ip.call_function(TR, "_restrict_poly_to_center_manifold", [point, poly, clmo, sp.Integer(-1)])
    except OutsideFragment as exc:
        raise AnalysisError(f"_restrict_poly_to_center_manifold outside fragment: {exc}")
    got = sp.expand(pr.list_to_expr(out, clmo))
    want = sum((cf * pr.monomial(m) for m, cf in full.terms() if m[0] == 0 and m[3] == 0), sp.Integer(0))
    chk.check(sp.expand(got - want) == 0, "C09.d", f"{TR}::_restrict_poly_to_center_manifold",
              "restriction does not zero exactly the monomials with k_q1 != 0 or k_p1 != 0", sample="keep iff k_q1 = k_p1 = 0")
    chk.check(sp.expand(pr.list_to_expr(poly, clmo) - full.as_expr()) == 0, "C09.d", f"{TR}::_restrict_poly_to_center_manifold[input]",
              "the restriction zeroes coefficients of its INPUT blocks in place: the cached source Hamiltonian (complex_partial_normal) loses its hyperbolic terms once a "
              "centre-manifold form has been requested", sample="input polynomial unchanged after the call")
    chk.count("functions partially evaluated")
