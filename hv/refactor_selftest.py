"""Self-test of the other direction: behaviour-preserving edits of /repo must NOT be reported.

usage: python3-vt hv/refactor_selftest.py
Each case is one textual edit (applied to a scratch copy of /repo/src, see hv/mutate.py) that leaves hiten's behaviour
unchanged - a local introduced, a flag variable, a reordered key, a mirrored comparison, a helper call - together with the
checks whose rules look at that code.  Expected: every check exits 0.  Exit status 1 if one reports a violation, 2 if one
ends in ANALYSIS-ERROR (tolerated by the interface, listed so that the fragment can be widened)."""
import sys, os
sys.path.insert(0, os.path.dirname(os.path.dirname(os.path.abspath(__file__))))
from hv.mutate import run_mutant

CASES = [
    # round 3/4 rules: behaviour-preserving variants of the code they look at
    ("algorithms/connections/interfaces.py", "            direction=config.direction,\n            delta_v_tol=options.delta_v_tol,",
     "            direction=getattr(config, 'direction'),\n            delta_v_tol=options.delta_v_tol,", ["C19"], 1),
    ("algorithms/poincare/synodic/interfaces.py", "            interp_kind=getattr(config.interp_kind, \"interp_kind\", config.interp_kind),",
     "            interp_kind=(config.interp_kind.interp_kind if hasattr(config.interp_kind, 'interp_kind') else config.interp_kind),", ["C15"], 1),
    ("algorithms/continuation/interfaces.py", "            step_min=float(problem.step_min),", "            step_min=float(getattr(problem, 'step_min')),", ["C13"], 1),
    ("algorithms/types/services/system.py", "            return rtbp_dynsys(self.mu, name=self._make_dynsys_name(\"rtbp\"))",
     "            mu = self.mu\n            return rtbp_dynsys(mu, name=self._make_dynsys_name(\"rtbp\"))", ["C01", "C03"], 1),
    ("algorithms/types/services/orbits.py", "        self._continuation_config = value\n        self._generator = None  # Invalidate cache to trigger recreation\n        self.reset()",
     "        self.reset()\n        self._continuation_config = value\n        self._generator = None", ["C20", "C13"], 1),
    ("algorithms/types/services/maps.py", "        section_offset = section_offset if section_offset is not None else self.map_config.section_offset",
     "        if section_offset is None:\n            section_offset = self.map_config.section_offset", ["C20", "C15"], 1),
    ("algorithms/corrector/interfaces.py", "            tol=problem.tol,", "            tol=getattr(problem, 'tol'),", ["C05"], 1),
    ("algorithms/linalg/backend.py", "        return cleaned_vals, cleaned_vecs", "        out_vals, out_vecs = cleaned_vals, cleaned_vecs\n        return out_vals, out_vecs", ["C12"], 1),
    ("utils/io/system.py", "    obj.__dict__.update(tmp.__dict__)", "    loaded = tmp.__dict__\n    obj.__dict__.update(loaded)", ["C20", "C04"], 1),
    ("algorithms/dynamics/rtbp.py", "    r3 = r2**1.5\n    r5 = r2**2.5", "    r5 = r2*r2*np.sqrt(r2)\n    r3 = r2*np.sqrt(r2)", ["C01", "C03"], 1),
    ("algorithms/dynamics/rtbp.py", "    mu2 = 1.0 - mu", "    mu2 = -(mu - 1.0)", ["C01", "C03"], 2),
    ("algorithms/corrector/backends/newton.py", "            if r_norm < tol:", "            converged = bool(r_norm < tol)\n            if converged:", ["C05"], 1),
    ("algorithms/corrector/stepping/armijo.py", "                alpha *= self.alpha_reduction", "                alpha = alpha * self.alpha_reduction", ["C05"], 1),
    ("algorithms/poincare/singlehit/backend.py", "        integrator = RungeKutta(order=853, rtol=1e-12, atol=1e-12)",
     "        tol_int = 1e-12\n        integrator = RungeKutta(order=853, rtol=tol_int, atol=tol_int)", ["C05"], 1),
    ("algorithms/poincare/synodic/backend.py", "        cross_mask = (g0 < 0.0) & (g1 >= 0.0)", "        cross_mask = np.logical_and(g0 < 0.0, g1 >= 0.0)", ["C15"], 1),
    ("algorithms/poincare/synodic/backend.py", "            if abs(th - prev.time) <= dedup_time_tol:\n                continue",
     "            same_time = abs(th - prev.time) <= dedup_time_tol\n            if same_time:\n                continue", ["C15"], 1),
    ("algorithms/dynamics/base.py", "        cache_key = (id(base_rhs), self._fwd, flip_key)", "        cache_key = (self._fwd, flip_key, id(base_rhs))", ["C03", "C10"], 1),
    ("algorithms/utils/rootfinding.py", "        if abs(m) <= tol:\n            return b", "        done = abs(m) <= tol\n        if done:\n            return b", ["C04"], 1),
    ("algorithms/types/services/orbits.py", "return _compute_monodromy(self.var_dynsys, self.initial_state, self.period)",
     "x0 = self.initial_state\n            return _compute_monodromy(self.var_dynsys, x0, self.period)", ["C03"], 1),
    ("algorithms/types/services/orbits.py",
     "            self._trajectory = None\n            self._stability_info = None\n            self.reset()\n\n    @property\n    def trajectory",
     "            self._invalidate_period_dependents()\n\n    def _invalidate_period_dependents(self):\n        self._trajectory = None\n        self._stability_info = None\n        self.reset()\n\n    @property\n    def trajectory",
     ["C20", "C03"], 1),
    ("algorithms/poincare/centermanifold/engine.py", "                h0=problem.energy,", "                h0=getattr(problem, 'energy'),", ["C14"], 1),
    ("algorithms/integrators/rk.py", "            h = t_vals[idx + 1] - t_n", "            t_next = t_vals[idx + 1]\n            h = t_next - t_n", ["C02", "C10"], 4),
    ("algorithms/types/services/manifold.py", "        x0W = fracH + d * MAN.real", "        shift = d * MAN.real\n        x0W = fracH + shift", ["C12"], 1),
    ("algorithms/connections/backends.py", "            if ii == i and vi == vj:\n                pairs.append((i, j))",
     "            mutual = (ii == i) and (vi == vj)\n            if mutual:\n                pairs.append((i, j))", ["C19"], 1),
    ("algorithms/integrators/symplectic.py", "        gamma = 1.0 / (2.0 - 2.0**(1.0 / (float(order) + 1.0)))",
     "        expo = 1.0 / (float(order) + 1.0)\n        gamma = 1.0 / (2.0 - 2.0**expo)", ["C16"], 1),
    ("algorithms/continuation/backends/pc.py", "attempt += 1", "attempt = attempt + 1", ["C13"], 1),
    ("algorithms/polynomial/base.py", "            d_map[np.int64(packed_val)] = np.int32(i)", "            d_map[np.int64(packed_val)] = np.int64(i)", ["C06"], 1),
    ("algorithms/hamiltonian/lie.py", "        coeff = 1.0 / factorials[k]", "        coeff = 1.0 / float(factorials[k])", ["C08"], 1),
    ("algorithms/types/services/base.py", "        if key is None:\n            self._cache.clear()\n        else:\n            self._cache.pop(key, None)",
     "        if key is not None:\n            self._cache.pop(key, None)\n        else:\n            self._cache.clear()", ["C20"], 1),
]


def main():
    worst = 0
    for rel, old, new, checks, count in CASES:
        res = run_mutant(rel, old, new, checks, count=count)
        codes = [(c, rc) for c, rc, _ in res]
        bad = [(c, rc) for c, rc in codes if rc != 0]
        print(("ok      " if not bad else "REPORTED" if any(rc == 1 or rc == 99 for _, rc in bad) else "analysis"), rel, repr(old[:50]), codes)
        for c, rc, txt in res:
            if rc != 0:
                for l in txt.splitlines():
                    if l.startswith(("  violated", "ANALYSIS")) or "pattern not found" in l:
                        print("         ", l[:240])
        for _, rc in bad:
            worst = max(worst, 1 if rc in (1, 99) else 2)
    return worst


if __name__ == "__main__":
    sys.exit(main())
