"""Regenerates the `<!-- built:Cxx --> ... <!-- /built -->` blocks of /verif/DESIGN.md from each rule module's docstring and
the evidence file of the last quick run (`./run_all.sh quick` first).   usage: python3 hv/design_blocks.py"""
import ast, json, os, re

ROOT = os.path.dirname(os.path.dirname(os.path.abspath(__file__)))
path = os.path.join(ROOT, "DESIGN.md")
text = open(path).read()
n = 0
for i in range(1, 21):
    pid = f"C{i:02d}"
    mod = os.path.join(ROOT, "hv", "rules", f"c{i:02d}.py")
    doc = ast.get_docstring(ast.parse(open(mod).read())) or ""
    body = "\n".join(doc.split("\n")[1:]).strip("\n")
    ev = json.load(open(os.path.join(ROOT, "evidence", f"{pid}.json")))
    cov = ev["coverage"]
    kf = len(cov.get("known_findings_hit", []))
    inst = ", ".join(f"{k}: {v}" for k, v in sorted(cov.get("rule_instances", {}).items()))
    block = (f"<!-- built:{pid} -->\n**Built** (`hv/rules/c{i:02d}.py`; quick tier: {cov['obligations']} obligations, {cov['discharged']} discharged"
             + (f", {kf} known finding(s)" if kf else "") + f"; level `{ev['level']['category'] if isinstance(ev.get('level'), dict) else ev.get('level')}`). "
             "What the check decides, from the rule module's own summary:\n\n```\n" + body + "\n```\n\n"
             f"Rule instances on the current tree: {inst}.\n<!-- /built -->")
    pat = re.compile(rf"<!-- built:{pid} -->.*?<!-- /built -->", re.S)
    if pat.search(text):
        text = pat.sub(lambda m: block, text, count=1)
        n += 1
open(path, "w").write(text)
print(n, "blocks regenerated")
