"""C12 — manifold seeds lie on the true stable/unstable Floquet directions.

a  the matrix that is classified / transported is a forward-time transition matrix of the orbit
b  orientation tables: |lambda|<1 -> stable lists, >1 -> unstable; pipeline tuple orders; branch selection
c  the seed formula  x0W = x(frac) + d/|MAN_pos| * Re(MAN),  MAN = direction * Phi(frac) eigvec
d  integration direction of the branches (stable backward, unstable forward, full negation)
e  a trajectory is kept only if neither the proximity nor the energy guard fired, energy = a first integral

b (added)  real eigenpairs are returned in eigen-solver order (order-abstract argsort at representative multipliers)
e (added)  options given to Manifold.compute reach _run_compute under their own names; default guards are not vacuous

e (round 3)  the measured drift is max|C_i - C_0|/|C_0| of the Jacobi constant (exact on-axis histories: up, down, mixed, negative, vanishing reference)
b-pipeline (round 3)  two manifold services never hold the same (stateful) stability pipeline object
b (round 4)  the cleaning step keeps the eigen-solver order and the value/vector pairing (non-monotone moduli)
b (round 5)  the engine path that really runs (_invoke_backend; _LinalgBackend.run is dead code) hands matrix, delta, tol, system type to the backend and labels the six outputs
d (round 5)  a negative integration fraction is rejected before anything is propagated (the time direction is the branch's, not the sign of the span)
"""
from __future__ import annotations

import ast
import itertools

import numpy as np
import sympy as sp

from ..core import Check, AnalysisError
from .. import repoindex as ri
from .. import sites
from ..kpe import Interp, SymObj, ClassRef, FuncRef, UFunc, Opaque, to_obj_array, S, OutsideFragment, KpeRaise
from ..alg import Radicals, is_zero, short
from ..regions import RegionDecider
from . import common

MAN = "hiten.algorithms.types.services.manifold"
LIB = "hiten.algorithms.types.services.libration"
LBACK = "hiten.algorithms.linalg.backend"
LBASE = "hiten.algorithms.linalg.base"
LTYPES = "hiten.algorithms.linalg.types"
RTBP = "hiten.algorithms.dynamics.rtbp"
BASE = "hiten.algorithms.dynamics.base"


def run(tier):
    chk = Check("C12", tier, "other",
                "Seed construction, eigenvalue classification and branch selection are interpreted from the syntax "
                "trees with symbolic data (kpe); comparison-only classification code is evaluated exhaustively over the "
                "order-abstract regions of |lambda| vs 1-delta/1+delta (and Re lambda vs -delta/+delta); guards of the "
                "retention filter are enumerated over their four outcome combinations; call-site rules fix which "
                "transition matrix is classified.",
                trusted_base=["python ast", "hv.kpe", "Floquet theory: Phi(t) maps eigenvectors of M(x0) to eigenvectors of M(x(t))"])
    _a_forward_matrix(chk)
    _b_classification(chk)
    _b_pipeline_orders(chk)
    _bcde_run_compute(chk)
    _c_seed_formula(chk)
    _d_direction(chk)
    _e_forwarding(chk)
    _e_energy_measure(chk)
    _b_private_pipeline(chk)
    _b_clean_keeps_order(chk)
    # a cached manifold is the one computed with the requested guards; every integration method gets the direction-wrapped system
    from . import c20, c10
    from .common import Relabel
    c20._b_key_params(Relabel(chk, {"C20.b": "C12.e-cache"}), [x for x in c20._sites() if x.mod.name.endswith("services.manifold")])
    c10._a_propagate(Relabel(chk, {"C10.a": "C12.d-propagate", "C10.b": "C12.d-propagate", "C10.d": "C12.d-propagate"}))
    # the public facade binds every argument to the service parameter it is meant for (nominal swap rule, rules/common.py)
    from . import common as _common
    _common.facade_bindings(chk, "C12.e-facade", ['hiten.system.manifold'], floor=1)
    return chk


PARAMS = ("step", "integration_fraction", "NN", "displacement", "method", "order", "dt", "energy_tol", "safe_distance")


def _b_clean_keeps_order(chk):
    """The eigenpairs reach the classification in eigen-solver order, each value with its own vector: the cleaning step
    (_sort_eigenvalues: zero tiny imaginary parts, pivot-normalise) is interpreted on a concrete spectrum whose moduli are NOT
    monotone - (1/2000, 999/1000, 2000, 1001/1000): the genuine stable multiplier first, the numerically split unit pair behind it,
    as LAPACK returns them for the Lyapunov / halo orbits - and must return the same values in the same order, vector k a multiple
    of input vector k.  (Manifold.compute(NN=1) takes the FIRST stable pair; sorting by modulus puts the near-unit multiplier first
    and seeds the stable branch along the flow tangent.)"""
    LB = "hiten.algorithms.linalg.backend"
    mod, cls = ri.find_def(LB, "_LinalgBackend")
    R = sp.Rational
    vals = [R(1, 2000), R(999, 1000), R(2000), R(1001, 1000)]
    V = sp.Matrix([[2, 1, 3, -1], [1, -2, 1, 4], [0, 3, -2, 1], [5, 1, 1, 2]])
    obj = SymObj(ClassRef(mod, cls), {}, "backend")
    ip = Interp()
    try:
        cv, cw = ip.apply(ip.getattr(obj, "_sort_eigenvalues"), [to_obj_array(vals), to_obj_array(V.tolist())], {})
    except OutsideFragment as exc:
        raise AnalysisError(f"_LinalgBackend._sort_eigenvalues outside fragment: {exc}")
    chk.count("functions partially evaluated")
    cv = [sp.nsimplify(S(v)) for v in to_obj_array(cv)]
    W = sp.Matrix(to_obj_array(cw).tolist()).applyfunc(lambda e: sp.nsimplify(S(e)))
    chk.check(cv == vals, "C12.b", f"{LB}::_LinalgBackend._sort_eigenvalues[order]",
              f"the cleaned eigenvalues are {cv} for the input {vals}: the eigen-solver order is not preserved (the first stable multiplier is no longer the genuine one)",
              sample=f"{vals} -> same order")
    ok = W.shape == V.shape and all(sp.Matrix.hstack(W[:, k], V[:, k]).rank() == 1 for k in range(4))
    chk.check(ok, "C12.b", f"{LB}::_LinalgBackend._sort_eigenvalues[pairing]",
              "a cleaned eigenvector is not a multiple of the input eigenvector in the same column: values and vectors are no longer paired",
              sample="column k of the output is a multiple of column k of the input")


def _b_private_pipeline(chk):
    """The eigenvectors a manifold reads are those of its own orbit's monodromy: compute_stability() hands out the stability
    pipeline object itself (it holds the last decomposition), so two manifold services must never hold the same pipeline
    object.  Two model services ask for `generator` in one interpreter (module-level state persists), the pipeline
    constructor is stubbed to return a fresh object per call; the two results must be different objects, and a second
    access on the same service returns the first."""
    mod, cls = ri.find_def(MAN, "_ManifoldDynamicsService")
    made = []

    def ctor(ip_, a, k):
        o = SymObj(None, {"config": k.get("config", a[0] if a else None)}, f"pipeline{len(made)}")
        made.append(o)
        return o

    cfg = SymObj(None, {}, "frozen-config")
    ip = Interp(overrides={"with_default_engine": ctor})
    got = {}
    for tag in ("A", "B"):
        svc = SymObj(ClassRef(mod, cls), {"_generator": None, "eigendecomposition_config": cfg, "_eigendecomposition_config": cfg,
                                         "domain_obj": SymObj(None, {}, f"manifold{tag}"), "_domain_obj": SymObj(None, {}, f"manifold{tag}")}, f"svc{tag}")
        try:
            got[tag] = (ip.getattr(svc, "generator"), ip.getattr(svc, "generator"))
        except OutsideFragment as exc:
            raise AnalysisError(f"_ManifoldDynamicsService.generator outside fragment: {exc}")
    chk.count("functions partially evaluated")
    if not made:
        raise AnalysisError("anchor: _ManifoldDynamicsService.generator no longer builds a StabilityPipeline")
    c = f"{MAN}::_ManifoldDynamicsService.generator"
    chk.check(got["A"][0] is got["A"][1] and got["B"][0] is got["B"][1], "C12.b-pipeline", c + "[stable slot]",
              "two reads of generator on one service give different pipeline objects: the decomposition computed on the first is lost",
              sample="svc.generator is svc.generator")
    chk.check(got["A"][0] is not got["B"][0], "C12.b-pipeline", c + "[private]",
              "two manifold services with equal configuration hold the same stability pipeline object: the pipeline keeps its last "
              "decomposition and compute_stability() returns the pipeline itself, so one manifold reads the eigenvectors of the "
              "other's orbit", sample="svcA.generator is not svcB.generator (equal frozen config)")


def _e_energy_measure(chk):
    """What the retention filter compares with energy_tol is max_i |C_i - C_0| / |C_0| (absolute when |C_0| <= 1e-14), with
    C the Jacobi constant of the field: _max_rel_energy_error is interpreted on concrete three-sample histories of the
    Jacobi value (the nested formula abstracted to a projection) covering upward, downward and mixed drift, a negative
    and a vanishing reference; the nested formula itself is decided against the field (zero Lie derivative)."""
    R = sp.Rational
    ENERGY = common.ENERGY
    mu0 = R(1, 10)
    # states on the x axis (r1, r2 rational): the Jacobi value is x^2 + 2(mu1/r1 + mu2/r2) - v^2, exactly K = 15/4 - v^2 at x = 1/2
    K = R(1, 4) + 2 * (R(9, 10) / R(3, 5) + R(1, 10) / R(2, 5))
    hist = {"upward drift": (1, R(1, 2), R(3, 4)), "downward drift": (R(1, 2), 1, R(3, 4)), "mixed, down larger": (1, R(3, 4), 2),
            "negative reference": (R(5, 2), 3, R(9, 4)), "no drift": (1, 1, 1), "later sample larger": (1, R(3, 4), R(1, 4)), "single sample": (1,)}
    for name, vs in hist.items():
        states = np.empty((len(vs), 6), dtype=object)
        for i, v in enumerate(vs):
            states[i, :] = [R(1, 2), S(0), S(0), S(v), S(0), S(0)]
        cs = [K - S(v) ** 2 for v in vs]
        try:
            got = S(Interp().call_function(ENERGY, "_max_rel_energy_error", [states, mu0]))
        except OutsideFragment as exc:
            raise AnalysisError(f"_max_rel_energy_error outside fragment: {exc}")
        devs = [abs(c - cs[0]) for c in cs[1:]] or [S(0)]
        want = max(devs) / abs(cs[0])
        chk.check(sp.simplify(got - want) == 0, "C12.e", f"{ENERGY}::_max_rel_energy_error[{name}]",
                  f"Jacobi history {cs}: the measured drift is {got}, the largest relative deviation from the first sample is {want}: "
                  f"a trajectory whose Jacobi constant leaves the tolerance is retained (or a good one dropped)",
                  sample=f"Jacobi history {cs} -> {want}")
    # vanishing reference (absolute deviation): reachable only by abstracting the nested formula to a projection
    used = []

    def proj(ip_, a, k):
        used.append(1)
        return a[0]

    cs = (0, R(-1, 8), R(1, 16))
    states = np.empty((3, 6), dtype=object)
    for i, c in enumerate(cs):
        states[i, :] = [S(c), R(1, 3 + i), R(1, 5 + i), R(1, 7), R(-1, 9), R(1, 11)]
    got = S(Interp(overrides={"_jacobi": proj}).call_function(ENERGY, "_max_rel_energy_error", [states, mu0]))
    if used:
        chk.check(sp.simplify(got - R(1, 8)) == 0, "C12.e", f"{ENERGY}::_max_rel_energy_error[vanishing reference]",
                  f"Jacobi history {cs}: the measured drift is {got}, the largest absolute deviation is 1/8", sample=f"Jacobi history {cs} -> 1/8")
    else:
        chk.note("C12.e: the Jacobi formula is no longer a nested helper; the vanishing-reference case is not reachable with exact data")
    chk.count("functions partially evaluated")
    # the nested formula is the Jacobi constant of the field (same decision as C01.d, on the same construct)
    from . import c01
    st = sp.symbols("x y z vx vy vz", real=True)
    mu = sp.Symbol("mu", positive=True)
    c = common.jacobi_of_filter(st, mu)
    x, y, z, vx, vy, vz = st
    r1 = sp.sqrt((x + mu) ** 2 + y ** 2 + z ** 2)
    r2 = sp.sqrt((x - 1 + mu) ** 2 + y ** 2 + z ** 2)
    ref = x ** 2 + y ** 2 + 2 * ((1 - mu) / r1 + mu / r2) - (vx ** 2 + vy ** 2 + vz ** 2)
    d = sp.simplify(c - ref)
    chk.check(d.is_number and not d.has(sp.nan), "C12.e", f"{ENERGY}::_max_rel_energy_error._jacobi",
              f"the quantity whose drift is measured is not the Jacobi constant (up to an additive constant): differs by {short(d)}",
              sample="C = x^2 + y^2 + 2(1-mu)/r1 + 2mu/r2 - v^2 (+const)")


def _e_forwarding(chk):
    """The configured tolerances, displacement and sampling reach the kernel that applies them: facade -> service -> _run_compute."""
    fmod, fcls = ri.find_def("hiten.system.manifold", "Manifold")
    syms = {p: sp.Symbol(p.upper()) for p in PARAMS}
    syms["show_progress"] = sp.Symbol("SHOW")
    got = []

    def cm(**kw):
        got.append(kw)
        return sp.Symbol("RESULT")

    man = SymObj(ClassRef(fmod, fcls), {"dynamics": SymObj(None, {"compute_manifold": cm}, "dynamics")}, "manifold")
    ip = Interp()
    out = ip.apply(ip.getattr(man, "compute"), [], dict(syms))
    bad = [p for p in PARAMS if not got or got[0].get(p) != syms[p]]
    chk.check(len(got) == 1 and not bad and out == sp.Symbol("RESULT"), "C12.e", "hiten.system.manifold::Manifold.compute[forwarding]",
              f"options given to Manifold.compute do not reach the service under their own names: {bad} (got {got[:1]})",
              sample="compute(step, integration_fraction, NN, displacement, method, order, dt, energy_tol=, safe_distance=) -> dynamics.compute_manifold(same)")
    got.clear()
    ip = Interp()
    ip.apply(ip.getattr(man, "compute"), [], {})
    d = got[0] if got else {}
    chk.check(d.get("energy_tol") is not None and d.get("safe_distance") is not None and 0 < float(S(d["energy_tol"])) <= 1e-4 and float(S(d["safe_distance"])) >= 1.0,
              "C12.e", "hiten.system.manifold::Manifold.compute[defaults]",
              f"default retention guards are missing or vacuous: energy_tol={d.get('energy_tol')}, safe_distance={d.get('safe_distance')}",
              sample=f"defaults energy_tol={d.get('energy_tol')}, safe_distance={d.get('safe_distance')}", nontrivial=False)
    smod, scls = ri.find_def(MAN, "_ManifoldDynamicsService")
    ran = []

    def rc(**kw):
        ran.append(kw)
        return sp.Symbol("RUN")

    svc = SymObj(ClassRef(smod, scls), {"_run_compute": rc, "make_key": lambda *a: ("key",) + tuple(a), "get_or_create": lambda key, factory: ip2.apply(factory, [], {}),
                                        "orbit": sp.Symbol("ORBIT"), "stable": sp.Symbol("STABLE"), "direction": sp.Symbol("DIRN")}, "svc")
    ip2 = Interp()
    ip2.apply(ip2.getattr(svc, "compute_manifold"), [], dict(syms))
    bad = [p for p in PARAMS if not ran or ran[0].get(p) != syms[p]]
    chk.check(len(ran) == 1 and not bad, "C12.e", f"{MAN}::_ManifoldDynamicsService.compute_manifold[forwarding]",
              f"options do not reach _run_compute under their own names: {bad}", sample="compute_manifold(**options) -> _run_compute(same)")
    chk.count("functions partially evaluated", 3)


# --------------------------------------------------------------------------- a
def _a_forward_matrix(chk):
    mod = ri.need_module(MAN)
    _, fdef = ri.find_def(RTBP, "_compute_stm")
    n = 0
    for m, q, fn, call in sites.call_sites(RTBP, "_compute_stm", modules=[mod]):
        n += 1
        bound, extra, star = sites.bind_call(call, fdef)
        fwd = bound.get("forward")
        ok = fwd is None or sites.const_int(fwd) == 1
        chk.check(ok, "C12.a", f"{MAN}::{q}[_compute_stm.forward]",
                  f"the transition matrix whose spectrum is classified (|lambda|<1 => stable) and which transports the "
                  f"eigenvector is computed with forward={ast.unparse(fwd) if fwd is not None else 1}; it must be the "
                  f"forward-time matrix", sample=ri.norm_stmt(call)[:150])
        got = tuple(sites.arg_text(fn, bound[p.arg]) if p.arg in bound else None for p in fdef.args.args[:3])
        ok = got[0] == "self.var_dynsys" and got[1] in ("self.orbit.initial_state", "self.initial_state") and got[2] in ("self.period", "self.orbit.period")
        chk.check(ok, "C12.a", f"{MAN}::{q}[_compute_stm.args]", f"STM is not computed on the orbit's own variational system, state and period: {got}",
                  sample=str(got))
    chk.floor("_compute_stm sites in manifold service", n, 1)
    # phi_T handed to the eigen-decomposition is the third component of that same STM
    hit = 0
    for q, fn in ri.functions_in(mod):
        if fn.name != "_factory" or "compute_stability" not in q:
            continue
        unpack = None
        for st in ast.walk(fn):
            if isinstance(st, ast.Assign) and isinstance(st.targets[0], ast.Tuple) and isinstance(st.value, ast.Call) \
                    and ast.unparse(st.value.func) in ("self.compute_stm",):
                unpack = [t.id if isinstance(t, ast.Name) else None for t in st.targets[0].elts]
        for c in ast.walk(fn):
            if isinstance(c, ast.Call) and isinstance(c.func, ast.Attribute) and c.func.attr == "compute":
                arg = next((k.value for k in c.keywords if k.arg == "domain_obj"), c.args[0] if c.args else None)
                hit += 1
                ok = unpack is not None and isinstance(arg, ast.Name) and len(unpack) == 4 and unpack[2] == arg.id
                chk.check(ok, "C12.a", f"{MAN}::{q}[generator.compute]",
                          f"the matrix classified is not phi_T (third component) of compute_stm: {ri.norm_stmt(c)}",
                          sample=f"unpack={unpack}; {ri.norm_stmt(c)}")
    chk.floor("eigen-decomposition feeding sites", hit, 1)
    # period property = the orbit's period
    ip = Interp()
    mcls = ri.find_def(MAN, "_ManifoldDynamicsService")
    per = sp.Symbol("T_orbit")
    obj = SymObj(ClassRef(*mcls), {"orbit": SymObj(None, {"period": per}, "orbit")}, "svc")
    chk.check(ip.getattr(obj, "period") == per, "C12.a", f"{MAN}::_ManifoldDynamicsService.period",
              "the manifold's period is not the orbit's period")
    # system types
    for modname, want, anchor in ((MAN, "DISCRETE", "manifold"), (LIB, "CONTINUOUS", "libration")):
        m = ri.need_module(modname)
        cnt = 0
        for n_ in ast.walk(m.tree):
            if isinstance(n_, ast.keyword) and n_.arg == "system_type" and isinstance(n_.value, ast.Attribute) \
                    and ast.unparse(n_.value.value) == "_SystemType":
                cnt += 1
                chk.check(n_.value.attr == want, "C12.b-config", f"{modname}[system_type={n_.value.attr}]",
                          f"{anchor} service configures system_type={n_.value.attr}; a monodromy matrix needs DISCRETE, "
                          f"a vector-field Jacobian CONTINUOUS", sample=ast.unparse(n_.value))
        chk.floor(f"system_type configuration in {anchor} service", cnt, 1)


# --------------------------------------------------------------------------- b
def _backend_obj(system_type_name):
    mod, cls = ri.find_def(LBACK, "_LinalgBackend")
    st = Interp().module_value(LTYPES, "_SystemType")
    val = Interp().getattr(st, system_type_name)
    return SymObj(ClassRef(mod, cls), {"system_type": val}, "backend")


def _b_classification(chk):
    """_classify_eigenvalue over the order-abstract regions, both system types."""
    delta = sp.Rational(1, 10000)
    lam = sp.Symbol("lam", real=True)
    vec = to_obj_array([sp.Symbol(f"w{k}", real=True) for k in range(3)])
    cases = {
        "DISCRETE": [("stable", [sp.Rational(1, 2), sp.Rational(-1, 3), sp.Rational(9, 10)]),
                     ("center", [sp.Integer(1), sp.Integer(-1), 1 - delta, 1 + delta, 1 - delta / 2]),
                     ("unstable", [sp.Integer(2), sp.Rational(-7, 2), sp.Rational(11, 10)])],
        "CONTINUOUS": [("stable", [sp.Rational(-1, 2), sp.Integer(-3)]),
                       ("center", [sp.Integer(0), -delta, delta, delta / 2]),
                       ("unstable", [sp.Rational(1, 2), sp.Integer(4)])],
    }
    slot = {"stable": (1, 4), "unstable": (2, 5), "center": (3, 6)}
    for stype, regions in cases.items():
        for region, reps in regions:
            outcomes = []
            for rep in reps:
                dec = RegionDecider({lam: rep})
                ip = Interp(decide=dec)
                obj = _backend_obj(stype)
                res = ip.apply(ip.getattr(obj, "_classify_eigenvalue"), [lam, vec, delta], {})
                if not (isinstance(res, tuple) and len(res) == 7):
                    raise AnalysisError("_classify_eigenvalue does not return the 7-tuple the decomposition unpacks")
                filled = tuple(i for i in range(1, 7) if len(res[i]) > 0)
                vals_ok = all((res[i][0] == lam) if i <= 3 else (res[i][0] is vec or list(res[i][0]) == list(vec)) for i in filled)
                outcomes.append((filled, vals_ok))
            want = slot[region]
            ok = all(f == want and v for f, v in outcomes)
            chk.check(ok, "C12.b", f"{LBACK}::_LinalgBackend._classify_eigenvalue[{stype},{region}]",
                      f"{stype} eigenvalue in the {region} region is filed under tuple slots {outcomes[0][0]} instead of {want} "
                      f"(1/4 stable, 2/5 unstable, 3/6 centre)", sample=f"{stype}/{region}: reps={reps} -> slots {want}")
    chk.count("order-abstract evaluations", sum(len(r) for v in cases.values() for _, r in v))

    # eigenvalue_decomposition: the six outputs collect the matching tuple positions
    for stype, triple in (("DISCRETE", (sp.Rational(1, 3), sp.Integer(3), sp.Integer(1))),
                          ("CONTINUOUS", (sp.Integer(-2), sp.Integer(2), sp.Integer(0)))):
        vals = [sp.Symbol(f"ev{k}", real=True) for k in range(3)]
        V = np.empty((3, 3), dtype=object)
        for i in range(3):
            for j in range(3):
                V[i, j] = sp.Symbol(f"V{i}{j}", real=True)
        dec = RegionDecider(dict(zip(vals, triple)))
        ip = Interp(decide=dec)
        obj = _backend_obj(stype)
        obj.attrs["_compute_eigendecomposition"] = lambda A: (to_obj_array(vals), V)
        obj.attrs["_sort_eigenvalues"] = lambda a, b: (a, b)
        A = np.empty((3, 3), dtype=object)
        A.fill(sp.Symbol("a"))
        sn, un, cn, Ws, Wu, Wc = ip.apply(ip.getattr(obj, "eigenvalue_decomposition"), [A, delta], {})
        ok = list(sn) == [vals[0]] and list(un) == [vals[1]] and list(cn) == [vals[2]] and \
            [list(Ws[:, 0]), list(Wu[:, 0]), list(Wc[:, 0])] == [list(V[:, 0]), list(V[:, 1]), list(V[:, 2])]
        chk.check(ok, "C12.b", f"{LBACK}::_LinalgBackend.eigenvalue_decomposition[{stype}]",
                  f"decomposition does not return (stable, unstable, centre) values with their own eigenvector columns: "
                  f"sn={list(sn)}, un={list(un)}, cn={list(cn)}",
                  sample=f"{stype}: (stable,unstable,centre) eigenvalues -> (sn,un,cn), columns -> (Ws,Wu,Wc)")
    chk.count("functions partially evaluated", 2)


def _b_engine_invoke(chk, rule="C12.b"):
    """The engine (the path that really runs: _LinearStabilityEngine._invoke_backend; _LinalgBackend.run is not called by it) hands the
    request's matrix AND its classification band delta / pairing tolerance tol to the backend, and files the six outputs under their
    own names.  A dropped delta silently classifies with the backend's signature default (1e-4 instead of the caller's 1e-6)."""
    ENG_ = "hiten.algorithms.linalg.engine"
    emod, ecls = ri.find_def(ENG_, "_LinearStabilityEngine")
    ip = Interp()
    pt = ip.module_value(LTYPES, "_ProblemType")
    tags = {k: sp.Symbol(k) for k in ("SN", "UN", "CN", "WS", "WU", "WC")}
    A = np.empty((2, 2), dtype=object)
    A.fill(sp.Symbol("a"))
    seen = {}

    def eig(*a, **k):
        seen["eig"] = (a, k)
        return tuple(tags[k_] for k_ in ("SN", "UN", "CN", "WS", "WU", "WC"))

    def nu(*a, **k):
        seen["nu"] = (a, k)
        return (sp.Symbol("NU"), sp.Symbol("EIGVALS"), sp.Symbol("EIGVECS"))

    backend = SymObj(None, {"eigenvalue_decomposition": eig, "stability_indices": nu, "system_type": None}, "backend")
    eng = SymObj(ClassRef(emod, ecls), {"backend": backend, "_backend": backend}, "engine")
    req = SymObj(None, {"system_type": sp.Symbol("SYSTEM_TYPE"), "matrix": A, "metadata": {}, "delta": sp.Symbol("DELTA"), "tol": sp.Symbol("TOL"),
                        "problem_type": ip.getattr(pt, "ALL")}, "request")
    ipx = Interp(overrides={"EigenDecompositionResults": lambda ip_, a, k: SymObj(None, dict(zip(("stable", "unstable", "center", "Ws", "Wu", "Wc", "nu", "eigvals", "eigvecs"), a), **k), "results"),
                            "LinalgBackendResponse": lambda ip_, a, k: SymObj(None, dict(k), "response")})
    try:
        resp = ipx.apply(ipx.getattr(eng, "_invoke_backend"), [SymObj(None, {"request": req}, "call")], {})
    except OutsideFragment as exc:
        raise AnalysisError(f"_LinearStabilityEngine._invoke_backend outside fragment: {exc}")
    chk.count("functions partially evaluated")
    ea, ek = seen.get("eig", ((), {}))
    delta = ek.get("delta", ea[1] if len(ea) > 1 else None)
    chk.check(len(ea) >= 1 and ea[0] is A and delta == sp.Symbol("DELTA"), rule, f"{ENG_}::_LinearStabilityEngine._invoke_backend[delta]",
              f"the classification is run with delta = {delta} instead of the request's (the options' band; the backend's own default applies when none is passed)",
              sample="eigenvalue_decomposition(request.matrix, request.delta)")
    na, nk = seen.get("nu", ((), {}))
    tol = nk.get("tol", na[1] if len(na) > 1 else None)
    chk.check(len(na) >= 1 and na[0] is A and tol == sp.Symbol("TOL"), rule, f"{ENG_}::_LinearStabilityEngine._invoke_backend[tol]",
              f"the stability indices are computed with tol = {tol} instead of the request's", sample="stability_indices(request.matrix, request.tol)")
    chk.check(backend.attrs.get("system_type") == sp.Symbol("SYSTEM_TYPE"), rule, f"{ENG_}::_LinearStabilityEngine._invoke_backend[system type]",
              "the backend is not switched to the request's system type (continuous / discrete classification)", sample="backend.system_type = request.system_type")
    res = resp.attrs.get("results") if isinstance(resp, SymObj) else None
    want = {"stable": "SN", "unstable": "UN", "center": "CN", "Ws": "WS", "Wu": "WU", "Wc": "WC"}
    bad = {f: (res.attrs.get(f) if isinstance(res, SymObj) else None) for f, t in want.items() if not (isinstance(res, SymObj) and res.attrs.get(f) == tags[t])}
    chk.check(not bad, rule, f"{ENG_}::_LinearStabilityEngine._invoke_backend[results]", f"result fields mislabelled: {bad}",
              sample="results.stable/unstable/center/Ws/Wu/Wc <- (sn,un,cn,Ws,Wu,Wc)")


def _b_pipeline_orders(chk):
    """backend.run -> results fields; StabilityPipeline.eigenvalues/eigenvectors tuple orders."""
    _b_engine_invoke(chk)
    ip = Interp()
    pt = ip.module_value(LTYPES, "_ProblemType")
    tags = {k: sp.Symbol(k) for k in ("SN", "UN", "CN", "WS", "WU", "WC")}
    obj = _backend_obj("DISCRETE")
    obj.attrs["eigenvalue_decomposition"] = lambda A, d: tuple(tags[k] for k in ("SN", "UN", "CN", "WS", "WU", "WC"))
    A = np.empty((2, 2), dtype=object)
    A.fill(sp.Symbol("a"))
    req = SymObj(None, {"system_type": obj.attrs["system_type"], "matrix": A, "metadata": {}, "delta": sp.Symbol("delta"),
                        "tol": sp.Symbol("tol"), "problem_type": ip.getattr(pt, "EIGENVALUE_DECOMPOSITION")}, "request")
    resp = ip.apply(ip.getattr(obj, "run"), [req], {})
    results = resp.attrs.get("results") if isinstance(resp, SymObj) else None
    if not isinstance(results, SymObj):
        raise AnalysisError("_LinalgBackend.run does not return a response carrying results")
    want = {"stable": "SN", "unstable": "UN", "center": "CN", "Ws": "WS", "Wu": "WU", "Wc": "WC"}
    bad = {f: results.attrs.get(f) for f, t in want.items() if results.attrs.get(f) != tags[t]}
    chk.check(not bad, "C12.b", f"{LBACK}::_LinalgBackend.run[results]", f"result fields mislabelled: {bad}",
              sample="results.stable/unstable/center/Ws/Wu/Wc <- (sn,un,cn,Ws,Wu,Wc)")
    pmod, pcls = ri.find_def(LBASE, "StabilityPipeline")
    pipe = SymObj(ClassRef(pmod, pcls), {"_results": results}, "pipeline")
    ev = ip.getattr(pipe, "eigenvalues")
    evec = ip.getattr(pipe, "eigenvectors")
    chk.check(tuple(ev) == (tags["SN"], tags["UN"], tags["CN"]), "C12.b", f"{LBASE}::StabilityPipeline.eigenvalues",
              f"eigenvalues is not (stable, unstable, centre): {ev}", sample=str(ev))
    chk.check(tuple(evec) == (tags["WS"], tags["WU"], tags["WC"]), "C12.b", f"{LBASE}::StabilityPipeline.eigenvectors",
              f"eigenvectors is not (Ws, Wu, Wc): {evec}", sample=str(evec))
    # get_real_eigenvectors masks values and vector columns with the same mask
    vals = to_obj_array([sp.Symbol("r0", real=True), sp.Symbol("c0") + sp.I * sp.Symbol("c1", positive=True), sp.Symbol("r1", real=True)])
    V = np.empty((2, 3), dtype=object)
    for i in range(2):
        for j in range(3):
            V[i, j] = sp.Symbol(f"U{i}{j}")
    # Evaluated order-abstractly at representative multipliers: the hyperbolic multiplier r0 precedes the numerically split
    # trivial one r1 (the order in which the eigen-solver lists them for every orbit of the pinned suite); NN = 1 then has to
    # select the hyperbolic pair, for the stable (|r0| << |r1| < 1) and the unstable (|r0| >> |r1| > 1) list alike.
    for label, rep in (("stable list", {sp.Symbol("r0", real=True): sp.Rational(1, 1500), sp.Symbol("r1", real=True): sp.Rational(99999, 100000)}),
                       ("unstable list", {sp.Symbol("r0", real=True): sp.Integer(1500), sp.Symbol("r1", real=True): sp.Rational(100001, 100000)})):
        ipr = Interp(decide=RegionDecider(rep))
        rv, rvec = ipr.apply(ipr.getattr(pipe, "get_real_eigenvectors"), [V, vals], {})
        ok = list(rv) == [vals[0], vals[2]] and rvec.shape == (2, 2) and list(rvec[:, 0]) == list(V[:, 0]) and list(rvec[:, 1]) == list(V[:, 2])
        chk.check(ok, "C12.b", f"{LBASE}::StabilityPipeline.get_real_eigenvectors[{label}]",
                  f"real eigenvalues and eigenvector columns are not selected by one mask in eigen-solver order (NN=1 must be the hyperbolic pair r0, not the split trivial pair r1): values {list(rv)}",
                  sample=f"{label}: values[mask], vectors[:, mask]; first real pair = hyperbolic multiplier")
    chk.count("functions partially evaluated", 4)


# --------------------------------------------------------------------------- b (selection), c/d/e through _run_compute
def _bcde_run_compute(chk):
    mcls = ri.find_def(MAN, "_ManifoldDynamicsService")
    pmod, pcls = ri.find_def(LBASE, "StabilityPipeline")
    for stable in (1, -1):
        for guard_prox, guard_energy in itertools.product((False, True), repeat=2):
            cap = {"sections": [], "prop": [], "energy": []}
            Ws = to_obj_array([[sp.Symbol(f"Ws{i}", real=True)] for i in range(6)])
            Wu = to_obj_array([[sp.Symbol(f"Wu{i}", real=True)] for i in range(6)])
            Wc = to_obj_array([[sp.Symbol(f"Wc{i}", real=True)] for i in range(6)])
            sn = to_obj_array([sp.Symbol("sn0", real=True)])
            un = to_obj_array([sp.Symbol("un0", real=True)])
            cn = to_obj_array([sp.Symbol("cn0", real=True)])
            seed = to_obj_array([sp.Symbol(f"seed{k}", real=True) for k in range(6)])
            states = np.empty((2, 6), dtype=object)
            for i in range(2):
                for k in range(6):
                    states[i, k] = sp.Symbol(f"st{i}_{k}", real=True)
            times = to_obj_array([sp.Symbol("tm0"), sp.Symbol("tm1")])
            fwd_sym = sp.Symbol("FWD")
            mu = sp.Symbol("mu", positive=True)
            body = lambda r: SymObj(None, {"radius": sp.Symbol(r, positive=True)}, r)  # noqa: E731
            system = SymObj(None, {"distance": sp.Symbol("dist", positive=True), "primary": body("Rp"), "secondary": body("Rs")}, "system")
            dyn = SymObj(None, {"dim": 6}, "dynsys")

            def sec(**kw):
                cap["sections"].append(kw)
                return seed.copy()

            def fake_prop(ip, args, kwargs):
                cap["prop"].append(kwargs)
                return SymObj(None, {"times": times, "states": states}, "sol")

            def fake_energy(ip, args, kwargs):
                cap["energy"].append(args)
                return sp.Symbol("ENERGY_ERR", positive=True)

            def decide(cond):
                s = sp.sstr(cond)
                if "ENERGY_ERR" in s or "etol" in s:      # the comparison with energy_tol, whatever quantity is compared
                    return guard_energy
                if "Rp" in s or "Rs" in s:
                    return guard_prox
                return None

            svc = SymObj(ClassRef(*mcls), {
                "orbit": SymObj(None, {"period": sp.Symbol("T")}, "orbit"), "mu": mu, "forward": fwd_sym, "system": system,
                "eigenvalues": (sn, un, cn), "eigenvectors": (Ws, Wu, Wc), "stable": stable, "dynsys": dyn,
                "stability": SymObj(ClassRef(pmod, pcls), {}, "pipe"),
                "compute_stm": lambda steps=None: (sp.Symbol("XX"), sp.Symbol("TT"), sp.Symbol("PHIT"), sp.Symbol("PHI")),
                "_compute_manifold_section": sec,
            }, "svc")
            ip = Interp(overrides={"_propagate_dynsys": fake_prop, "_max_rel_energy_error": fake_energy}, decide=decide)
            res = ip.apply(ip.getattr(svc, "_run_compute"), [], dict(
                step=sp.Rational(1, 2), integration_fraction=sp.Symbol("ifrac", positive=True), NN=1,
                displacement=sp.Symbol("disp"), method="adaptive", order=8, dt=sp.Symbol("dt", positive=True),
                energy_tol=sp.Symbol("etol", positive=True), safe_distance=sp.Symbol("safe", positive=True), show_progress=False))
            chk.count("functions partially evaluated")
            if not (isinstance(res, tuple) and len(res) == 6):
                raise AnalysisError("_run_compute no longer returns the 6-tuple result")
            if stable == 1 and not guard_prox and not guard_energy:
                # d: the branch direction is the manifold's, not the sign of a number: a negative integration fraction makes tf negative, the fixed-step integrator
                # then integrates the decreasing grid of the direction-wrapped system - a stable branch runs FORWARD in time (the adaptive one rejects the grid and
                # the exception is swallowed: nothing is returned).  It must be rejected before anything is propagated.
                n_before = len(cap["prop"])
                rejected = False
                try:
                    ip.apply(ip.getattr(svc, "_run_compute"), [], dict(
                        step=sp.Rational(1, 2), integration_fraction=sp.Rational(-3, 10), NN=1, displacement=sp.Symbol("disp"), method="fixed", order=8,
                        dt=sp.Symbol("dt", positive=True), energy_tol=sp.Symbol("etol", positive=True), safe_distance=sp.Symbol("safe", positive=True), show_progress=False))
                except KpeRaise:
                    rejected = True
                neg = [kw for kw in cap["prop"][n_before:] if kw.get("tf") is not None and S(kw["tf"]).is_number and S(kw["tf"]) < 0]
                chk.check(rejected or not neg, "C12.d", f"{MAN}::_ManifoldDynamicsService._run_compute[negative integration_fraction]",
                          f"integration_fraction = -3/10 is accepted: {len(neg)} propagation(s) over tf = {S(neg[0]['tf']) if neg else None} with forward = {neg[0].get('forward') if neg else None} "
                          f"are requested: the stable branch is integrated forward in time", sample="negative integration_fraction: rejected before any propagation")
                n_extra = len(cap["prop"]) - n_before
                del cap["prop"][n_before:]
                if n_extra:
                    del cap["sections"][len(cap["sections"]) - n_extra:]
                del cap["energy"][len(cap["energy"]) - min(n_extra, len(cap["energy"])):]
            states_list, times_list = res[2], res[3]
            tag = f"stable={stable},prox={guard_prox},energy={guard_energy}"
            # e: retention
            kept = len(states_list)
            want_kept = 0 if (guard_prox or guard_energy) else len(cap["sections"])
            chk.check(kept == want_kept and len(times_list) == kept, "C12.e", f"{MAN}::_ManifoldDynamicsService._run_compute[{tag}]",
                      f"with proximity guard={guard_prox}, energy guard={guard_energy} the run retained {kept} of "
                      f"{len(cap['sections'])} trajectories (expected {want_kept})",
                      sample=f"{tag}: retained {kept}/{len(cap['sections'])}")
            if kept:
                ok = all(s is states or (isinstance(s, np.ndarray) and (s == states).all()) for s in states_list) and \
                    all((t == times).all() for t in times_list)
                chk.check(ok, "C12.e", f"{MAN}::_ManifoldDynamicsService._run_compute[{tag},retained]",
                          "the retained arrays are not the propagated times/states")
            if not guard_prox:
                ok = bool(cap["energy"]) and all(len(a) >= 2 and a[0] is states and a[1] == mu for a in cap["energy"])
                chk.check(ok, "C12.e", f"{MAN}::_ManifoldDynamicsService._run_compute[{tag},energy-args]",
                          "energy drift is not measured on the propagated states with the system's mu",
                          sample="_max_rel_energy_error(states, mu)")
            if guard_prox or guard_energy:
                continue
            # b: branch selection
            want_vec = Ws[:, 0] if stable == 1 else Wu[:, 0]
            ok = bool(cap["sections"]) and all(list(to_obj_array(s.get("eigvec"))) == list(want_vec) for s in cap["sections"])
            chk.check(ok, "C12.b-select", f"{MAN}::_ManifoldDynamicsService._run_compute[stable={stable}]",
                      f"{'stable' if stable == 1 else 'unstable'} manifold does not follow the first real "
                      f"{'stable' if stable == 1 else 'unstable'} eigenvector: got {cap['sections'][0].get('eigvec') if cap['sections'] else None}",
                      sample=f"stable={stable}: eigvec = {'Ws' if stable == 1 else 'Wu'}[:,NN-1] (real-masked)")
            # c: section inputs come from the same STM call
            ok = all(s.get("xx") == sp.Symbol("XX") and s.get("tt") == sp.Symbol("TT") and s.get("PHI") == sp.Symbol("PHI")
                     and s.get("period") == sp.Symbol("T") and s.get("displacement") == sp.Symbol("disp") for s in cap["sections"])
            chk.check(ok, "C12.c", f"{MAN}::_ManifoldDynamicsService._run_compute[section-args,stable={stable}]",
                      "orbit samples, times and transition matrices handed to the seed construction are not the components of one STM computation",
                      sample="xx, tt, _, PHI = self.compute_stm(...)")
            fr = sorted(S(s.get("fraction")) for s in cap["sections"])
            chk.check(fr == [0, sp.Rational(1, 2)], "C12.c", f"{MAN}::_ManifoldDynamicsService._run_compute[fractions,stable={stable}]",
                      f"phase fractions for step 1/2 are {fr}, expected [0, 1/2]")
            # d: propagation of the branch
            okd = bool(cap["prop"])
            for kw in cap["prop"]:
                flip = kw.get("flip_indices")
                okd = okd and kw.get("forward") == fwd_sym and kw.get("dynsys") is dyn and \
                    (flip is None or (isinstance(flip, slice) and (flip.start or 0) <= 0 and (flip.stop is None or flip.stop >= 6))) and \
                    list(to_obj_array(kw.get("state0"))) == list(seed) and S(kw.get("t0")) == 0 and \
                    sp.simplify(S(kw.get("tf")) - sp.Symbol("ifrac", positive=True) * 2 * sp.pi) == 0
            chk.check(okd, "C12.d", f"{MAN}::_ManifoldDynamicsService._run_compute[propagate,stable={stable}]",
                      "branch is not propagated from the seed with the service's direction under a full negation over [0, 2*pi*fraction]",
                      sample="_propagate_dynsys(dynsys, x0W, 0, 2*pi*f, forward=self.forward, flip=all)")


# --------------------------------------------------------------------------- c
def _c_seed_formula(chk):
    mcls = ri.find_def(MAN, "_ManifoldDynamicsService")
    nS = 3
    xx = np.empty((nS, 6), dtype=object)
    PHI = np.empty((nS, 42), dtype=object)
    for i in range(nS):
        for k in range(6):
            xx[i, k] = sp.Symbol(f"xx{i}_{k}", real=True)
        for k in range(42):
            PHI[i, k] = sp.Symbol(f"F{i}_{k}", real=True)
    eig = to_obj_array([sp.Symbol(f"e{k}", real=True) for k in range(6)])
    disp = sp.Symbol("disp", real=True)
    dsym = sp.Symbol("dirn", real=True)
    asked = []

    def totime(t, tf):
        asked.append(tf)
        return np.array([1])

    def decide(cond):
        return False  # generic data: no degenerate-magnitude / snap-to-zero branch

    svc = SymObj(ClassRef(*mcls), {"direction": dsym, "_totime": totime}, "svc")
    ip = Interp(decide=decide)
    period, frac = sp.Symbol("T", positive=True), sp.Symbol("frac", positive=True)
    got = to_obj_array(ip.apply(ip.getattr(svc, "_compute_manifold_section"), [], dict(
        period=period, fraction=frac, displacement=disp, xx=xx, tt=sp.Symbol("tt"), PHI=PHI, eigvec=eig))).ravel()
    chk.count("functions partially evaluated")
    Phi = sp.Matrix(6, 6, lambda i, j: PHI[1, 6 * i + j])
    MANv = dsym * (Phi * sp.Matrix(list(eig)))
    nrm = sp.sqrt(sum(MANv[k] ** 2 for k in range(3)))
    c = f"{MAN}::_ManifoldDynamicsService._compute_manifold_section"
    bad = []
    R = Radicals()
    for k in range(6):
        z, res = is_zero(got[k] - (xx[1, k] + disp / nrm * MANv[k]), R)
        if not z:
            bad.append((k, short(res, 120)))
    chk.check(not bad and len(got) == 6, "C12.c", c,
              f"seed is not x(frac) + displacement/|MAN[0:3]| * MAN with MAN = direction*Phi(frac)*eigvec (row-major Phi): {bad[:3]}",
              sample="x0W = xx[idx] + disp/||MAN[0:3]|| * Re(direction * Phi[idx].reshape(6,6) @ eigvec)")
    chk.check(len(asked) == 1 and sp.simplify(S(asked[0]) - frac * period) == 0, "C12.c", c + "[sample index]",
              f"sample index is not the one nearest to fraction*period: asked {asked}", sample="idx = argmin |tt - fraction*period|")
    # _totime picks the nearest sample
    svc2 = SymObj(ClassRef(*mcls), {}, "svc")
    tt = to_obj_array([sp.Integer(0), sp.Rational(-1, 2), sp.Integer(-1), sp.Rational(-3, 2)])
    idx = Interp().apply(Interp().getattr(svc2, "_totime"), [tt, sp.Rational(11, 10)], {})
    chk.check(int(np.asarray(idx).ravel()[0]) == 2, "C12.c", f"{MAN}::_ManifoldDynamicsService._totime",
              f"nearest-sample lookup on |t| returned index {idx} for target 1.1 in [0,.5,1,1.5]", sample="argmin | |t| - target |")


# --------------------------------------------------------------------------- d
def _d_direction(chk):
    mcls = ri.find_def(MAN, "_ManifoldDynamicsService")
    init = ri.class_member(mcls[0], mcls[1], "__init__")
    for stable_flag, dirn, want in ((True, "positive", (1, 1, -1)), (True, "negative", (1, -1, -1)),
                                    (False, "positive", (-1, 1, 1)), (False, "negative", (-1, -1, 1))):
        dom = SymObj(None, {"_stable": stable_flag, "_direction": dirn}, "manifold")
        svc = SymObj(ClassRef(*mcls), {"domain_obj": dom, "_domain_obj": dom}, "svc")
        ip = Interp()
        ip.apply(FuncRef(init[0], init[2], bound_self=svc, qual="_ManifoldDynamicsService.__init__"), [dom], {})
        got = (ip.getattr(svc, "stable"), ip.getattr(svc, "direction"), ip.getattr(svc, "forward"))
        chk.check(got == want, "C12.d", f"{MAN}::_ManifoldDynamicsService.__init__[stable={stable_flag},{dirn}]",
                  f"(stable, direction, forward) = {got}, expected {want}: stable branches run backward (-1), unstable forward (+1); "
                  f"'positive' is +1", sample=f"stable={stable_flag},{dirn} -> (stable,direction,forward)={want}")
    chk.count("functions partially evaluated", 4)
