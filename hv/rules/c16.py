"""C16 — the symplectic integrator is symplectic, reversible and of its declared order.

a  the two H sub-flows are exact Hamiltonian shears of the extended phase space (symplectic Jacobian for an
   arbitrary H, inverse = same map with -delta)
b  the coupling flow is a symplectic rotation, M(delta) M(-delta) = I
c  composition: order-2 palindrome A B C B A; triple-jump palindromes with the order condition
   2 g^(p+1) + (1-2g)^(p+1) = 0 at every recursion level reached from each public order key
d  driver: extended state initialised with copies, output = (Q,P) block, signed dt, omega>0; gradient slots

d-storage / d-event-driver  gradient blocks are stored unchanged (C17.b); the event driver carries the extended state (C11.b)

d-direction (round 3)  the direction-wrapped system of the model is built by _DirectedSystem's own constructor
"""
from __future__ import annotations

import numpy as np
import sympy as sp

from ..core import Check, AnalysisError
from .. import repoindex as ri
from ..kpe import Interp, SymObj, to_obj_array, S, OutsideFragment, KpeRaise
from ..alg import Radicals, residual

SY = "hiten.algorithms.integrators.symplectic"
N = 3


def _ext_symbols():
    names = ["Q", "P", "X", "Y"]
    return to_obj_array([sp.Symbol(f"{n}{i}", real=True) for n in names for i in range(N)])


def _poly_eval_override(ip, args, kwargs):
    tag, point = args[0], to_obj_array(args[1]).ravel()
    if not (isinstance(tag, tuple) and tag and tag[0] == "jac"):
        raise AnalysisError("symplectic gradient evaluator does not evaluate an entry of jac_H")
    return sp.Function(f"E{tag[1]}", real=True)(*[S(x) for x in point])


JAC = [("jac", j) for j in range(2 * N)]

# canonical form dQ^dP + dX^dY in the storage order (Q,P,X,Y)
def _J12():
    J = sp.zeros(4 * N)
    for i in range(N):
        J[i, N + i] = 1
        J[N + i, i] = -1
        J[2 * N + i, 3 * N + i] = 1
        J[3 * N + i, 2 * N + i] = -1
    return J


def _hessianise(M, z):
    """Replace d E_j(pt) / d pt_k by symmetric Hessian symbols H_{jk}(pt) (Schwarz)."""
    reps = {}
    for d in M.atoms(sp.Derivative):
        f = d.expr
        if not (isinstance(f, sp.Function) or hasattr(f, "func")) or not str(f.func).startswith("E"):
            raise AnalysisError(f"unexpected derivative {d}")
        j = int(str(f.func)[1:])
        if len(d.variables) != 1:
            raise AnalysisError(f"unexpected higher derivative {d}")
        v = d.variables[0]
        if v not in f.args:
            reps[d] = 0
            continue
        # which slot(s) of the 6-d evaluation point is v?
        slots = [k for k, a in enumerate(f.args) if a == v]
        tot = 0
        ptname = "_".join(str(a) for a in f.args)
        for k in slots:
            a, b = min(j, k), max(j, k)
            tot += sp.Symbol(f"H{a}{b}__{ptname}", real=True)
        reps[d] = tot
    return M.subs(reps)


def run(tier):
    chk = Check("C16", tier, "other",
                "Sub-flows are partially evaluated with the polynomial evaluator abstracted as the gradient of an arbitrary "
                "H; their 12x12 Jacobians must satisfy M^T J M = J (Hessian symmetric), the coupling flow modulo c^2+s^2=1; "
                "the composition is read off as the sequence of sub-flow calls with their step fractions and each "
                "triple-jump level must satisfy the Yoshida/Suzuki order condition exactly (radical arithmetic).",
                trusted_base=["python ast", "sympy", "hv.kpe", "composition of symplectic maps is symplectic",
                              "Yoshida/Suzuki: symmetric triple jump of a symmetric order-p method with 2g^(p+1)+(1-2g)^(p+1)=0 has order p+2"])
    J = _J12()
    z = _ext_symbols()
    delta = sp.Symbol("delta", real=True)

    # ------------------------------------------------------------------ a
    for name, reads, moved, fixed in (("_phi_H_a_update_poly", ("Q", "Y"), ("P", "X"), ("Q", "Y")),
                                      ("_phi_H_b_update_poly", ("X", "P"), ("Q", "Y"), ("X", "P"))):
        q = z.copy()
        ip = Interp(overrides={"_polynomial_evaluate": _poly_eval_override})
        ip.call_function(SY, name, [q, delta, JAC, sp.Symbol("clmo")])
        chk.count("functions partially evaluated")
        c0 = f"{SY}::{name}"
        out = sp.Matrix([S(x) for x in q])
        M = out.jacobian(sp.Matrix(list(z)))
        M = _hessianise(M, z)
        G = (M.T * J * M - J).applyfunc(sp.expand)
        bad = [(i, j, str(G[i, j])[:80]) for i in range(4 * N) for j in range(4 * N) if G[i, j] != 0]
        chk.check(not bad and out != sp.Matrix(list(z)), "C16.a", c0 + "[symplectic]",
                  f"sub-flow is not a symplectic map of (Q,P,X,Y) for arbitrary H: {bad[:3]}",
                  sample=f"{name}: M^T J M = J (144 entries) with M = d(out)/d(Q,P,X,Y), Hessian symmetric")
        # the variables it reads are left unchanged -> exact inverse is the same map with -delta
        blk = {"Q": 0, "P": 1, "X": 2, "Y": 3}
        unchanged = all(out[blk[b] * N + i] == z[blk[b] * N + i] for b in fixed for i in range(N))
        read_syms = set()
        for f in out.atoms(sp.Function):
            if str(f.func).startswith("E"):
                read_syms |= f.free_symbols
        allowed = {z[blk[b] * N + i] for b in reads for i in range(N)}
        chk.check(unchanged and read_syms and read_syms <= allowed, "C16.a", c0 + "[shear]",
                  f"sub-flow must read only ({','.join(reads)}) and leave them unchanged so that phi(-delta) inverts phi(delta) exactly; "
                  f"reads {sorted(map(str, read_syms - allowed))} outside, unchanged={unchanged}",
                  sample=f"{name}: gradient evaluated at ({','.join(reads)}), which the map does not modify")
        lin = all(sp.expand(sp.diff(out[k], delta, 2)) == 0 for k in range(4 * N))
        odd = all(sp.expand(out[k].subs(delta, -delta) + out[k] - 2 * z[k]) == 0 for k in range(4 * N))
        chk.check(lin and odd, "C16.a", c0 + "[time-delta flow]", "update is not z + delta*V(z) (exact flow of a shear)",
                  sample="out = z + delta * V(z)")

    # ------------------------------------------------------------------ b
    omega = sp.Symbol("omega", real=True)
    q = z.copy()
    Interp().call_function(SY, "_phi_omega_H_c_update_poly", [q, delta, omega])
    chk.count("functions partially evaluated")
    c_, s_ = sp.Symbol("c"), sp.Symbol("s")
    ang = 2 * omega * delta
    out = sp.Matrix([sp.expand(S(x)).subs({sp.cos(ang): c_, sp.sin(ang): s_}) for x in q])
    c0 = f"{SY}::_phi_omega_H_c_update_poly"
    if out.has(sp.cos) or out.has(sp.sin):
        chk.fail("C16.b", c0, f"rotation angle is not 2*omega*delta: {[str(a) for a in out.atoms(sp.cos, sp.sin)][:3]}")
    else:
        M = out.jacobian(sp.Matrix(list(z)))
        G = (M.T * J * M - J).applyfunc(lambda e: sp.expand(sp.expand(e).subs(s_ ** 2, 1 - c_ ** 2)))
        bad = [(i, j, str(G[i, j])) for i in range(4 * N) for j in range(4 * N) if G[i, j] != 0]
        chk.check(not bad, "C16.b", c0 + "[symplectic]", f"coupling flow is not symplectic modulo c^2+s^2=1: {bad[:3]}",
                  sample="M(c,s)^T J M(c,s) = J mod c^2+s^2=1")
        Minv = M.subs(s_, -s_)
        I2 = (M * Minv).applyfunc(lambda e: sp.expand(sp.expand(e).subs(s_ ** 2, 1 - c_ ** 2)))
        chk.check(I2 == sp.eye(4 * N), "C16.b", c0 + "[reversible]", "M(delta)·M(-delta) is not the identity",
                  sample="M(delta) M(-delta) = I")
        # Tao's omega flow: Q+X, P+Y invariant; (Q-X, P-Y) rotated by +2*omega*delta
        ok = True
        for i in range(N):
            Q, P, X, Y = z[i], z[N + i], z[2 * N + i], z[3 * N + i]
            Qn, Pn, Xn, Yn = out[i], out[N + i], out[2 * N + i], out[3 * N + i]
            ok = ok and sp.expand(Qn + Xn - Q - X) == 0 and sp.expand(Pn + Yn - P - Y) == 0
            ok = ok and sp.expand((Qn - Xn) - (c_ * (Q - X) + s_ * (P - Y))) == 0
            ok = ok and sp.expand((Pn - Yn) - (-s_ * (Q - X) + c_ * (P - Y))) == 0
        chk.check(ok, "C16.b", c0 + "[rotation]", "coupling flow is not exp(delta * omega-coupling): (Q-X, P-Y) rotation by 2*omega*delta",
                  sample="(Q-X, P-Y) -> R(2 omega delta)(Q-X, P-Y); Q+X, P+Y fixed")

    # ------------------------------------------------------------------ c
    _composition(chk, tier)
    # ------------------------------------------------------------------ d
    _driver(chk)
    _gradient_slots(chk)
    # the gradient blocks the sub-flows evaluate are the full polynomial Jacobian (C17.b storage rule), and the event
    # driver advances the same carried extended state as the plain driver (C11.b symplectic protocol)
    from . import c17, c11, c10
    from .common import Relabel
    c17._b_storage(Relabel(chk, {"C17.b": "C16.d-storage"}))
    c11._b_symplectic(Relabel(chk, {"C11.b": "C16.d-event-driver"}), tier)
    # backward integration runs the same kernel on the negated grid (reversibility through integrate()): C10.a for this integrator
    c10._a_integrate_times(Relabel(chk, {"C10.a": "C16.d-direction"}), only={"_ExtendedSymplectic"})
    return chk


def _record_base():
    seq = []
    h = sp.Symbol("h", positive=True)

    def mk(name):
        def f(ip, args, kwargs):
            seq.append((name, S(args[1])))
            return None
        return f

    ip = Interp(overrides={"_phi_H_a_update_poly": mk("A"), "_phi_H_b_update_poly": mk("B"), "_phi_omega_H_c_update_poly": mk("C")})
    ip.call_function(SY, "_recursive_update_poly", [_ext_symbols(), h, 2, sp.Symbol("omega"), JAC, sp.Symbol("clmo")])
    return seq, h


def _record_level(order):
    """One level of the recursion: the (step, lower order) of the nested composite calls."""
    rec = []
    h = sp.Symbol("h", positive=True)
    mod, node = ri.find_def(SY, "_recursive_update_poly")
    from ..kpe import FuncRef
    real = FuncRef(mod, node, qual="_recursive_update_poly")
    state = {"depth": 0}

    def hook(ip, args, kwargs):
        if state["depth"] == 0:
            state["depth"] = 1
            try:
                return ip.apply_funcref(real, list(args), dict(kwargs))
            finally:
                state["depth"] = 0
        rec.append((S(args[1]), args[2]))
        return None

    def forbid(ip, args, kwargs):
        raise AnalysisError(f"order-{order} composite calls a sub-flow directly instead of composing lower-order steps")

    ip = Interp(overrides={"_recursive_update_poly": hook, "_phi_H_a_update_poly": forbid, "_phi_H_b_update_poly": forbid,
                           "_phi_omega_H_c_update_poly": forbid})
    ip.call_function(SY, "_recursive_update_poly", [_ext_symbols(), h, order, sp.Symbol("omega"), JAC, sp.Symbol("clmo")])
    return rec, h


def _composition(chk, tier):
    ip0 = Interp()
    pub = ip0.getattr(ip0.module_value(SY, "ExtendedSymplectic"), "_map")
    orders = sorted(int(k) for k in pub)
    chk.floor("public symplectic orders", len(orders), 4)
    c0 = f"{SY}::_recursive_update_poly"
    seq, h = _record_base()
    chk.count("functions partially evaluated")
    names = "".join(n for n, _ in seq)
    ok = names == "ABCBA" and all(sp.expand(seq[k][1] - h / 2) == 0 for k in (0, 1, 3, 4)) and sp.expand(seq[2][1] - h) == 0
    chk.check(ok, "C16.c", c0 + "[order=2,palindrome]",
              f"order-2 step is not A(h/2) B(h/2) C(h) B(h/2) A(h/2): {[(n, str(d)) for n, d in seq]}",
              sample="order 2: A(h/2) B(h/2) C(h) B(h/2) A(h/2)")
    levels = sorted({o for top in orders for o in range(4, top + 1, 2)})
    for order in levels:
        rec, h = _record_level(order)
        chk.count("functions partially evaluated")
        p = order - 2
        if len(rec) != 3 or any(lo != p for _, lo in rec):
            chk.fail("C16.c", c0 + f"[level {order}<-{p},shape]",
                     f"order-{order} composite is not three order-{p} steps: {[(str(t), lo) for t, lo in rec]}")
            continue
        g = [sp.together(t / h) for t, _ in rec]
        R = Radicals()
        sym = residual(g[0] - g[2], R) == 0
        cons = residual(g[0] + g[1] + g[2] - 1, R) == 0
        cond = 2 * g[0] ** (p + 1) + g[1] ** (p + 1)
        zero = residual(cond, R) == 0
        val = sp.N(cond, 20)
        chk.check(sym and cons, "C16.c", c0 + f"[level {order}<-{p},palindrome]",
                  f"sub-steps ({', '.join(str(sp.N(x, 8)) for x in g)}) are not (g, 1-2g, g)", sample=f"level {order}: (g, 1-2g, g), sum 1")
        chk.check(zero, "C16.c", c0 + (f"[level {order}<-{p},order condition]" if zero else f"[level {order}<-{p},gamma={g[0]}]"),
                  f"triple jump from order {p} to {order} uses gamma = {g[0]} ~ {sp.N(g[0], 12)}: "
                  f"2*gamma^{p + 1} + (1-2*gamma)^{p + 1} = {val} != 0 (needs gamma = 1/(2 - 2^(1/{p + 1}))); "
                  f"the composite then has order {p}, not {order}",
                  sample=f"level {order}<-{p}: gamma={sp.N(g[0], 12)}, 2g^{p + 1}+(1-2g)^{p + 1} == 0 exactly (radical arithmetic)")
    chk.count("composition levels", len(levels))


def _driver(chk):
    calls = []
    tags = []

    def fake_step(ip, args, kwargs):
        q_ext, dt, order, omega = args[0], args[1], args[2], args[3]
        calls.append((to_obj_array(q_ext).copy(), S(dt), order, S(omega)))
        k = len(calls)
        new = to_obj_array([sp.Symbol(f"Z{k}_{i}") for i in range(4 * N)])
        q_ext[...] = new
        tags.append(new)
        return None

    y0 = to_obj_array([sp.Symbol(f"s{i}", real=True) for i in range(2 * N)])
    t0, t1, t2 = sp.symbols("t0 t1 t2", real=True)
    cw = sp.Symbol("cw", positive=True)
    ip = Interp(overrides={"_recursive_update_poly": fake_step})
    traj = to_obj_array(ip.call_function(SY, "_integrate_symplectic", [y0.copy(), to_obj_array([t0, t1, t2]), JAC, sp.Symbol("clmo"), 4, cw]))
    chk.count("functions partially evaluated")
    c0 = f"{SY}::_integrate_symplectic"
    if len(calls) != 2:
        raise AnalysisError("symplectic driver does not take one composite step per grid interval")
    q0 = calls[0][0]
    want0 = list(y0[:N]) + list(y0[N:]) + list(y0[:N]) + list(y0[N:])
    chk.check(list(q0) == want0, "C16.d", c0 + "[extended init]", f"extended state is not (Q0,P0,X=Q0,Y=P0): {list(q0)}",
              sample="q_ext = (Q0, P0, Q0, P0)")
    chk.check(calls[0][1] == t1 - t0 and calls[1][1] == t2 - t1, "C16.d", c0 + "[signed dt]", "step is not the signed grid difference",
              sample="dt = t[i+1]-t[i]")
    chk.check(all(c[2] == 4 for c in calls), "C16.d", c0 + "[order]", "requested order is not forwarded to the composition")
    dt = sp.Symbol("dtp", real=True)
    om = S(Interp().call_function(SY, "_get_tao_omega", [dt, 4, cw]))
    chk.check(sp.simplify(calls[0][3] - om.subs(dt, t1 - t0)) == 0 and sp.simplify(om - (cw * dt) ** (-4)) == 0, "C16.d", c0 + "[omega]",
              f"coupling constant is not (c*dt)^(-order): {calls[0][3]}", sample="omega = (c*dt)^(-order) > 0 for even order and either sign of dt")
    ok = traj.shape == (3, 2 * N) and list(traj[0]) == list(y0) and list(traj[1]) == list(tags[0][:2 * N]) and list(traj[2]) == list(tags[1][:2 * N])
    chk.check(ok, "C16.d", c0 + "[output block]", "output samples are not (initial state, then the (Q,P) block after each step)",
              sample="trajectory[i+1] = q_ext[0:6]")
    # constructor rejects odd orders
    mod, cls = ri.find_def(SY, "_ExtendedSymplectic")
    from ..kpe import ClassRef
    for order, should_raise in ((2, False), (4, False), (3, True), (5, True), (0, True)):
        try:
            Interp().apply(ClassRef(mod, cls), [], {"order": order})
            raised = False
        except KpeRaise:
            raised = True
        chk.check(raised == should_raise, "C16.d", f"{SY}::_ExtendedSymplectic.__init__[order={order}]",
                  f"constructor {'accepts' if not raised else 'rejects'} order {order}", nontrivial=False,
                  sample=f"order={order}: {'rejected' if raised else 'accepted'}")


def _gradient_slots(chk):
    Q = to_obj_array([sp.Symbol(f"a{i}", real=True) for i in range(N)])
    P = to_obj_array([sp.Symbol(f"b{i}", real=True) for i in range(N)])
    ip = Interp(overrides={"_polynomial_evaluate": _poly_eval_override})
    pt = list(Q) + list(P)
    dq = to_obj_array(ip.call_function(SY, "_eval_dH_dQ", [Q, P, JAC, sp.Symbol("clmo")]))
    dp = to_obj_array(ip.call_function(SY, "_eval_dH_dP", [Q, P, JAC, sp.Symbol("clmo")]))
    dd = to_obj_array(ip.call_function(SY, "_eval_hamiltonian_derivative", [Q, P, JAC, sp.Symbol("clmo")]))
    chk.count("functions partially evaluated", 3)
    E = lambda j: sp.Function(f"E{j}", real=True)(*pt)  # noqa: E731
    chk.check(all(dq[i] == E(i) for i in range(N)), "C16.d", f"{SY}::_eval_dH_dQ", f"dH/dQ_i is not jac_H[i] at (Q,P): {list(dq)}",
              sample="dH_dQ[i] = eval(jac_H[i], (Q,P))")
    chk.check(all(dp[i] == E(N + i) for i in range(N)), "C16.d", f"{SY}::_eval_dH_dP", f"dH/dP_i is not jac_H[3+i] at (Q,P): {list(dp)}",
              sample="dH_dP[i] = eval(jac_H[3+i], (Q,P))")
    ok = all(dd[i] == E(N + i) for i in range(N)) and all(sp.expand(dd[N + i] + E(i)) == 0 for i in range(N))
    chk.check(ok, "C16.d", f"{SY}::_eval_hamiltonian_derivative", "combined derivative is not (dH/dP, -dH/dQ)", sample="(dH/dP, -dH/dQ)")
