"""C06 — polynomial algebra is exact and independent of thread scheduling.

a  packed layout: table builders, pack, decode, fill, encode agree; fields disjoint and wide enough; every multi-index once
b  race freedom of every njit(parallel=True) function (effect rule on prange bodies) - holds for every schedule
c  each kernel / list operation computes the mathematical result: interpreted on generic symbolic coefficient arrays at
   low degree under an adversarial thread-id assignment and compared with sympy polynomial arithmetic

a (added)  every fixed-width integer type that carries slot numbers / packed indices can hold the largest value at the table degree
c (round 4)  powers with an exponent above the truncation degree (constant term keeps them alive); evaluate hands every block up to the degree to the evaluator
"""
from __future__ import annotations

import ast
import math

import numpy as np
import sympy as sp

from ..core import Check, AnalysisError
from .. import repoindex as ri
from ..kpe import Interp, to_obj_array, S, OutsideFragment, SymObj, ClassRef
from .. import polyref as pr
from ..polyref import PB, PA, PO, X


def run(tier):
    chk = Check("C06", tier, "other",
                "hiten's own table builders are interpreted (no import) to obtain psi/clmo at a bounded degree; pack/decode/fill/"
                "encode are interpreted on every position and compared with an independent reference of the documented layout, "
                "bit probes give each site's field table; every kernel is interpreted on generic symbolic coefficient arrays "
                "with 3 simulated threads under a non-monotone thread-id assignment and its output compared with sympy; the "
                "race rule is an effect analysis of prange bodies over the syntax tree.",
                trusted_base=["python ast", "hv.kpe", "sympy polynomial arithmetic", "numba prange semantics (documentation): scalars private, "
                              "get_thread_id() in [0, get_num_threads())"])
    D = 6 if tier == "quick" else 9
    _a_layout(chk, D)
    _b_races(chk)
    _c_kernels(chk, tier)
    _c_lists(chk, tier)
    _c_facade_evaluate(chk)
    return chk


# ------------------------------------------------------------------------------------------------ a
def _a_layout(chk, D):
    psi, clmo, enc = pr.tables(D)
    chk.count("functions partially evaluated", 2)
    # psi = binomials
    bad = [(i, d, int(S(psi[i, d]))) for i in range(1, 7) for d in range(D + 1) if int(S(psi[i, d])) != math.comb(d + i - 1, i - 1)]
    chk.check(not bad and int(S(psi[0, 0])) == 1, "C06.a", f"{PB}::_init_index_tables[psi]", f"psi[i,d] != C(d+i-1, i-1) at {bad[:4]}",
              sample=f"psi[i,d] = C(d+i-1,i-1) for i<=6, d<={D}")
    # _combinations over the whole table domain (d<=30, i<=6) and beyond
    ipc = Interp()
    badc = []
    ncomb = 0
    for n in range(0, 37):
        for k in range(-1, 8):
            ncomb += 1
            got = ipc.call_function(PB, "_combinations", [n, k])
            want = math.comb(n, k) if 0 <= k <= n else 0
            if int(S(got)) != want:
                badc.append((n, k, int(S(got)), want))
    chk.check(not badc, "C06.a", f"{PB}::_combinations", f"_combinations differs from the binomial coefficient at {badc[:4]}",
              sample=f"{ncomb} (n,k) pairs incl. the full table domain n<=35, k<=6")
    # enumeration: every multi-index of degree d exactly once
    total = 0
    for d in range(D + 1):
        arr = [int(S(v)) for v in clmo[d]]
        ks = [pr.ref_decode(v, d) for v in arr]
        total += len(arr)
        ok = len(set(ks)) == len(ks) == math.comb(d + 5, 5) and all(min(k) >= 0 and sum(k) == d for k in ks) and all(v < 2 ** 32 for v in arr)
        chk.check(ok, "C06.a", f"{PB}::_init_index_tables[clmo,d={d}]",
                  f"degree-{d} table does not list every multi-index exactly once ({len(ks)} entries, {len(set(ks))} distinct, expected {math.comb(d + 5, 5)})",
                  sample=f"d={d}: {len(ks)} packed entries decode to {len(set(ks))} distinct multi-indices of degree {d}", nontrivial=d > 0)
    # code-level agreement on every position
    ip = Interp(max_depth=20)
    bad = {"decode": [], "fill": [], "pack": [], "encode": [], "encdict": []}
    for d in range(D + 1):
        for pos in range(len(clmo[d])):
            want = pr.ref_decode(int(S(clmo[d][pos])), d)
            got = tuple(int(S(v)) for v in ip.call_function(PB, "_decode_multiindex", [pos, d, clmo]))
            if got != want:
                bad["decode"].append((d, pos, got, want))
            out = np.empty((6,), dtype=object)
            out.fill(sp.Integer(-7))
            ip.call_function(PB, "_fill_exponents", [pos, d, clmo, out])
            if tuple(int(S(v)) for v in out) != want:
                bad["fill"].append((d, pos))
            karr = to_obj_array(list(want))
            if int(S(ip.call_function(PB, "_pack_multiindex", [karr]))) != int(S(clmo[d][pos])):
                bad["pack"].append((d, pos))
            if int(S(ip.call_function(PB, "_encode_multiindex", [karr, d, enc]))) != pos:
                bad["encode"].append((d, pos))
    chk.count("table positions examined", total)
    for key, text in (("decode", "_decode_multiindex"), ("fill", "_fill_exponents"), ("pack", "_pack_multiindex"), ("encode", "_encode_multiindex")):
        chk.check(not bad[key], "C06.a", f"{PB}::{text}", f"{text} disagrees with the table builder's layout at {len(bad[key])} of {total} positions, e.g. {bad[key][:2]}",
                  sample=f"{text}: all {total} positions of degrees 0..{D} agree (decode∘encode = id, pack = table entry)")
    # out-of-table lookups
    miss = ip.call_function(PB, "_encode_multiindex", [to_obj_array([0, 0, 0, 0, 0, 3]), 2, enc])
    chk.check(int(S(miss)) == -1 and int(S(ip.call_function(PB, "_encode_multiindex", [to_obj_array([1, 0, 0, 0, 0, 0]), D + 5, enc]))) == -1, "C06.a",
              f"{PB}::_encode_multiindex[missing]", "a multi-index that is not in the table does not map to -1", sample="unknown index -> -1", nontrivial=False)
    # field tables by bit probes: which (field, weight) does each bit feed / come from
    def pack_probe():
        tab = {}
        for f in range(1, 6):
            for b in range(7):
                k = [0] * 6
                k[f] = 1 << b
                v = int(S(ip.call_function(PB, "_pack_multiindex", [to_obj_array(k)])))
                for bit in range(40):
                    if v >> bit & 1:
                        tab.setdefault(bit, []).append((f, b))
        return tab

    def decode_probe(fn):
        tab = {}
        for bit in range(32):
            fake = [None] * 101
            fake[100] = [1 << bit]
            if fn == "_decode_multiindex":
                ks = [int(S(v)) for v in ip.call_function(PB, fn, [0, 100, fake])]
            else:
                out = np.empty((6,), dtype=object)
                out.fill(sp.Integer(0))
                ip.call_function(PB, fn, [0, 100, fake, out])
                ks = [int(S(v)) for v in out]
            for f in range(1, 6):
                if ks[f]:
                    tab.setdefault(bit, []).append((f, int(math.log2(ks[f]))))
            if ks[0] != 100 - sum(ks[1:]):
                tab.setdefault("k0", []).append(bit)
        return tab

    tp = pack_probe()
    want_tab = {sh + b: [(f, b)] for f, sh in pr.SHIFTS.items() for b in range(6)}
    chk.check(tp == want_tab, "C06.a", f"{PB}::_pack_multiindex[fields]",
              f"bit-field table of the packer is {sorted(tp.items())[:6]}...; expected 5 disjoint 6-bit fields at shifts 0,6,12,18,24 (each exponent up to 63 >= 30, top bit 29 < 32)",
              sample="k1..k5 -> bits [0,6), [6,12), [12,18), [18,24), [24,30); disjoint; 6 bits each")
    for fn in ("_decode_multiindex", "_fill_exponents"):
        td = decode_probe(fn)
        chk.check(td == want_tab, "C06.a", f"{PB}::{fn}[fields]", f"bit-field table of {fn} differs from the packer's: {sorted((k, v) for k, v in td.items() if want_tab.get(k) != v)[:4]}",
                  sample=f"{fn}: same (shift, mask) table as the packer; k0 = degree - sum")
    # the global table degree fits the field width
    mod = ri.need_module(PB)
    gdeg = None
    for st in mod.tree.body:
        if isinstance(st, ast.Assign) and isinstance(st.value, ast.Call) and isinstance(st.value.func, ast.Name) and st.value.func.id == "_init_index_tables":
            gdeg = st.value.args[0].value if st.value.args and isinstance(st.value.args[0], ast.Constant) else None
    if gdeg is None:
        raise AnalysisError("anchor: module-level _init_index_tables(<degree>) not found")
    chk.check(isinstance(gdeg, int) and gdeg <= pr.MASK, "C06.a", f"{PB}[global table degree]", f"global table degree {gdeg} exceeds the largest exponent a 6-bit field can hold (63)",
              sample=f"global degree {gdeg} <= 63")
    _a_widths(chk, gdeg)
    # the global inverse lookup is built from the same arrays (enumerate -> d[packed] = idx)
    enc2 = ip.call_function(PB, "_create_encode_dict_from_clmo", [clmo])
    ok = all(enc2[d].get(int(S(clmo[d][pos]))) == pos or int(S(enc2[d].get(int(S(clmo[d][pos]))))) == pos for d in range(min(D, 4) + 1) for pos in range(len(clmo[d])))
    chk.check(ok, "C06.a", f"{PB}::_create_encode_dict_from_clmo", "inverse lookup is not built by enumerating the packed arrays", sample="d[packed] = position")


INT_CAP = {"int8": 2 ** 7 - 1, "uint8": 2 ** 8 - 1, "int16": 2 ** 15 - 1, "uint16": 2 ** 16 - 1, "int32": 2 ** 31 - 1, "uint32": 2 ** 32 - 1,
           "int64": 2 ** 63 - 1, "uint64": 2 ** 64 - 1, "intp": 2 ** 63 - 1, "int_": 2 ** 63 - 1}


def _a_widths(chk, gdeg):
    """Every fixed-width integer type the layout code stores a slot number or a packed multi-index in can hold the largest
    value that occurs at the library's table degree `gdeg` (silent wrap-around inside njit otherwise).

    The role of a cast site is inferred from the values that flow through it when the table builders are interpreted
    at two small degrees: a site whose largest operand is psi[6,d]-1 at both degrees carries slot numbers (needs
    psi[6,gdeg]-1), one whose largest operand is the largest packed index carries packed multi-indices (needs gdeg<<24)."""
    enclosing_function_name = ri.enclosing_function_name
    seen = {}
    for d in (3, 5):
        ip = Interp(max_depth=30)
        ip.cast_log = []
        psi, clmo = ip.call_function(PB, "_init_index_tables", [d])
        ip.call_function(PB, "_create_encode_dict_from_clmo", [clmo])
        pos_max = math.comb(d + 5, 5) - 1
        packed_max = max(int(S(v)) for v in clmo[d])
        for name, v, modname, line, st in ip.cast_log:
            if v is None:
                continue
            key = (modname, enclosing_function_name(st), ri.norm_stmt(st)[:80], name)
            rec = seen.setdefault(key, {})
            rec[d] = max(rec.get(d, -1), v)
            rec.setdefault("ref", {})[d] = (pos_max, packed_max)
    need_pos = math.comb(gdeg + 5, 5) - 1
    need_packed = gdeg << 24
    n_sites = 0
    for (modname, fn, text, tname), rec in sorted(seen.items()):
        if 3 not in rec or 5 not in rec:
            continue
        roles = set()
        for d in (3, 5):
            pm, km = rec["ref"][d]
            roles.add("slot" if rec[d] == pm else "packed" if rec[d] == km else "other")
        if len(roles) != 1 or "other" in roles:
            chk.note(f"integer cast {tname} in {fn}: role not inferred (largest operands {rec[3]}, {rec[5]})")
            continue
        role = roles.pop()
        need = need_pos if role == "slot" else need_packed
        n_sites += 1
        chk.check(INT_CAP.get(tname, 0) >= need, "C06.a", f"{modname}::{fn}[{tname} holds {role}]",
                  f"{tname}(...) in `{text}` carries {role} values but cannot hold {need} (largest {role} value at the table degree {gdeg}); numba wraps silently",
                  sample=f"{fn}: {tname} >= {need} ({role} at degree {gdeg})")
    # declared container element types: numba dict key/value types and the dtype of the packed arrays
    mod = ri.need_module(PB)
    n_decl = 0
    for node in ast.walk(mod.tree):
        if not isinstance(node, ast.Call):
            continue
        fname = ast.unparse(node.func)
        pairs = []
        if fname.endswith("DictType") and len(node.args) == 2:
            pairs = [("packed", node.args[0]), ("slot", node.args[1])]
        elif fname.endswith("Dict.empty"):
            kws = {k.arg: k.value for k in node.keywords}
            pairs = [("packed", kws.get("key_type")), ("slot", kws.get("value_type"))]
        elif fname in ("np.empty", "np.zeros", "numpy.empty", "numpy.zeros"):
            kws = {k.arg: k.value for k in node.keywords}
            owner = enclosing_function_name(node)
            if owner == "_init_index_tables" and kws.get("dtype") is not None and ast.unparse(kws["dtype"]).split(".")[-1] in INT_CAP and \
                    not (node.args and isinstance(node.args[0], ast.Tuple)):
                pairs = [("packed", kws["dtype"])]
        for role, tnode in pairs:
            if tnode is None:
                continue
            tname = ast.unparse(tnode).split(".")[-1]
            if tname not in INT_CAP:
                continue
            n_decl += 1
            need = need_pos if role == "slot" else need_packed
            chk.check(INT_CAP[tname] >= need, "C06.a", f"{PB}[{fname} {role} type, line-independent #{n_decl}]",
                      f"declared element type {tname} for {role} values cannot hold {need} (table degree {gdeg})", sample=f"{fname}: {tname} holds {role} values up to {need}", nontrivial=False)
    chk.floor("integer cast sites with an inferred role", n_sites, 2)
    chk.floor("declared integer element types in the layout module", n_decl, 3)


def _c_facade_evaluate(chk):
    """Evaluating a Hamiltonian object at a point hands that very point (complex points included - the complexified forms
    are evaluated there) and the object's own blocks / tables to the list-level evaluator."""
    HS_ = "hiten.algorithms.types.services.hamiltonian"
    mod, cls = ri.find_def(HS_, "_HamiltonianDynamicsService")
    seen = {}

    def ev(ip_, a, k):
        seen["args"] = a
        return sp.Symbol("VALUE")

    pt = to_obj_array([sp.Symbol(f"a{i}", real=True) + sp.I * sp.Symbol(f"b{i}", real=True) for i in range(6)])
    blocks = [sp.Symbol(f"H_BLOCK{d}") for d in range(4)]          # a degree-3 Hamiltonian: four homogeneous blocks
    svc = SymObj(ClassRef(mod, cls), {"poly_H": list(blocks), "_poly_H": list(blocks), "clmo": sp.Symbol("CLMO"), "_clmo": sp.Symbol("CLMO"), "_ndof": 3, "ndof": 3,
                                      "_degree": 3, "degree": 3}, "hamdyn")
    ip = Interp(overrides={"_polynomial_evaluate": ev})
    ip.strict_real_casts = True
    try:
        out = ip.apply(ip.getattr(svc, "evaluate"), [pt.copy()], {})
    except OutsideFragment as exc:
        raise AnalysisError(f"_HamiltonianDynamicsService.evaluate outside fragment: {exc}")
    a = seen.get("args", [None, None, None])
    got = list(to_obj_array(a[1])) if a[1] is not None else None
    handed = list(a[0]) if isinstance(a[0], (list, tuple)) else a[0]
    chk.check(out == sp.Symbol("VALUE") and handed == blocks and a[2] == sp.Symbol("CLMO") and got == list(pt), "C06.c", f"{HS_}::_HamiltonianDynamicsService.evaluate",
              f"Hamiltonian.evaluate hands the blocks {handed} and the point {got} to the evaluator for the degree-3 Hamiltonian {blocks} at the complex point {list(pt)} "
              f"(every block up to the degree belongs to the value; a cast to a real dtype keeps the real part only)",
              sample="evaluate(z) = _polynomial_evaluate(all blocks of poly_H, z, clmo) for complex z")
    chk.count("functions partially evaluated")


# ------------------------------------------------------------------------------------------------ b
def _njit_kwargs(fn):
    for d in fn.decorator_list:
        if isinstance(d, ast.Call) and ast.unparse(d.func).split(".")[-1] in ("njit", "jit"):
            return {k.arg: k.value for k in d.keywords}
        if isinstance(d, (ast.Name, ast.Attribute)) and ast.unparse(d).split(".")[-1] in ("njit", "jit"):
            return {}
    return None


def _is_parallel(fn):
    kw = _njit_kwargs(fn)
    return bool(kw) and isinstance(kw.get("parallel"), ast.Constant) and kw["parallel"].value is True


def _written_params(fn):
    """Names of parameters a function writes through (subscript store / in-place op / append)."""
    params = {a.arg for a in fn.args.args}
    out = set()
    for n in ast.walk(fn):
        if isinstance(n, (ast.Assign, ast.AugAssign)):
            tgts = n.targets if isinstance(n, ast.Assign) else [n.target]
            for t in tgts:
                b = t
                while isinstance(b, ast.Subscript):
                    b = b.value
                if isinstance(b, ast.Name) and b.id in params and (isinstance(t, ast.Subscript) or isinstance(n, ast.AugAssign)):
                    out.add(b.id)
        if isinstance(n, ast.Call) and isinstance(n.func, ast.Attribute) and n.func.attr in ("append", "extend", "fill") and isinstance(n.func.value, ast.Name) \
                and n.func.value.id in params:
            out.add(n.func.value.id)
    return out


def _b_races(chk):
    par = []
    seq_prange = []
    for m in ri.all_modules():
        if "prange" not in m.source:
            continue
        for q, fn in ri.functions_in(m):
            uses_prange = any(isinstance(n, ast.For) and isinstance(n.iter, ast.Call) and ast.unparse(n.iter.func).split(".")[-1] == "prange" for n in ast.walk(fn))
            if not uses_prange:
                continue
            if _is_parallel(fn):
                par.append((m, q, fn))
            else:
                seq_prange.append((m, q))
    chk.floor("njit(parallel=True) functions", len(par), 3)
    for m, q in seq_prange:
        chk.note(f"{m.name}::{q} uses prange without parallel=True: runs sequentially (ordered appends are safe)")
    for m, q, fn in par:
        c0 = f"{m.name}::{q}"
        problems = []
        for loop in [n for n in ast.walk(fn) if isinstance(n, ast.For) and isinstance(n.iter, ast.Call) and ast.unparse(n.iter.func).split(".")[-1] == "prange"]:
            ivar = loop.target.id if isinstance(loop.target, ast.Name) else None
            body_nodes = [n for st in loop.body for n in ast.walk(st)]
            local_arrays = set()
            tid_names = set()
            for n in body_nodes:
                if isinstance(n, ast.Assign) and len(n.targets) == 1 and isinstance(n.targets[0], ast.Name):
                    v = n.value
                    if isinstance(v, ast.Call):
                        fname = ast.unparse(v.func)
                        if fname.split(".")[-1] in ("empty", "zeros", "ones", "copy", "empty_like", "zeros_like", "array"):
                            local_arrays.add(n.targets[0].id)
                        if fname.split(".")[-1] == "get_thread_id":
                            tid_names.add(n.targets[0].id)
            # arrays allocated before the loop with a leading get_num_threads() dimension
            nt_names = {n.targets[0].id for n in ast.walk(fn) if isinstance(n, ast.Assign) and isinstance(n.targets[0], ast.Name) and isinstance(n.value, ast.Call)
                        and ast.unparse(n.value.func).split(".")[-1] == "get_num_threads"}
            per_thread = set()
            for n in ast.walk(fn):
                if isinstance(n, ast.Assign) and isinstance(n.targets[0], ast.Name) and isinstance(n.value, ast.Call) and n.value.args and isinstance(n.value.args[0], ast.Tuple):
                    first = n.value.args[0].elts[0]
                    if isinstance(first, ast.Name) and first.id in nt_names:
                        per_thread.add(n.targets[0].id)
            shared_written = {}
            for n in body_nodes:
                tgts = []
                if isinstance(n, ast.Assign):
                    tgts = n.targets
                elif isinstance(n, ast.AugAssign):
                    tgts = [n.target]
                for t in tgts:
                    for tt in (t.elts if isinstance(t, ast.Tuple) else [t]):
                        if isinstance(tt, ast.Subscript):
                            b = tt.value
                            while isinstance(b, ast.Subscript):
                                b = b.value
                            if not isinstance(b, ast.Name) or b.id in local_arrays:
                                continue
                            idx = tt.slice
                            idx_elts = idx.elts if isinstance(idx, ast.Tuple) else [idx]
                            names0 = {x.id for x in ast.walk(idx_elts[0]) if isinstance(x, ast.Name)}
                            all_names = {x.id for e in idx_elts for x in ast.walk(e) if isinstance(x, ast.Name)}
                            if ivar in all_names:
                                continue          # (c) indexed by the prange variable
                            if b.id in per_thread and names0 & tid_names:
                                shared_written.setdefault(b.id, "per-thread")
                                continue          # (d) thread-private row
                            shared_written[b.id] = f"shared write {ast.unparse(tt)}"
                        elif isinstance(tt, ast.Attribute):
                            problems.append(f"attribute store {ast.unparse(tt)} inside prange")
                if isinstance(n, ast.Call) and isinstance(n.func, ast.Attribute) and n.func.attr in ("append", "extend") and isinstance(n.func.value, ast.Name) \
                        and n.func.value.id not in local_arrays:
                    problems.append(f"{ast.unparse(n.func)} on a shared container inside prange (order/size race)")
                # callees writing through shared arguments; nested parallel regions
                if isinstance(n, ast.Call) and isinstance(n.func, ast.Name):
                    r = ri.resolve(m, n.func.id)
                    if r and r[0] == "def" and isinstance(r[2], ast.FunctionDef):
                        callee = r[2]
                        if _is_parallel(callee):
                            problems.append(f"parallel=True kernel {callee.name} called from a prange body (nested parallel region breaks the thread-id/row correspondence)")
                        wp = _written_params(callee)
                        cparams = [a.arg for a in callee.args.args]
                        for pos, a in enumerate(n.args):
                            if pos < len(cparams) and cparams[pos] in wp and isinstance(a, ast.Name) and a.id not in local_arrays:
                                problems.append(f"{callee.name} writes its parameter {cparams[pos]} which is the shared array {a.id}")
            # per-thread arrays must be reduced over all rows after the loop
            for arr, how in shared_written.items():
                if how == "per-thread":
                    reduced = False
                    for n in ast.walk(fn):
                        if isinstance(n, ast.For) and n is not loop and isinstance(n.iter, ast.Call) and ast.unparse(n.iter.func) == "range" and len(n.iter.args) == 1 \
                                and isinstance(n.iter.args[0], ast.Name) and n.iter.args[0].id in nt_names and isinstance(n.target, ast.Name):
                            for s in ast.walk(n):
                                if isinstance(s, ast.AugAssign) and isinstance(s.op, ast.Add) and isinstance(s.value, ast.Subscript) and isinstance(s.value.value, ast.Name) \
                                        and s.value.value.id == arr and ast.unparse(s.value.slice) == n.target.id:
                                    reduced = True
                    if not reduced:
                        problems.append(f"per-thread scratch {arr} is not summed over range(get_num_threads()) after the loop")
                else:
                    # a shared write that is never read is harmless: note only
                    reads = [x for x in ast.walk(fn) if isinstance(x, ast.Name) and x.id == arr and isinstance(x.ctx, ast.Load)]
                    read_elsewhere = [x for x in reads if not _is_store_base(x)]
                    if read_elsewhere:
                        problems.append(f"{how} (array is read elsewhere)")
                    else:
                        chk.note(f"{c0}: {how} is never read (benign)")
        chk.check(not problems, "C06.b", c0, f"possible data race under some schedule: {problems[:3]}",
                  sample=f"{q}: every write in the prange body is thread-private, indexed by the loop variable, or a fully reduced per-thread row")


def _is_store_base(name_node):
    p = getattr(name_node, "_parent", None)
    while isinstance(p, ast.Subscript):
        if isinstance(p.ctx, ast.Store):
            return True
        p = getattr(p, "_parent", None)
    return False


# ------------------------------------------------------------------------------------------------ c (kernels)
def _c_kernels(chk, tier):
    D = 4
    psi, clmo, enc = pr.tables(D)
    sup2 = {0, 3, 7, 11, 20}
    sup3 = {0, 5, 17, 30, 55}
    cases = [(1, None, 1, None), (1, None, 2, None), (2, sup2, 1, None), (2, sup2, 2, {1, 4, 9, 20}), (0, None, 2, sup2), (2, sup2, 0, None), (3, sup3, 1, {0, 4})]
    n = 0
    for dp, sp_, dq, sq in cases:
        p = pr.generic_arr("a", dp, psi, sp_)
        q = pr.generic_arr("b", dq, psi, sq)
        r = pr.kernel_interp().call_function(PA, "_poly_mul", [p, dp, q, dq, psi, clmo, enc])
        n += 1
        diff = sp.expand(pr.arr_to_expr(r, dp + dq, clmo) - pr.arr_to_expr(p, dp, clmo) * pr.arr_to_expr(q, dq, clmo))
        chk.check(diff == 0 and len(r) == int(S(psi[6, dp + dq])), "C06.c", f"{PA}::_poly_mul[{dp}x{dq}]",
                  f"product of generic degree-{dp} and degree-{dq} polynomials (3 simulated threads, scrambled thread ids) differs from the mathematical product: {str(diff)[:160]}",
                  sample=f"deg {dp} x deg {dq}: {len(r)} coefficients equal those of p*q")
    for d, sup in ((1, None), (2, None), (3, sup3)):
        p = pr.generic_arr("a", d, psi, sup)
        P = pr.arr_to_expr(p, d, clmo)
        for var in range(6):
            r = pr.kernel_interp().call_function(PA, "_poly_diff", [p, var, d, psi, clmo, enc])
            n += 1
            diff = sp.expand(pr.arr_to_expr(r, d - 1, clmo) - sp.diff(P, X[var]))
            chk.check(diff == 0, "C06.c", f"{PA}::_poly_diff[d={d},var={var}]", f"d/dx{var} of a generic degree-{d} polynomial is wrong: {str(diff)[:160]}",
                      sample=f"d/dx{var}, degree {d}", nontrivial=(var in (0, 5)))
            ri_ = pr.kernel_interp().call_function(PA, "_poly_integrate", [p, var, d, psi, clmo, enc])
            n += 1
            diff = sp.expand(sp.diff(pr.arr_to_expr(ri_, d + 1, clmo), X[var]) - P)
            chk.check(diff == 0 and all(sp.expand(pr.arr_to_expr(ri_, d + 1, clmo)).coeff(X[var], 0) == 0 for _ in (0,)), "C06.c", f"{PA}::_poly_integrate[d={d},var={var}]",
                      f"integral w.r.t. x{var} of a generic degree-{d} polynomial is wrong: {str(diff)[:160]}", sample=f"int dx{var}, degree {d}", nontrivial=(var in (0, 5)))
    r0 = pr.kernel_interp().call_function(PA, "_poly_diff", [pr.generic_arr("a", 0, psi), 2, 0, psi, clmo, enc])
    chk.check(all(S(v) == 0 for v in to_obj_array(r0)), "C06.c", f"{PA}::_poly_diff[d=0]", "derivative of a constant is not zero", nontrivial=False)
    for dp, sp_, dq, sq in ((2, {0, 3, 7, 11, 20}, 2, {1, 4, 9, 20}), (1, None, 2, sup2), (3, sup3, 1, None), (1, None, 1, None)):
        p = pr.generic_arr("a", dp, psi, sp_)
        q = pr.generic_arr("b", dq, psi, sq)
        r = pr.kernel_interp().call_function(PA, "_poly_poisson", [p, dp, q, dq, psi, clmo, enc])
        n += 1
        diff = sp.expand(pr.arr_to_expr(r, max(dp + dq - 2, 0), clmo) - pr.poisson(pr.arr_to_expr(p, dp, clmo), pr.arr_to_expr(q, dq, clmo)))
        chk.check(diff == 0, "C06.c", f"{PA}::_poly_poisson[{dp},{dq}]",
                  f"Poisson bracket of degree-{dp} and degree-{dq} polynomials is not sum_m d_qm p d_pm q - d_pm p d_qm q: {str(diff)[:160]}",
                  sample=f"{{p,q}} for degrees {dp},{dq} (variables 0-2 positions, 3-5 momenta)")
    pt = to_obj_array([sp.Symbol(f"z{i}") for i in range(6)])
    for d, sup in ((2, None), (3, sup3)):
        p = pr.generic_arr("a", d, psi, sup)
        v = pr.kernel_interp().call_function(PA, "_poly_evaluate", [p, d, pt, clmo])
        n += 1
        diff = sp.expand(S(v) - pr.arr_to_expr(p, d, clmo).subs(dict(zip(X, pt)), simultaneous=True))
        chk.check(diff == 0, "C06.c", f"{PA}::_poly_evaluate[d={d}]", f"evaluation differs from sum coeff * prod point^k: {str(diff)[:160]}", sample=f"evaluate degree {d} at a symbolic point")
    chk.count("kernel interpretations (generic coefficients)", n)


# ------------------------------------------------------------------------------------------------ c (list level)
def _c_lists(chk, tier):
    MD = 3
    psi, clmo, enc = pr.tables(4)
    ip = pr.kernel_interp

    def mk(prefix, supports):
        return [pr.generic_arr(prefix, d, psi, supports.get(d, set())) for d in range(MD + 1)]

    P = mk("a", {0: {0}, 1: {0, 3}, 2: {2, 9}})
    Q = mk("b", {0: {0}, 1: {1, 4}, 2: {0, 20}, 3: {7}})
    Pe, Qe = pr.list_to_expr(P, clmo), pr.list_to_expr(Q, clmo)
    R = ip().call_function(PO, "_polynomial_multiply", [P, Q, MD, psi, clmo, enc])
    diff = sp.expand(pr.list_to_expr(R, clmo) - pr.truncate(Pe * Qe, MD))
    chk.check(diff == 0 and len(R) == MD + 1, "C06.c", f"{PO}::_polynomial_multiply", f"truncated product differs from the degree<={MD} part of p*q: {str(diff)[:160]}",
              sample=f"(p*q) truncated at degree {MD}; every degree pair d1+d2<={MD} visited once")
    B = ip().call_function(PO, "_polynomial_poisson_bracket", [P, Q, MD, psi, clmo, enc])
    diff = sp.expand(pr.list_to_expr(B, clmo) - pr.truncate(pr.poisson(Pe, Qe), MD))
    chk.check(diff == 0, "C06.c", f"{PO}::_polynomial_poisson_bracket", f"list-level Poisson bracket differs from {{p,q}} truncated at degree {MD}: {str(diff)[:160]}",
              sample="{p,q} with result degree d1+d2-2")
    # inputs longer than the truncation degree: {p_(MD+1), q_1} has degree MD and belongs to the result
    Plong = [pr.generic_arr("e", d, psi, {1: {2}, 4: {3, 30}}.get(d, set())) for d in range(MD + 2)]
    Ple = pr.list_to_expr(Plong, clmo)
    for label, A_, B_, Ae, Be in (("long first argument", Plong, Q, Ple, Qe), ("long second argument", Q, Plong, Qe, Ple)):
        Bl = ip().call_function(PO, "_polynomial_poisson_bracket", [A_, B_, MD, psi, clmo, enc])
        diff = sp.expand(pr.list_to_expr(Bl, clmo) - pr.truncate(pr.poisson(Ae, Be), MD))
        chk.check(diff == 0 and len(Bl) == MD + 1, "C06.c", f"{PO}::_polynomial_poisson_bracket[{label}]",
                  f"with an input that extends beyond the truncation degree the bracket loses terms of degree <= {MD}: {str(diff)[:160]}",
                  sample=f"{label}: {{p,q}} truncated at {MD} includes {{p_{MD + 1}, q_1}}")
    Pw = mk("c", {0: {0}, 1: {1, 5}})
    Pwe = pr.list_to_expr(Pw, clmo)
    for k in sorted({0, 1, 2, 3, MD + 1, MD + 2}):      # exponents above the truncation degree: the constant term keeps p^k alive
        W = ip().call_function(PO, "_polynomial_power", [Pw, k, MD, psi, clmo, enc])
        diff = sp.expand(pr.list_to_expr(W, clmo) - pr.truncate(Pwe ** k, MD))
        chk.check(diff == 0, "C06.c", f"{PO}::_polynomial_power[k={k}]", f"p^{k} (square-and-multiply) differs from the truncated power: {str(diff)[:160]}", sample=f"p^{k} truncated at {MD}")
    for var in (0, 4):
        Dl, dmax = ip().call_function(PO, "_polynomial_differentiate", [Q, var, MD, psi, clmo, psi, clmo, enc])
        diff = sp.expand(pr.list_to_expr(Dl, clmo) - sp.diff(Qe, X[var]))
        chk.check(diff == 0 and int(S(dmax)) == MD - 1, "C06.c", f"{PO}::_polynomial_differentiate[var={var}]", f"list-level derivative wrong: {str(diff)[:160]}", sample=f"d/dx{var}")
        Pi = mk("a", {0: {0}, 1: {0, 3}, 2: {2, 9}})[:MD]   # degree <= 2 so that the integral fits the degree-4 tables
        Il, imax = ip().call_function(PO, "_polynomial_integrate", [Pi, var, MD - 1, psi, clmo, psi, clmo, enc])
        diff = sp.expand(sp.diff(pr.list_to_expr(Il, clmo), X[var]) - pr.list_to_expr(Pi, clmo))
        chk.check(diff == 0 and int(S(imax)) == MD, "C06.c", f"{PO}::_polynomial_integrate[var={var}]", f"list-level integral wrong: {str(diff)[:160]}", sample=f"int dx{var}")
    # the documented interface: input tables built for exactly the input degree, output tables for one degree more.  Every table read must stay inside
    # the table it is made on (an out-of-range read in a compiled kernel is silent garbage: here the size of the result block)
    psi_in, clmo_in, enc_in = pr.tables(2)
    psi_out, clmo_out, enc_out = pr.tables(3)
    Pexact = [pr.generic_arr("i", d, psi_in, {2: {1, 7}}.get(d, set())) for d in range(3)]
    try:
        Il, imax = ip().call_function(PO, "_polynomial_integrate", [Pexact, 0, 2, psi_in, clmo_in, psi_out, clmo_out, enc_out])
        diff = sp.expand(sp.diff(pr.list_to_expr(Il, clmo_out), X[0]) - pr.list_to_expr(Pexact, clmo_in))
        ok, why = diff == 0 and int(S(imax)) == 3, f"d/dx0 of the result differs from the input: {str(diff)[:120]}"
    except OutsideFragment as exc:
        ok, why = False, f"a table is read outside its range ({str(exc)[:140]})"
    chk.check(ok, "C06.c", f"{PO}::_polynomial_integrate[tables of exactly the input degree]",
              f"with index tables built for the input degree (2) and result tables for degree 3, as the signature documents: {why}", sample="input tables of degree 2, result tables of degree 3: exact integral")
    for scale in (sp.Integer(1), sp.Integer(-1), sp.Symbol("alpha")):
        P2 = [a.copy() for a in P]
        ip().call_function(PO, "_polynomial_add_inplace", [P2, Q, scale, MD])
        diff = sp.expand(pr.list_to_expr(P2, clmo) - (Pe + scale * Qe))
        chk.check(diff == 0, "C06.c", f"{PO}::_polynomial_add_inplace[scale={scale}]", f"p += {scale}*q gives a different polynomial: {str(diff)[:120]}", sample=f"p += {scale} q")
    val = ip().call_function(PO, "_polynomial_evaluate", [P, to_obj_array([sp.Symbol(f"z{i}") for i in range(6)]), clmo])
    diff = sp.expand(S(val) - Pe.subs(dict(zip(X, [sp.Symbol(f"z{i}") for i in range(6)])), simultaneous=True))
    chk.check(diff == 0, "C06.c", f"{PO}::_polynomial_evaluate", "list-level evaluation differs from p(point)", sample="p(z)")
    for j in (0, 3, 5):
        V = ip().call_function(PO, "_polynomial_variable", [j, MD, psi, clmo, enc])
        chk.check(sp.expand(pr.list_to_expr(V, clmo) - X[j]) == 0, "C06.c", f"{PO}::_polynomial_variable[{j}]", f"variable polynomial {j} is not x{j}", sample=f"x{j}", nontrivial=False)
    # substitution: p_new(x) = p_old(C x) (row/column orientation) and affine variant
    MD2 = 2
    Cm = np.empty((6, 6), dtype=object)
    for i in range(6):
        for j in range(6):
            Cm[i, j] = sp.Integer(0)
    # a sparse but non-symmetric matrix with symbolic entries
    for (i, j) in ((0, 0), (0, 3), (1, 1), (2, 4), (3, 0), (4, 4), (5, 2), (1, 5)):
        Cm[i, j] = sp.Symbol(f"c{i}{j}")
    Pold = [pr.generic_arr("h", d, psi, {0: {0}, 1: {0, 4}, 2: {1, 8, 16}}.get(d, set())) for d in range(MD2 + 1)]
    Pold_e = pr.list_to_expr(Pold, clmo)
    ips = pr.kernel_interp()
    New = ips.call_function(PO, "_substitute_linear", [Pold, Cm, MD2, psi, clmo, enc, sp.Integer(-1)])
    lin = {X[i]: sum(Cm[i, j] * X[j] for j in range(6)) for i in range(6)}
    diff = sp.expand(pr.list_to_expr(New, clmo) - pr.truncate(Pold_e.subs(lin, simultaneous=True), MD2))
    chk.check(diff == 0, "C06.c", f"{PO}::_substitute_linear", f"linear substitution is not p_new(x) = p_old(C x) (x_i -> sum_j C[i,j] x_j): {str(diff)[:160]}",
              sample="p_new(x) = p_old(Cx) with a non-symmetric symbolic C")
    sh = to_obj_array([sp.Symbol(f"s{i}") if i in (0, 4) else sp.Integer(0) for i in range(6)])
    NewA = pr.kernel_interp().call_function(PO, "_substitute_affine", [Pold, Cm, sh, MD2, psi, clmo, enc, sp.Integer(-1)])
    aff = {X[i]: sum(Cm[i, j] * X[j] for j in range(6)) + sh[i] for i in range(6)}
    diff = sp.expand(pr.list_to_expr(NewA, clmo) - pr.truncate(Pold_e.subs(aff, simultaneous=True), MD2))
    chk.check(diff == 0, "C06.c", f"{PO}::_substitute_affine", f"affine substitution is not p_old(C x + shift): {str(diff)[:160]}", sample="p_new(x) = p_old(Cx + s)")
    chk.count("list-level interpretations", 24)
