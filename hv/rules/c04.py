"""C04 — libration points are equilibria with correct linear dynamics for every mu.

a  _dOmega_dx == x-acceleration of the field on the axis; triangular positions annihilate the field
b  gamma quintics proportional to the numerator of dOmega/dx at x_L(gamma); search range brackets a root for all mu
c  position brackets (primary + fallback) contain a sign change for every mu in (0, 1/2] and every catalogue pair
d  c_n from first principles (axis Taylor coefficients of the exact potential through the library's own local map)
e  _J_hess_H2: same characteristic polynomial as the Jacobian at the point
f  closed-form normal-form matrix: C^T J C = J and H2 o C diagonal (Groebner reduction modulo the defining relations)

a (added)  the point constructors admit the whole interval (0, 1/2] down to the smallest catalogue ratio
c (added)  the bracketed solver returns only at an exact zero or when the bracket is below the x-tolerance (CFG exit rule)
e (added)  L4/L5: J*Hess(H2) equals the linearised field at the point entry by entry; the frequency selection code is interpreted
           on the exact spectrum at the smallest catalogue ratio and at Earth-Moon (tolerances below the frequency gaps)
f-load / f-facade (round 4)  in-place loaders adopt the loaded object whole or rebuild the services (C20.h re-filed); facade -> service argument binding (rules/common.py)
e-options (round 5)  the linear-stability engine hands the options' band delta / tol and the system type to the backend (C12.b re-filed);  e: ROUTH_CRITICAL_MU is the root of 27 mu (1 - mu) = 1
"""
from __future__ import annotations

import ast
from fractions import Fraction

import numpy as np
import sympy as sp

from ..core import Check, AnalysisError
from .. import repoindex as ri
from ..kpe import Interp, SymObj, ClassRef, FuncRef, to_obj_array, S, OutsideFragment, KpeRaise
from ..alg import Radicals, is_zero, residual, short
from . import common

LIB = "hiten.algorithms.types.services.libration"
TR = "hiten.algorithms.hamiltonian.transforms"
CONST = "hiten.utils.constants"
RTBP = "hiten.algorithms.dynamics.rtbp"

MU = common.MU
GAM = sp.Symbol("gamma", positive=True)
POINTS = {"L1": "_L1DynamicsService", "L2": "_L2DynamicsService", "L3": "_L3DynamicsService"}


def _svc(cls_name, **attrs):
    mod, cls = ri.find_def(LIB, cls_name)
    base = {"mu": MU}
    base.update(attrs)
    return SymObj(ClassRef(mod, cls), base, cls_name)


def _xL(pt):
    """x_L(gamma) from the library's own local->synodic map at the local origin."""
    svc = _svc(POINTS[pt], gamma=GAM)
    ip = Interp()
    point = SymObj(None, {"mu": MU, "dynamics": svc}, "point")
    syn = to_obj_array(ip.call_function(TR, "_local2synodic_collinear", [point, to_obj_array([0] * 6)]))
    return sp.expand(S(syn[0])), svc


def _sign_on(expr, sym, lo, hi, lo_open=True):
    """Sign (+1/-1/0/None) of an expression affine or polynomial in `sym` on the interval; None if it changes."""
    e = sp.expand(expr)
    if not e.free_symbols:
        return int(sp.sign(e))
    P = sp.Poly(e, sym)
    n = P.count_roots(lo, hi)
    atlo = P.eval(lo) == 0
    if n - (1 if (atlo and lo_open) else 0) > 0:
        return None
    mid = (sp.Rational(lo) + sp.Rational(hi)) / 2
    return int(sp.sign(P.eval(mid)))


def _resolve_minmax(expr, sym, lo, hi):
    expr = sp.sympify(expr)

    def rec(e):
        if e.is_Atom:
            return e
        args = [rec(a) for a in e.args]
        if isinstance(e, (sp.Min, sp.Max)):
            best = args[0]
            for a in args[1:]:
                sg = _sign_on(a - best, sym, lo, hi)
                if sg is None:
                    raise AnalysisError(f"Min/Max ordering of {a} and {best} changes on the mu-domain")
                if (isinstance(e, sp.Max) and sg > 0) or (isinstance(e, sp.Min) and sg < 0):
                    best = a
            return best
        return e.func(*args)

    return rec(expr)


def _on_axis(expr, x, s1, s2):
    """Rewrite |x+mu|, |x-1+mu| and half-integer powers of their squares with the given constant signs."""
    expr = sp.sympify(expr)
    d1, d2 = x + MU, x - 1 + MU

    def side(e):
        for d, sg in ((d1, s1), (d2, s2)):
            q = sp.cancel(e / d)
            if q.is_number and q != 0:
                return sg * int(sp.sign(q)) * e
        return None

    def rec(e):
        if e.is_Atom:
            return e
        args = [rec(a) for a in e.args]
        if isinstance(e, sp.Abs):
            r = side(sp.expand(args[0]))
            if r is None:
                raise AnalysisError(f"unexpected absolute value {e} on the axis")
            return r
        if isinstance(e, sp.Pow) and args[1].is_Rational and not args[1].is_Integer and args[1].q == 2:
            b = sp.expand(args[0])
            for d, sg in ((d1, s1), (d2, s2)):
                if sp.expand(b - d ** 2) == 0:
                    return (sg * d) ** args[1].p
            raise AnalysisError(f"unexpected radical {e} on the axis")
        return e.func(*args)

    return rec(expr)


def run(tier):
    chk = Check("C04", tier, "proof",
                "Service methods are partially evaluated with mu and gamma symbolic; equilibrium, quintic, Legendre-coefficient, "
                "characteristic-polynomial and normal-form obligations are exact identities in Q(mu,gamma); bracket validity is a "
                "sign condition on a univariate rational function of mu decided on the whole interval (0,1/2] by exact real-root "
                "counting (Sturm), and on every catalogue pair by exact rational evaluation.",
                trusted_base=["python ast", "hv.kpe", "sympy Poly.count_roots / groebner / reduced", "Brent's method finds a root in a valid bracket",
                              "Legendre generating function"])
    # nothing computed for one mass ratio may be served for another: caches in the libration services are keyed completely
    from .. import memo
    from . import c20
    from .common import Relabel
    c20._d_callers_mutate(Relabel(chk, {"C20.d": "C04.a-alias"}), c20._sites(), members={"position", "gamma", "cn", "linear_modes", "normal_form_transform", "linear_data"})
    memo.check_modules(chk, "C04.b-memo", [LIB, "hiten.system.libration.base", "hiten.system.libration.collinear", "hiten.system.libration.triangular", "hiten.system.base"], floor=1)
    R = Radicals()
    field = common.crtbp_field()
    x = sp.Symbol("xq", real=True)
    ax_axis = field[3].subs({common.STATE[0]: x, common.STATE[1]: 0, common.STATE[2]: 0, common.STATE[3]: 0, common.STATE[4]: 0, common.STATE[5]: 0})
    # ------------------------------------------------------------------ a
    svc = _svc("_L1DynamicsService")
    ip = Interp()
    dO = S(ip.apply(ip.getattr(svc, "_dOmega_dx"), [x], {}))
    chk.count("functions partially evaluated")
    z, res = is_zero(dO - ax_axis, R)
    chk.check(z, "C04.a", f"{LIB}::_CollinearDynamicsService._dOmega_dx", f"root function is not the x-acceleration of the field on the axis: residual {short(res)}",
              sample="_dOmega_dx(x) == _crtbp_accel((x,0,0,0,0,0))[3]")
    _triangular_positions(chk, field, R)
    # ------------------------------------------------------------------ b, c
    def dO_at(xe, s1, s2):
        return sp.together(_on_axis(dO, x, s1, s2).subs(x, xe))

    for pt, cls in POINTS.items():
        xl, svc_g = _xL(pt)
        s1 = _sign_on((xl + MU).subs(GAM, sp.Rational(1, 3)), MU, 0, sp.Rational(1, 2)) if (xl + MU).has(MU) else int(sp.sign((xl + MU).subs(GAM, sp.Rational(1, 3))))
        s2 = int(sp.sign((xl - 1 + MU).subs(GAM, sp.Rational(1, 3)))) if not (xl - 1 + MU).has(MU) else None
        if s1 is None or s2 is None:
            raise AnalysisError(f"{pt}: cannot fix the side of the primaries for x_L = {xl}")
        expr = dO_at(xl, s1, s2)
        num, den = sp.fraction(sp.together(expr))
        svc0 = _svc(cls)
        coeffs, rng = Interp().getattr(svc0, "_gamma_poly_def")
        chk.count("functions partially evaluated")
        quint = sum(S(c) * GAM ** (len(coeffs) - 1 - i) for i, c in enumerate(coeffs))
        ratio = sp.cancel(sp.expand(num) / sp.expand(quint))
        ok = not ratio.has(GAM) and ratio != 0
        chk.check(ok, "C04.b", f"{LIB}::{cls}._gamma_poly_def[quintic]",
                  f"{pt}: the gamma polynomial is not proportional to the numerator of dOmega/dx at x_L(gamma) = {xl}; ratio = {short(ratio)}",
                  sample=f"{pt}: numerator(dOmega/dx(x_L(gamma))) = ({ratio}) * quintic(gamma), x_L = {xl}")
        # search range brackets a root for every mu in (0, 1/2]
        lo, hi = S(rng[0]), S(rng[1])
        qlo, qhi = sp.expand(quint.subs(GAM, lo)), sp.expand(quint.subs(GAM, hi))
        slo = _sign_on(qlo, MU, 0, sp.Rational(1, 2))
        shi = _sign_on(qhi, MU, 0, sp.Rational(1, 2))
        chk.check(slo is not None and shi is not None and slo * shi < 0, "C04.b", f"{LIB}::{cls}._gamma_poly_def[range]",
                  f"{pt}: quintic has signs {slo},{shi} at the ends of the search range {rng}: a root is not bracketed for every mu in (0,1/2]",
                  sample=f"{pt}: quintic({lo}) sign {slo}, quintic({hi}) sign {shi} for all mu in (0,1/2]")
        _bracket(chk, pt, cls, dO_at, tier)
        _cn(chk, pt, cls, xl, s1, s2, tier)
        _linear(chk, pt, cls, xl, s1, s2)
    _normal_form(chk)
    _admissible(chk)
    _solver_exits(chk)
    _triangular_linear(chk)
    _modes_at_extremes(chk)
    # the public facade binds every argument to the service parameter it is meant for (nominal swap rule, rules/common.py)
    from . import common as _common
    _common.facade_bindings(chk, "C04.f-facade", ['hiten.system.libration'], floor=6)
    # a system loaded in place answers with the points AND the equations of the loaded mass ratio (C20.h's in-place loader rule re-filed)
    from . import c20 as _c20
    _c20._h_inplace_loaders(Relabel(chk, {"C20.h": "C04.f-load"}))
    # the exponents / frequencies a point reports are classified with the band of ITS options: the linear-stability engine hands delta / tol on (C12.b re-filed)
    from . import c12 as _c12
    _c12._b_engine_invoke(Relabel(chk, {"C12.b": "C04.e-options"}), rule="C12.b")
    _e_routh_constant(chk)
    return chk


def _triangular_linear(chk):
    """L4/L5: the matrix whose eigenvalues are reported (J*Hess H2 in (x, y, px, py, z, pz)) is the linearisation of the
    equations of motion at the library's own position of the point, entry by entry - in particular the mixed term
    a = Omega_xy carries the point's own sign (L5 = mirror image of L4)."""
    x, y, z = common.STATE[:3]
    for cls in ("_L4DynamicsService", "_L5DynamicsService"):
        svc = _svc(cls)
        ip = Interp()
        pos = [S(v) for v in to_obj_array(ip.apply(ip.getattr(svc, "_compute_position"), [], {}))]
        F = to_obj_array(Interp().call_function(RTBP, "_jacobian_crtbp", [pos[0], pos[1], pos[2], MU]))
        Fm = sp.Matrix(6, 6, lambda i, j: sp.simplify(S(F[i, j])))
        # canonical momenta p = v + K x of the rotating frame: px = vx - y, py = vy + x, pz = vz
        T = sp.eye(6)
        T[3, 1], T[4, 0] = -1, 1
        A = (T * Fm * T.inv()).applyfunc(sp.simplify)          # ordering (x, y, z, px, py, pz)
        perm = [0, 1, 3, 4, 2, 5]                               # -> (x, y, px, py, z, pz), the ordering _J_hess_H2 is written in
        Aperm = sp.Matrix(6, 6, lambda i, j: A[perm[i], perm[j]])
        Jh = sp.Matrix(to_obj_array(Interp().apply(Interp().getattr(svc, "_J_hess_H2"), [], {})).tolist()).applyfunc(lambda e: sp.nsimplify(e, rational=True))
        diff = (Jh - Aperm).applyfunc(sp.simplify)
        bad = [((i, j), str(Jh[i, j]), str(Aperm[i, j])) for i in range(6) for j in range(6) if diff[i, j] != 0]
        chk.check(not bad, "C04.e", f"{LIB}::{cls}._J_hess_H2",
                  f"{cls}: J*Hess(H2) is not the linearised vector field at the point in canonical coordinates; differing entries (got, want): {bad[:3]}",
                  sample=f"{cls}: J_hess_H2 == T Df(x_L) T^-1 entry by entry (a = Omega_xy = {A[3, 1]})")
    chk.count("functions partially evaluated", 6)


def _modes_at_extremes(chk):
    """The code that turns the computed eigenvalues into (lambda, omega1, omega2) / (omega1, omega2, omega_z) identifies two
    eigenvalues as 'the same frequency' with a tolerance.  Distinct frequencies approach each other as mu -> 0 (L3: planar
    vs vertical, gap ~ 0.44 mu; L4/L5: long... short-period vs vertical, gap ~ 27/8 mu), so the tolerance must stay below the
    gap at the smallest catalogue ratio.  The selection code is interpreted on the exact eigenvalues (40 digits, from the
    library's own quintic / c2 / J_hess_H2 formulas) at the smallest catalogue ratio and at Earth-Moon, with the numerical
    eigen-solver replaced by those values."""
    cat = _catalogue()
    mu_min = min(m for _, _, m in cat)
    mu_em = next(m for p, s, m in cat if (p, s) == ("earth", "moon"))
    digits = 40
    for label, mu in (("smallest catalogue ratio", mu_min), ("earth-moon", mu_em)):
        # triangular
        a2 = sp.Rational(27, 16) * (1 - 2 * mu) ** 2
        disc = sp.sqrt(1 - 4 * (sp.Rational(27, 16) - a2))
        w1, w2 = sp.sqrt((1 + disc) / 2).evalf(digits), sp.sqrt((1 - disc) / 2).evalf(digits)
        for cls in ("_L4DynamicsService", "_L5DynamicsService"):
            svc = _svc(cls, mu=mu)
            Jh = sp.Matrix(to_obj_array(Interp().apply(Interp().getattr(svc, "_J_hess_H2"), [], {})).tolist())
            lam = sp.Symbol("lam")
            cp = sp.Poly(sp.expand((Jh.applyfunc(lambda e: sp.nsimplify(e, rational=False)) - lam * sp.eye(6)).det()), lam)
            vals = [sp.I * w1, -sp.I * w2, sp.I, -sp.I * w1, sp.I * w2, -sp.I]
            resid = max(abs(sp.N(cp.eval(v), digits)) for v in vals)
            if resid > sp.Float(10) ** (-25):
                raise AnalysisError(f"{cls}: reference eigenvalues do not annihilate the characteristic polynomial of _J_hess_H2 (residual {resid})")
            ip = Interp(np_overrides={"linalg.eigvals": lambda ip_, a_, k: to_obj_array(vals), "linalg.eig": lambda ip_, a_, k: (to_obj_array(vals), None)})
            try:
                out = ip.apply(ip.getattr(svc, "_compute_linear_modes"), [], {})
                got = sorted(abs(sp.N(S(v), digits)) for v in out)
                want = sorted([w1, w2, sp.Float(1, digits)])
                ok = len(got) == 3 and all(abs(g - w) < sp.Float(10) ** (-11) for g, w in zip(got, want))
                msg = f"returned {[str(sp.N(v, 12)) for v in out]}, eigenvalues are +-i*{sp.N(w1, 12)}, +-i*{sp.N(w2, 12)}, +-i"
            except KpeRaise as exc:
                ok, msg = False, f"raises: {exc.text[:120]} (frequencies {sp.N(w1, 12)}, {sp.N(w2, 12)}, 1 are distinct: gaps {sp.N(1 - w1, 3)}, {sp.N(w2, 3)})"
            chk.check(ok, "C04.e", f"{LIB}::_TriangularDynamicsService._compute_linear_modes[{cls[1:3]},{label}]",
                      f"{cls[1:3]} at mu = {sp.N(mu, 6)}: the reported frequencies are not the eigenvalues of the linearised equations: {msg}",
                      sample=f"{cls[1:3]}, mu={sp.N(mu, 6)}: three distinct frequencies recovered from the exact spectrum")
        # collinear
        for pt, cls in POINTS.items():
            coeffs, rng = Interp().getattr(_svc(cls, mu=mu), "_gamma_poly_def")
            g = sp.Symbol("g")
            quint = sp.Poly(sum(S(c) * g ** (len(coeffs) - 1 - i) for i, c in enumerate(coeffs)), g)
            roots = [r for r in quint.nroots(n=digits) if r.is_real and S(rng[0]) < r < S(rng[1])]
            if len(roots) != 1:
                raise AnalysisError(f"{pt}: gamma quintic has {len(roots)} roots in its search range at mu={mu}")
            gam = roots[0]
            svc_g = _svc(cls, mu=mu, gamma=gam)
            c2 = sp.N(S(Interp().apply(Interp().getattr(svc_g, "_compute_cn"), [2], {})), digits)
            root = sp.sqrt(9 * c2 ** 2 - 8 * c2)
            lam1, om1, om2 = sp.sqrt((c2 - 2 + root) / 2), sp.sqrt((2 - c2 + root) / 2), sp.sqrt(c2)
            vals = [lam1, sp.I * om1, sp.I * om2, -lam1, -sp.I * om2, -sp.I * om1]
            svc = _svc(cls, mu=mu, gamma=gam, cn=lambda n, _c2=c2: _c2)
            ip = Interp(np_overrides={"linalg.eig": lambda ip_, a_, k: (to_obj_array(vals), None), "linalg.eigvals": lambda ip_, a_, k: to_obj_array(vals)})
            try:
                out = ip.apply(ip.getattr(svc, "_compute_linear_modes"), [], {})
                got = [sp.N(S(v), digits) for v in out]
                ok = len(got) == 3 and all(abs(a_ - b_) < sp.Float(10) ** (-11) for a_, b_ in zip(got, (lam1, om1, om2)))
                msg = f"returned {[str(sp.N(v, 12)) for v in got]}, expected (lambda, omega_planar, omega_vertical) = ({sp.N(lam1, 12)}, {sp.N(om1, 12)}, {sp.N(om2, 12)})"
            except KpeRaise as exc:
                ok, msg = False, f"raises: {exc.text[:120]} (omega_planar - omega_vertical = {sp.N(om1 - om2, 3)})"
            chk.check(ok, "C04.e", f"{LIB}::_CollinearDynamicsService._compute_linear_modes[{pt},{label}]",
                      f"{pt} at mu = {sp.N(mu, 6)}: the reported exponent/frequencies are not the eigenvalues of the linearised equations: {msg}",
                      sample=f"{pt}, mu={sp.N(mu, 6)}: (lambda, omega1, omega2) recovered from the exact spectrum, gap {sp.N(om1 - om2, 3)}")
    chk.count("functions partially evaluated", 20)


ROOT = "hiten.algorithms.utils.rootfinding"


def _solver_exits(chk):
    """The bracketed root solver hands back a value only at an exact zero of the function or when the bracket has shrunk
    below the x-tolerance.  (A residual tolerance |f| <= ftol would stop early where f is flat: the gamma quintic's slope
    at its root tends to 0 with mu, so gamma - and c2, lambda, omega with it - would lose all accuracy for small mass
    ratios while Earth-Moon stays fine.)  Path rule on the solver's CFG: for every `return <value>` the nearest dominating
    test mentions function values only in comparisons with literal zero (== on the taken edge), and the x-tolerance
    reaches at least one exit test."""
    from ..cfg import CFG
    mod, fn = ri.find_def(ROOT, "solve_bracketed_brent")
    fparam = fn.args.args[0].arg
    # names that hold function values: assigned from a call of f, or copied among themselves
    res = set()
    changed = True
    assigns = []
    for n in ast.walk(fn):
        if isinstance(n, ast.Assign):
            for t in n.targets:
                assigns.append((t, n.value))
    def is_res_expr(e):
        if isinstance(e, ast.Name):
            return e.id in res
        if isinstance(e, ast.Call):
            f = e.func
            if isinstance(f, ast.Name) and f.id == fparam:
                return True
            if isinstance(f, ast.Name) and f.id == "float" and e.args:
                return is_res_expr(e.args[0])
        return False
    while changed:
        changed = False
        for t, v in assigns:
            pairs = list(zip(t.elts, v.elts)) if isinstance(t, ast.Tuple) and isinstance(v, ast.Tuple) and len(t.elts) == len(v.elts) else [(t, v)]
            for tt, vv in pairs:
                if isinstance(tt, ast.Name) and tt.id not in res and is_res_expr(vv):
                    res.add(tt.id)
                    changed = True
    # names derived from the x-tolerance parameter
    xt = {"xtol"} if any(a.arg == "xtol" for a in fn.args.args + fn.args.kwonlyargs) else set()
    if not xt or not res:
        raise AnalysisError(f"anchor: solve_bracketed_brent no longer has an xtol parameter / function-value variables (found {sorted(res)})")
    changed = True
    while changed:
        changed = False
        for t, v in assigns:
            if isinstance(t, ast.Name) and t.id not in xt and any(isinstance(x, ast.Name) and x.id in xt for x in ast.walk(v)):
                xt.add(t.id)
                changed = True
    g = CFG(fn)
    idom = g.dominators()
    n_ret, width_guard = 0, 0
    for node in g.stmt_nodes(cls=ast.Return):
        st = g.data(node)["stmt"]
        if st.value is None or (isinstance(st.value, ast.Constant) and st.value.value is None):
            continue
        n_ret += 1
        guards = g.guarded_by(node, idom)
        if not guards:
            chk.fail("C04.c", f"{ROOT}::solve_bracketed_brent[{ri.norm_stmt(st)} unguarded]", "a value is returned without any convergence test on the path")
            continue
        tnode, pol = guards[0]
        from ..cfg import resolve_guard
        cond, pol = resolve_guard(fn, g.data(tnode)["ast"], pol)
        atoms = []
        def split(e):
            if isinstance(e, ast.BoolOp):
                for v in e.values:
                    split(v)
            elif isinstance(e, ast.UnaryOp) and isinstance(e.op, ast.Not):
                split(e.operand)
            else:
                atoms.append(e)
        split(cond)
        bad = []
        for a in atoms:
            names = {x.id for x in ast.walk(a) if isinstance(x, ast.Name)}
            if names & xt:
                width_guard += 1
            if not (names & res):
                continue
            exact = isinstance(a, ast.Compare) and len(a.ops) == 1 and isinstance(a.ops[0], ast.Eq if pol else ast.NotEq) and \
                any(isinstance(c, ast.Constant) and c.value == 0 for c in [a.left] + a.comparators) and \
                any(isinstance(c, ast.Name) and c.id in res for c in [a.left] + a.comparators)
            if not exact:
                bad.append(ast.unparse(a))
        chk.check(not bad, "C04.c", f"{ROOT}::solve_bracketed_brent[exit `{ast.unparse(cond)[:40]}`]",
                  f"the solver returns a value on a test of the function value other than an exact zero: {bad} - accuracy in x then depends on the slope of f at the root, "
                  "which vanishes with mu for the gamma quintic", sample=f"return under `{ast.unparse(cond)[:50]}` ({'taken' if pol else 'not taken'} edge)")
    chk.floor("value returns of the root solver examined", n_ret, 3)
    chk.check(width_guard >= 1, "C04.c", f"{ROOT}::solve_bracketed_brent[x-tolerance]", "no exit test of the solver involves the x-tolerance", sample="abs(m) <= tol(xtol)", nontrivial=False)


def _admissible(chk):
    """Every admissible mass ratio gets its five points: the constructors' guards admit the whole interval (0, 1/2], end point
    included, down to the smallest catalogue ratio."""
    smallest = min(m for _, _, m in _catalogue())
    for modname, cname in (("hiten.system.libration.collinear", "CollinearPoint"), ("hiten.system.libration.triangular", "TriangularPoint")):
        mod, cls = ri.find_def(modname, cname)
        for label, mu in (("mu = 1/2", sp.Rational(1, 2)), ("smallest catalogue ratio", smallest), ("mu = 1/4", sp.Rational(1, 4))):
            system = SymObj(None, {"mu": mu}, "system")
            ip = Interp(overrides={"_setup_services": lambda ip_, a, k: None})
            # the base-class constructor wires services; only the guards of the class itself are of interest here
            base_init = []
            for bm, bc in ri.mro(mod, cls)[1:]:
                if any(isinstance(f, ast.FunctionDef) and f.name == "__init__" for f in bc.body):
                    base_init.append((bm.name, bc.name + ".__init__"))
            for key in base_init:
                ip.overrides[key] = lambda ip_, a, k: None
            raised = None
            try:
                ip.apply(ClassRef(mod, cls), [system], {})
            except KpeRaise as exc:
                raised = exc.text
            except OutsideFragment as exc:
                raise AnalysisError(f"{cname}.__init__ outside fragment: {exc}")
            chk.check(raised is None, "C04.a", f"{modname}::{cname}.__init__[{label}]", f"{cname} cannot be constructed for the admissible mass ratio {label}: {raised}",
                      sample=f"{cname}(system with {label}) is accepted", nontrivial=(label != "mu = 1/4"))
    chk.count("functions partially evaluated", 6)


def gamma_quintics(chk):
    """Only the [quintic] obligations of C04.b (re-filed by C07: the gamma that scales and centres the local frame is the
    distance ratio of the equilibrium)."""
    R = Radicals()
    field = common.crtbp_field()
    x = sp.Symbol("xq", real=True)
    svc = _svc("_L1DynamicsService")
    ip = Interp()
    dO = S(ip.apply(ip.getattr(svc, "_dOmega_dx"), [x], {}))
    for pt, cls in POINTS.items():
        xl, svc_g = _xL(pt)
        s1 = _sign_on((xl + MU).subs(GAM, sp.Rational(1, 3)), MU, 0, sp.Rational(1, 2)) if (xl + MU).has(MU) else int(sp.sign((xl + MU).subs(GAM, sp.Rational(1, 3))))
        s2 = int(sp.sign((xl - 1 + MU).subs(GAM, sp.Rational(1, 3)))) if not (xl - 1 + MU).has(MU) else None
        if s1 is None or s2 is None:
            raise AnalysisError(f"{pt}: cannot fix the side of the primaries for x_L = {xl}")
        expr = sp.together(_on_axis(dO, x, s1, s2).subs(x, xl))
        num, den = sp.fraction(sp.together(expr))
        coeffs, rng = Interp().getattr(_svc(cls), "_gamma_poly_def")
        quint = sum(S(c) * GAM ** (len(coeffs) - 1 - i) for i, c in enumerate(coeffs))
        ratio = sp.cancel(sp.expand(num) / sp.expand(quint))
        chk.check(not ratio.has(GAM) and ratio != 0, "C04.b", f"{LIB}::{cls}._gamma_poly_def[quintic]",
                  f"{pt}: the gamma polynomial is not proportional to the numerator of dOmega/dx at x_L(gamma) = {xl}; ratio = {short(ratio)}",
                  sample=f"{pt}: numerator(dOmega/dx(x_L(gamma))) = ({ratio}) * quintic(gamma), x_L = {xl}")
    chk.count("functions partially evaluated", 4)


# --------------------------------------------------------------------------------------------- triangular
def _triangular_positions(chk, field, R):
    for cls in ("_L4DynamicsService", "_L5DynamicsService"):
        svc = _svc(cls)
        ip = Interp()
        try:
            pos = to_obj_array(ip.apply(ip.getattr(svc, "_compute_position"), [], {}))
        except OutsideFragment as exc:
            raise AnalysisError(f"{cls}._compute_position outside fragment: {exc}")
        chk.count("functions partially evaluated")
        sub = dict(zip(common.STATE, list(pos) + [0, 0, 0]))
        bad = []
        for k in range(6):
            zr, res = is_zero(sp.sympify(field[k]).subs(sub, simultaneous=True), Radicals())
            if not zr:
                bad.append((k, short(sp.simplify(res), 80)))
        sgn = ip.getattr(svc, "sign")
        chk.check(not bad and S(pos[1]) * sgn > 0 and S(pos[2]) == 0, "C04.a", f"{LIB}::{cls}._compute_position",
                  f"triangular position {list(pos)} is not an equilibrium of the field (or on the wrong side): {bad}",
                  sample=f"{cls}: position {list(pos)} annihilates the field; y has sign {sgn}")


# --------------------------------------------------------------------------------------------- c
def _catalogue():
    ip = Interp()
    C = ip.module_value(CONST, "Constants")
    bodies = ip.getattr(C, "bodies")
    dist = ip.getattr(C, "orbital_distances")
    out = []
    for p, d in dist.items():
        for s in d:
            m1, m2 = S(bodies[p]["mass"]), S(bodies[s]["mass"])
            out.append((p, s, m2 / (m1 + m2)))
    return out


def _minmax_choices(expr):
    """All expressions obtained by replacing each Min/Max by one of its arguments, plus the switching differences."""
    expr = sp.sympify(expr)
    mm = list(expr.atoms(sp.Min, sp.Max))
    if not mm:
        return [expr], []
    outs, switches = [], []
    first = next(m for m in mm if not any(a.has(sp.Min, sp.Max) for a in m.args))
    args = list(first.args)
    for k, a in enumerate(args):
        for b in args[k + 1:]:
            switches.append(a - b)
        sub_outs, sub_sw = _minmax_choices(expr.xreplace({first: a}))
        outs.extend(sub_outs)
        switches.extend(sub_sw)
    return outs, switches


def _bracket(chk, pt, cls, dO_at, tier):
    svc = _svc(cls)
    calls = []

    def brent(ip_, args, kwargs):
        calls.append((args[1], args[2]))
        return None if len(calls) == 1 else sp.Symbol("ROOT")

    ip = Interp(overrides={"solve_bracketed_brent": brent})
    interval = ip.getattr(svc, "_position_search_interval")
    ip.apply(ip.getattr(svc, "_compute_position"), [interval], {})
    chk.count("functions partially evaluated")
    if len(calls) != 2:
        raise AnalysisError(f"{cls}._compute_position: expected primary + fallback Brent calls, saw {len(calls)}")
    t = sp.Symbol("tq", positive=True)
    uses_root = any(p.exp.is_Rational and not p.exp.is_Integer for c in calls for e in c for p in S(e).atoms(sp.Pow))
    if uses_root:
        var, lo, hi, muv = t, sp.Integer(0), sp.Rational(5504, 10000), 3 * t ** 3   # mu = 3 t^3, t <= (1/6)^(1/3) = 0.55032..
    else:
        var, lo, hi, muv = MU, sp.Integer(0), sp.Rational(1, 2), MU
    ivs = []
    for which, (A, B) in zip(("primary", "fallback"), calls):
        A, B = S(A), S(B)
        if uses_root:
            A = sp.simplify(sp.powdenest(A.subs(MU, muv), force=True))
            B = sp.simplify(sp.powdenest(B.subs(MU, muv), force=True))
            for e in (A, B):
                if any(p.exp.is_Rational and not p.exp.is_Integer for p in e.atoms(sp.Pow)):
                    raise AnalysisError(f"{cls} {which} interval end {e}: radical in mu not of the form (mu/3)^(1/3)")
        ivs.append((which, A, B))
    # critical values of var
    polys = []
    for which, A, B in ivs:
        for E in (A, B):
            cands, sw = _minmax_choices(E)
            for d in sw:
                polys.append(sp.expand(d))
            for c in cands:
                polys.append(sp.expand(c + muv))
                polys.append(sp.expand(c - 1 + muv))
                for sg1 in (1, -1):
                    for sg2 in (1, -1):
                        f = dO_at(c, sg1, sg2)
                        f = sp.together(f.subs(MU, muv)) if uses_root else f
                        num, den = sp.fraction(sp.together(f))
                        polys.append(sp.expand(num))
                        polys.append(sp.expand(den))
        cA, swA = _minmax_choices(A)
        cB, swB = _minmax_choices(B)
        for a in cA:
            for b in cB:
                polys.append(sp.expand(b - a))
    roots = set()
    for e in polys:
        if not e.free_symbols:
            continue
        P = sp.Poly(e, var)
        for rt in P.real_roots():
            rv = sp.N(rt, 60)
            if rv > lo and rv < sp.N(hi, 60):
                roots.add(sp.Rational(str(rv)))
    roots = sorted(roots)
    cuts = [sp.Rational(lo)] + roots + [sp.Rational(hi)]
    gaps = []

    def f_at(E0, mu0):
        d1, d2 = E0 + mu0, E0 - 1 + mu0
        if d1 == 0 or d2 == 0:
            return None
        val = dO_at(sp.Symbol("xq", real=True), int(sp.sign(d1)), int(sp.sign(d2))).subs({sp.Symbol("xq", real=True): E0, MU: mu0})
        return sp.sign(sp.nsimplify(val) if not val.is_Rational else val)

    for i in range(len(cuts) - 1):
        a, b = cuts[i], cuts[i + 1]
        if b - a < sp.Rational(1, 10 ** 45):
            continue
        mid = (a + b) / 2
        mu0 = muv.subs(var, mid) if uses_root else mid
        ok_any = False
        for which, A, B in ivs:
            A0, B0 = A.subs(var, mid), B.subs(var, mid)
            if not (A0.is_number and B0.is_number) or not A0 < B0:
                continue
            fa, fb = f_at(sp.Rational(A0), mu0), f_at(sp.Rational(B0), mu0)
            if fa is not None and fb is not None and fa * fb < 0:
                ok_any = True
        if not ok_any:
            gaps.append((a, b))
    # merge adjacent gaps
    merged = []
    for a, b in gaps:
        if merged and abs(merged[-1][1] - a) < sp.Rational(1, 10 ** 40):
            merged[-1] = (merged[-1][0], b)
        else:
            merged.append((a, b))
    cat = _catalogue()
    construct = f"{LIB}::{cls}._position_search_interval"

    def to_mu(v):
        return muv.subs(var, v) if uses_root else v

    if merged:
        ga, gb = to_mu(merged[0][0]), to_mu(merged[-1][1])
        inside = [f"{p}-{s}" for p, s, m in cat if any(to_mu(a) < m <= to_mu(b) for a, b in merged)]
        chk.fail("C04.c", construct,
                 f"{pt}: for mu in ({float(ga):.3e}, {float(gb):.3e}] neither the primary interval [{ivs[0][1]}, {ivs[0][2]}] nor the fallback "
                 f"[{ivs[1][1]}, {ivs[1][2]}] brackets the equilibrium (no sign change of dOmega/dx): the point cannot be returned. "
                 f"Catalogue pairs inside: {inside or 'none'}", gap=f"({float(ga):.6e}, {float(gb):.6e}]", catalogue=str(inside))
    else:
        chk.ok("C04.c", construct, sample=f"{pt}: primary [{ivs[0][1]}, {ivs[0][2]}] / fallback [{ivs[1][1]}, {ivs[1][2]}] bracket a sign change of "
                                          f"dOmega/dx for every mu in (0, 1/2] ({len(roots)} critical values, {len(cuts) - 1} cells examined)")
    # every catalogue pair individually (exact rational evaluation)
    bad = []
    for p, s_, m in cat:
        v0 = sp.real_root(m / 3, 3) if uses_root else m
        ok_any = False
        for which, A, B in ivs:
            A0, B0 = sp.N(A.subs(var, v0), 50), sp.N(B.subs(var, v0), 50)
            if not A0 < B0:
                continue
            fa, fb = f_at(sp.Rational(str(A0)), m), f_at(sp.Rational(str(B0)), m)
            if fa is not None and fb is not None and fa * fb < 0:
                ok_any = True
        if not ok_any:
            bad.append(f"{p}-{s_}")
    if bad and not merged:
        chk.fail("C04.c", construct + "[catalogue]", f"{pt}: no valid bracket for catalogue pairs {bad}")
    elif not bad:
        chk.ok("C04.c", construct + "[catalogue]", sample=f"{pt}: all {len(cat)} catalogue pairs have a valid bracket")
    chk.count("catalogue pairs", len(cat))
    chk.count("critical mu values (exact root isolation)", len(roots))


# --------------------------------------------------------------------------------------------- d
def _cn(chk, pt, cls, xl, s1, s2, tier):
    """c_n = -[x^n] ( U(x_L + local x)/gamma^2 ), n>=3; n=2 with the centrifugal part removed."""
    nmax = 8 if tier == "quick" else 12
    xloc = sp.Symbol("xi", real=True)
    svc_g = _svc(cls, gamma=GAM)
    ip = Interp()
    point = SymObj(None, {"mu": MU, "dynamics": svc_g}, "point")
    syn = to_obj_array(ip.call_function(TR, "_local2synodic_collinear", [point, to_obj_array([xloc, 0, 0, 0, 0, 0])]))
    X = sp.expand(S(syn[0]))
    # exact potential on the axis (from the first integral of C01.d: E = v^2/2 + U)
    E = common.exact_energy()
    U = E.subs({common.STATE[3]: 0, common.STATE[4]: 0, common.STATE[5]: 0, common.STATE[1]: 0, common.STATE[2]: 0})
    xs = common.STATE[0]
    Uax = _on_axis(U.subs(xs, sp.Symbol("xq", real=True)), sp.Symbol("xq", real=True), s1, s2).subs(sp.Symbol("xq", real=True), X)
    Uax = Uax / GAM ** 2
    bad = []
    g = Uax
    fact = 1
    for n in range(0, nmax + 1):
        if n >= 2:
            coeff = g.subs(xloc, 0) / fact
            got = S(Interp().apply(Interp().getattr(svc_g, "_compute_cn"), [n], {}))
            want = -coeff - (sp.Rational(1, 2) if n == 2 else 0)
            if residual(got - want) != 0:
                bad.append((n, short(sp.factor(sp.together(got - want)), 100)))
        g = sp.diff(g, xloc)
        fact *= (n + 1)
    chk.count("functions partially evaluated", nmax - 1)
    chk.check(not bad, "C04.d", f"{LIB}::{cls}._compute_cn",
              f"{pt}: c_n differs from the Taylor coefficient of the exact potential along the local x-axis for n = {[b[0] for b in bad]}: {bad[:2]}",
              sample=f"{pt}: c_n == -[x^n] U(x_L + map(x))/gamma^2 for n = 2..{nmax} as rational functions of (mu, gamma)")


# --------------------------------------------------------------------------------------------- e
def _linear(chk, pt, cls, xl, s1, s2):
    """Jacobian at (x_L,0,0): Omega_xx = 1+2c2, Omega_yy = 1-c2, Omega_zz = -c2; char poly of _J_hess_H2 equal."""
    x, y, z = common.STATE[:3]
    F = to_obj_array(Interp().call_function(RTBP, "_jacobian_crtbp", [x, 0, 0, MU]))
    Rr = Radicals()
    svc_g = _svc(cls, gamma=GAM)
    c2 = S(Interp().apply(Interp().getattr(svc_g, "_compute_cn"), [2], {}))
    want = {(3, 0): 1 + 2 * c2, (4, 1): 1 - c2, (5, 2): -c2}
    bad = []
    for (i, j), w in want.items():
        xq = sp.Symbol("xq", real=True)
        e = _on_axis(S(F[i, j]).subs(x, xq), xq, s1, s2).subs(xq, x)
        e = sp.together(e.subs(x, xl))
        if sp.cancel(sp.together(e - w)) != 0:
            bad.append(((i, j), short(sp.cancel(sp.together(e - w)), 100)))
    chk.check(not bad, "C04.e", f"{LIB}::{cls}[Omega_xx,yy,zz vs c2]",
              f"{pt}: second derivatives of the effective potential at the point are not (1+2c2, 1-c2, -c2) with c2 = cn(2): {bad}",
              sample=f"{pt}: F[3,0]=1+2c2, F[4,1]=1-c2, F[5,2]=-c2 at (x_L,0,0)")
    c2s = sp.Symbol("c2", positive=True)
    svc = _svc(cls, cn=lambda n: c2s)
    Jh = sp.Matrix(to_obj_array(Interp().apply(Interp().getattr(svc, "_J_hess_H2"), [], {})).tolist())
    lam = sp.Symbol("lam")
    cp = sp.expand((Jh - lam * sp.eye(6)).det())
    Fm = sp.zeros(6)
    for i in range(3):
        Fm[i, 3 + i] = 1
    Fm[3, 0], Fm[4, 1], Fm[5, 2] = 1 + 2 * c2s, 1 - c2s, -c2s
    Fm[3, 4], Fm[4, 3] = 2, -2
    cpF = sp.expand((Fm - lam * sp.eye(6)).det())
    chk.check(sp.expand(cp - cpF) == 0, "C04.e", f"{LIB}::{cls}._J_hess_H2",
              f"{pt}: characteristic polynomial of J*Hess(H2) differs from that of the linearised equations at the point: {sp.factor(cp - cpF)}",
              sample=f"{pt}: charpoly = {sp.factor(cp)}")
    chk.count("functions partially evaluated", 3)


# --------------------------------------------------------------------------------------------- f
def _normal_form(chk):
    L, W1, r = sp.symbols("L W1 r", positive=True)
    c2 = sp.Symbol("c2", positive=True)
    s1, s2 = sp.symbols("s1 s2", positive=True)
    svc = _svc("_L1DynamicsService", linear_modes=(L, W1, r ** 2), cn=lambda n: c2, scale_factor=lambda a, b: (s1, s2))
    svc.attrs["scale_factor"] = lambda a, b: (s1, s2)
    captured = {}

    def inv(ip_, args, kwargs):
        captured["C"] = args[0]
        return sp.Symbol("CINV")

    ip = Interp(decide=lambda cond: False, np_overrides={"linalg.inv": inv})
    C, Cinv = ip.apply(ip.getattr(svc, "_build_normal_form"), [], {})
    chk.count("functions partially evaluated")
    Cm = sp.Matrix(to_obj_array(C).tolist())
    chk.check(Cinv == sp.Symbol("CINV") and captured.get("C") is C, "C04.f", f"{LIB}::_CollinearDynamicsService._build_normal_form[Cinv]",
              "second component is not the inverse of the returned matrix C", sample="(C, inv(C))")
    # scale factors: squares from the code
    svc2 = _svc("_L1DynamicsService", cn=lambda n: c2)
    e1, e2 = Interp().apply(Interp().getattr(svc2, "_compute_scale_factor"), [L, W1], {})
    s1sq, s2sq = sp.expand(S(e1) ** 2), sp.expand(S(e2) ** 2)
    gens = (s1, s2, r, L, W1, c2)
    rels = [L ** 2 - W1 ** 2 - (c2 - 2), L ** 2 * W1 ** 2 + (1 + 2 * c2) * (1 - c2), r ** 4 - c2, s1 ** 2 - s1sq, s2 ** 2 - s2sq]
    G = sp.groebner(rels, *gens, order="lex")
    J = sp.Matrix(sp.BlockMatrix([[sp.zeros(3), sp.eye(3)], [-sp.eye(3), sp.zeros(3)]]))
    S1 = Cm.T * J * Cm - J
    bad = []

    def reduces(e):
        num, den = sp.fraction(sp.together(e))
        return G.reduce(sp.expand(num))[1] == 0

    for i in range(6):
        for j in range(6):
            if not reduces(S1[i, j]):
                bad.append((i, j))
    chk.check(not bad, "C04.f", f"{LIB}::_CollinearDynamicsService._build_normal_form[symplectic]",
              f"C^T J C != J at entries {bad[:6]} modulo lambda1^2-omega1^2=c2-2, lambda1^2 omega1^2=-(1+2c2)(1-c2), omega2^2=c2 and the scale-factor definitions",
              sample="36 entries of C^T J C - J reduce to 0 modulo the five defining relations (lex Groebner basis)")
    zq = sp.symbols("q1 q2 q3 p1 p2 p3")
    loc = Cm * sp.Matrix(zq)
    xx, yy, zz, px, py, pz = loc
    H2 = sp.Rational(1, 2) * (px ** 2 + py ** 2 + pz ** 2) + yy * px - xx * py - c2 * xx ** 2 + c2 / 2 * yy ** 2 + c2 / 2 * zz ** 2
    target = L * zq[0] * zq[3] + W1 / 2 * (zq[1] ** 2 + zq[4] ** 2) + r ** 2 / 2 * (zq[2] ** 2 + zq[5] ** 2)
    diff = sp.expand(H2 - target)
    P = sp.Poly(diff, *zq)
    bad = [m for m, cf in P.terms() if not reduces(cf)]
    chk.check(not bad, "C04.f", f"{LIB}::_CollinearDynamicsService._build_normal_form[H2 diagonal]",
              f"H2 o C is not lambda1 q1 p1 + omega1/2 (q2^2+p2^2) + omega2/2 (q3^2+p3^2); offending monomials {bad[:6]}",
              sample="21 quadratic coefficients of H2(C z) - normal form reduce to 0")
    chk.count("groebner reductions", 36 + len(P.terms()))
    # scale factor formula is what makes the above hold: already used as relations s1^2, s2^2 from _compute_scale_factor
    chk.ok("C04.f", f"{LIB}::_CollinearDynamicsService._compute_scale_factor", sample=f"s1^2 = {sp.factor(s1sq)}, s2^2 = {sp.factor(s2sq)}")


def _e_routh_constant(chk):
    """The mass ratio up to which the library says L4/L5 are linearly stable is Routh's: the root of 27 mu (1 - mu) = 1 in (0, 1/2) - the value at which
    the two planar frequencies of the linearisation the library itself uses (characteristic polynomial w^4 - w^2 + 27/4 mu (1 - mu)) merge."""
    TRI = "hiten.system.libration.triangular"
    mod, cls = ri.find_def(TRI, "TriangularPoint")
    ip = Interp()
    try:
        c = S(ip.getattr(ClassRef(mod, cls), "ROUTH_CRITICAL_MU"))
    except OutsideFragment as exc:
        raise AnalysisError(f"anchor: TriangularPoint.ROUTH_CRITICAL_MU not evaluable: {exc}")
    ok = sp.simplify(27 * c * (1 - c) - 1) == 0 and bool(0 < c) and bool(c < sp.Rational(1, 2))
    chk.check(ok, "C04.e", f"{TRI}::TriangularPoint.ROUTH_CRITICAL_MU",
              f"ROUTH_CRITICAL_MU = {c} = {sp.N(c, 8)}: 27 mu (1 - mu) = {sp.N(27 * c * (1 - c), 8)} there, not 1 (Routh's value is (1 - sqrt(23/27))/2 = 0.0385209): the stability "
              f"statement the library makes about L4/L5 is wrong for every mass ratio between the two (Earth-Moon included)", sample="27 c (1 - c) == 1, 0 < c < 1/2")
