"""C13 — continuation produces valid members, respects bounds and reports what happened.

a  stop on leaving the target interval      (CFG reachability with constant-flag propagation: all paths)
b  member limit and bookkeeping             (bounded unrolling of run() under every corrector outcome tape vs reference)
c  retry limit                              (CFG + bounded unrolling)
d  step control: clamp keeps sign and bounds, default shrink 0.5, failing shrink_policy falls back
e  predictions: natural adds step at the configured indices; secant r_last + tangent*|step|; tangent bookkeeping
f  members are corrected orbits carrying 2*half_period of their own correction

e (added)  one-parameter secant step: arc length |s0| for a 1-element step of either sign

f (round 3)  the default continuation parameter of a family consists of free coordinates of the reversing symmetry its correction relies on
d-cache (round 3)  the generate() key contains the options whole (C20.b re-filed)
e (round 4)  the configuration keeps the user's component order and the parameter getter reads it in that order; a step / target wider than the number of components must be rejected (known finding);
   d: options chain create_problem + to_backend_inputs
f (round 5)  the real _instantiate is interpreted (model seed carrying its own constructor); members receive the seed's correction configuration (known finding)
"""
from __future__ import annotations

import ast
import itertools

import numpy as np
import sympy as sp

from ..core import Check, AnalysisError
from .. import repoindex as ri
from ..cfg import CFG, calls_in
from ..kpe import Interp, SymObj, ClassRef, FuncRef, to_obj_array, S, OutsideFragment, KpeRaise
from ..regions import RegionDecider

PC = "hiten.algorithms.continuation.backends.pc"
SB = "hiten.algorithms.continuation.stepping.base"
NP_ = "hiten.algorithms.continuation.stepping.np.base"
SC = "hiten.algorithms.continuation.stepping.sc.base"
SUP = "hiten.algorithms.continuation.stepping.support"
IF = "hiten.algorithms.continuation.interfaces"


def run(tier):
    chk = Check("C13", tier, "other",
                "Two complementary static arguments. (1) Path rules on the statement CFG of the predictor-corrector loop, "
                "with propagation of constant boolean flags along paths: hold for every accept/reject history. (2) The loop "
                "is unrolled by the partial evaluator under every outcome tape of the (abstracted) corrector up to a bounded "
                "length and compared with a reference transition system written from the property statement. Stepper "
                "arithmetic is extracted as terms / evaluated over order-abstract regions.",
                trusted_base=["python ast", "hv.cfg", "hv.kpe", "reference loop model in hv/rules/c13.py::_reference"])
    _a_c_cfg(chk)
    _b_unroll(chk, tier)
    _d_factories_and_options(chk)
    _d_step_control(chk)
    _e_predictions(chk)
    _f_members(chk)
    _f_parameter_symmetry(chk)
    _d_options_chain(chk)
    _e_component_order(chk)
    _e_width_validation(chk)
    # a family served from the cache is the one generated with the options of the call (every step-control field included)
    from . import c20
    from .common import Relabel
    c20._b_key_params(Relabel(chk, {"C20.b": "C13.d-cache"}), [x for x in c20._sites() if x.cls.name == "_OrbitContinuationService"])
    # the public facade binds every argument to the service parameter it is meant for (nominal swap rule, rules/common.py)
    from . import common as _common
    _common.facade_bindings(chk, "C13.d-facade", ['hiten.system.orbits', 'hiten.system.family'], floor=5)
    return chk


# ------------------------------------------------------------------------------------------------ CFG rules
def _flag_reach(cfg, starts, init_state, stop_pred):
    """Nodes reachable from `starts` (list of nodes) with constant-flag propagation: state maps names to True/False for
    variables last assigned a boolean literal on the path; tests are evaluated three-valued under the state."""
    seen = set()
    hit = []
    todo = [(n, frozenset(init_state.items())) for n in starts]
    while todo:
        n, st = todo.pop()
        if (n, st) in seen:
            continue
        seen.add((n, st))
        d = cfg.data(n)
        state = dict(st)
        if stop_pred(n, d):
            hit.append(n)
            continue
        if d["kind"] == "stmt" and d["ast"] is not None:
            node = d["ast"]
            if isinstance(node, ast.Assign):
                for t in node.targets:
                    for nm in ast.walk(t):
                        if isinstance(nm, ast.Name):
                            state.pop(nm.id, None)
                    if isinstance(t, ast.Name) and isinstance(node.value, ast.Constant) and isinstance(node.value.value, bool):
                        state[t.id] = node.value.value
            elif isinstance(node, (ast.AugAssign, ast.AnnAssign, ast.For, ast.With)):
                for nm in ast.walk(node):
                    if isinstance(nm, ast.Name) and isinstance(nm.ctx, ast.Store):
                        state.pop(nm.id, None)
        allowed = None
        if d["kind"] == "test":
            tv = _tv(d["ast"], state)
            if tv is True:
                allowed = {"true"}
            elif tv is False:
                allowed = {"false"}
        fs = frozenset(state.items())
        for _, m, ed in cfg.g.out_edges(n, data=True):
            lab = ed.get("label")
            if allowed is not None and lab in ("true", "false") and lab not in allowed:
                continue
            todo.append((m, fs))
    return hit


def _tv(e, state):
    if isinstance(e, ast.Constant) and isinstance(e.value, bool):
        return e.value
    if isinstance(e, ast.Name):
        return state.get(e.id)
    if isinstance(e, ast.UnaryOp) and isinstance(e.op, ast.Not):
        v = _tv(e.operand, state)
        return None if v is None else (not v)
    if isinstance(e, ast.BoolOp):
        vals = [_tv(v, state) for v in e.values]
        if isinstance(e.op, ast.And):
            if any(v is False for v in vals):
                return False
            return True if all(v is True for v in vals) else None
        if any(v is True for v in vals):
            return True
        return False if all(v is False for v in vals) else None
    return None


def _derived_names(fn, seeds):
    """Names assigned (transitively) from expressions that mention one of the seed source texts."""
    names = set()
    changed = True
    while changed:
        changed = False
        for st in ast.walk(fn):
            if isinstance(st, ast.Assign) and len(st.targets) == 1 and isinstance(st.targets[0], ast.Name):
                txt = ast.unparse(st.value)
                used = {n.id for n in ast.walk(st.value) if isinstance(n, ast.Name)}
                if any(s in txt for s in seeds) or (used & names):
                    if st.targets[0].id not in names:
                        names.add(st.targets[0].id)
                        changed = True
    return names


def _a_c_cfg(chk):
    mod, fn = ri.find_def(PC, "_PredictorCorrectorContinuationBackend.run")
    cfg = CFG(fn)
    chk.count("CFG nodes", cfg.g.number_of_nodes())
    chk.count("CFG edges", cfg.g.number_of_edges())
    predict_nodes = [n for n in cfg.stmt_nodes() if any(isinstance(c.func, ast.Attribute) and c.func.attr == "predict" for c in calls_in(cfg.data(n)["ast"]))]
    if not predict_nodes:
        raise AnalysisError("anchor: no stepper.predict call in the continuation loop")
    is_predict = lambda n, d: n in predict_nodes  # noqa: E731
    # --- a: target test
    tnames = _derived_names(fn, ["request.target"])
    pnames = _derived_names(fn, ["params_history", "parameter_getter"])
    tests = []
    for n in cfg.stmt_nodes():
        d = cfg.data(n)
        if d["kind"] != "test":
            continue
        used = {x.id for x in ast.walk(d["ast"]) if isinstance(x, ast.Name)}
        if used & tnames:
            tests.append(n)
    if not tests:
        chk.fail("C13.a", f"{PC}::run[target test]", "the loop never compares an accepted member's parameters with the target interval")
    for t in tests:
        d = cfg.data(t)
        txt = ri.norm_stmt(d["ast"])
        # polarity: which edge means "outside"?  `any(p < tmin) or any(p > tmax)` true = outside; a negated / all(...) form false = outside
        outside_label = _outside_label(d["ast"])
        starts = cfg.succ(t, outside_label)
        hits = _flag_reach(cfg, starts, {}, is_predict)
        chk.check(not hits, "C13.a", f"{PC}::run[target exit]",
                  f"after a member leaves the target interval (test `{txt}`, {outside_label} edge) another stepper.predict is still reachable "
                  f"(both arms only leave the inner retry loop; the outer member loop has no target condition): the family keeps growing outside the target",
                  sample=f"from the outside-target edge of `{txt}` no predict call is reachable")
        # the tested parameters are those of the member just accepted
        used = {x.id for x in ast.walk(d["ast"]) if isinstance(x, ast.Name)}
        chk.check(bool(used & pnames), "C13.a", f"{PC}::run[target operand]", f"target test `{txt}` does not look at the accepted member's parameters",
                  sample=f"`{txt}` reads {sorted(used & pnames)}")
        # both bounds
        chk.check(any("min" in u for u in used & tnames) and any("max" in u for u in used & tnames) or len(used & tnames) >= 2, "C13.a",
                  f"{PC}::run[target bounds]", f"target test `{txt}` does not use both ends of the interval: {sorted(used & tnames)}",
                  sample=f"bounds {sorted(used & tnames)}")
    # --- c: retry-limit exit
    rtests = []
    for n in cfg.stmt_nodes():
        d = cfg.data(n)
        if d["kind"] == "test" and "max_retries_per_step" in ast.unparse(d["ast"]):
            rtests.append(n)
    if not rtests:
        chk.fail("C13.c", f"{PC}::run[retry test]", "no comparison against max_retries_per_step in the loop")
    for t in rtests:
        d = cfg.data(t)
        txt = ri.norm_stmt(d["ast"])
        hits = _flag_reach(cfg, cfg.succ(t, "true"), {}, is_predict)
        chk.check(not hits, "C13.c", f"{PC}::run[retry exit]",
                  f"after the retry limit is exceeded (`{txt}`) another predict is reachable", sample=f"true edge of `{txt}` leads to the exit without another predict")
        cmp_ = d["ast"]
        ok = isinstance(cmp_, ast.Compare) and isinstance(cmp_.ops[0], ast.Gt) and ast.unparse(cmp_.left) == "attempt"
        chk.check(ok, "C13.c", f"{PC}::run[retry comparison]", f"retry test is `{txt}`; the configured number of retries means give up when attempt > max_retries",
                  sample=txt, nontrivial=False)
    # member-limit guard on the outer loop
    loops = [n for n in cfg.stmt_nodes(ast.While) if cfg.data(n)["kind"] == "test" and "max_members" in ast.unparse(cfg.data(n)["ast"])]
    chk.check(bool(loops), "C13.b", f"{PC}::run[member guard]", "the member loop is not guarded by accepted_count < max_members",
              sample=ri.norm_stmt(cfg.data(loops[0])["ast"]) if loops else "")


def _outside_label(test):
    txt = ast.unparse(test)
    if isinstance(test, ast.UnaryOp) and isinstance(test.op, ast.Not):
        return "false" if _outside_label(test.operand) == "true" else "true"
    if "np.all" in txt and "np.any" not in txt:
        return "false"
    return "true"


# ------------------------------------------------------------------------------------------------ bounded unrolling
def _reference(tape, max_members, max_retries, params, tmin, tmax):
    fam, acc, rej, it, attempt = [0], 1, 0, 0, 0
    k = 0
    trace = []
    while acc < max_members:
        oc = tape[k] if k < len(tape) else "A"
        k += 1
        it += 1
        trace.append(("predict", fam[-1], rej_steps(trace)))
        if oc == "A":
            fam.append(k)
            acc += 1
            attempt = 0
            p = params[(len(fam) - 1) % len(params)]
            if p < tmin or p > tmax:
                break
        else:
            rej += 1
            attempt += 1
            if attempt > max_retries:
                break
    return fam, acc, rej, it


def rej_steps(trace):
    return None


def _run_tape(tape, max_members, max_retries, params, tmin, tmax):
    mod, cls = ri.find_def(PC, "_PredictorCorrectorContinuationBackend")
    state = {"k": 0, "predicts": [], "step_id": 0, "rejects": 0, "accepts": []}
    seed = to_obj_array([sp.Symbol("seed0"), sp.Symbol("seed1")])

    def member(k):
        return to_obj_array([sp.Symbol(f"m{k}_0"), sp.Symbol(f"m{k}_1")])

    members = {0: seed}

    def ident(v):
        for k, m in members.items():
            if isinstance(v, np.ndarray) and v.shape == m.shape and all(a == b for a, b in zip(v.ravel(), m.ravel())):
                return k
        return None

    def predict(last, step):
        state["predicts"].append((ident(last), S(step)))
        return SymObj(None, {"prediction": sp.Symbol(f"pred{len(state['predicts'])}"), "step_hint": None}, "proposal")

    def on_accept(**kw):
        return kw["step"]

    def on_reject(**kw):
        state["rejects"] += 1
        return sp.Symbol(f"stepR{state['rejects']}")

    stepper = SymObj(None, {"predict": predict, "on_accept": on_accept, "on_reject": on_reject}, "stepper")

    def corrector(pred):
        k = state["k"]
        oc = tape[k] if k < len(tape) else "A"
        state["k"] += 1
        if oc == "X":
            raise KpeRaise("corrector raised")
        if oc == "A":
            members[k + 1] = member(k + 1)
            state["accepts"].append(k + 1)
            return (members[k + 1], sp.Rational(1, 10 ** 9), True, {"period": sp.Symbol(f"T{k + 1}")})
        return (sp.Symbol("garbage"), sp.Rational(1), False)

    def param_getter(v):
        k = ident(v)
        idx = 0 if k in (0, None) else (state["accepts"].index(k) + 1)
        return to_obj_array([params[idx % len(params)]])

    request = SymObj(None, {"stepper_fn": None, "seed_repr": seed, "step": sp.Symbol("step0"), "predictor_fn": None, "step_min": sp.Symbol("smin"),
                            "step_max": sp.Symbol("smax"), "shrink_policy": None, "parameter_getter": param_getter, "corrector": corrector,
                            "target": (to_obj_array([tmin]), to_obj_array([tmax])), "max_members": max_members, "max_retries_per_step": max_retries}, "request")
    be = SymObj(ClassRef(mod, cls), {"_stepper_factory": lambda *a: stepper, "make_step_support": lambda: None, "on_iteration": lambda *a, **k: None,
                                     "on_accept": lambda *a, **k: None, "on_failure": lambda *a, **k: None, "_reset_state": lambda: None,
                                     "_last_residual": sp.nan}, "backend")
    ip = Interp()
    resp = ip.apply(ip.getattr(be, "run"), [], {"request": request})
    fam = resp.attrs["family_repr"]
    info = resp.attrs["info"]
    return [ident(to_obj_array(f)) for f in fam], info, state


def _d_factories_and_options(chk):
    """The configured bounds reach the stepper that applies them, for both stepper kinds, and the target interval is
    normalised component-wise (row 0 = lower bounds, row 1 = upper bounds) whatever the order it was typed in."""
    STP = "hiten.algorithms.continuation.stepping"
    SMIN, SMAX, POL = sp.Symbol("STEP_MIN"), sp.Symbol("STEP_MAX"), sp.Symbol("POLICY")
    for maker, clsname in (("make_natural_stepper", "_NaturalParameterStep"), ("make_secant_stepper", "_SecantStep")):
        # the real stepper classes are instantiated by the interpreted factory; what counts is what the stepper ends up holding
        support = SymObj(None, {"seed": lambda t: None, "get_tangent": sp.Symbol("GET_TANGENT")}, "support")
        ip = Interp(decide=lambda c: False)
        ip.isinstance_hook = lambda v, c: True if (isinstance(c, ClassRef) and "Support" in c.node.name) else None
        fac = ip.call_function(STP, maker, [])
        try:
            st = ip.apply(fac, [lambda *a: to_obj_array([sp.Symbol("r0")]), support, to_obj_array([sp.Symbol("seed0")]), to_obj_array([sp.Symbol("st0")]),
                                lambda *a: to_obj_array([sp.Symbol("p0")]), SMIN, SMAX, POL], {})
        except OutsideFragment as exc:
            raise AnalysisError(f"{maker} factory outside fragment: {exc}")
        held = getattr(st, "attrs", {})
        ok = held.get("_step_min") == SMIN and held.get("_step_max") == SMAX and held.get("_shrink_policy") == POL
        chk.check(ok, "C13.d", f"{STP}::{maker}[bounds]",
                  f"the stepper built by {maker} holds step_min={held.get('_step_min')}, step_max={held.get('_step_max')}, shrink_policy={held.get('_shrink_policy')}: the configured "
                  "bounds / policy do not reach the stepper (its defaults apply instead)", sample=f"{clsname}: _step_min, _step_max, _shrink_policy are the configured ones")
    chk.count("functions partially evaluated", 2)
    omod, ocls = ri.find_def("hiten.algorithms.continuation.options", "ContinuationOptions")
    for label, target, want in (("(hi, lo)", [5, 2], [[2], [5]]), ("(lo, hi)", [2, 5], [[2], [5]]),
                                ("two parameters, mixed order", [[3, 1], [2, 5]], [[2, 1], [3, 5]]), ("two parameters, ordered", [[1, 2], [4, 3]], [[1, 2], [4, 3]])):
        obj = SymObj(ClassRef(omod, ocls), {"target": to_obj_array(target), "step": None, "max_members": 10, "max_retries_per_step": 5, "step_min": sp.Rational(1, 10 ** 10),
                                            "step_max": 1, "shrink_policy": None}, "options")
        ip = Interp()
        try:
            ip.apply(ip.getattr(obj, "__post_init__"), [], {})
        except KpeRaise:
            pass          # later validation of unrelated fields
        except OutsideFragment as exc:
            raise AnalysisError(f"ContinuationOptions.__post_init__ outside fragment: {exc}")
        tn = to_obj_array(obj.attrs.get("target"))
        got = [[int(S(v)) for v in row] for row in tn.tolist()] if tn.ndim == 2 else None
        if want == [[1, 2], [4, 3]]:
            want = [[1, 2], [4, 3]]
            want = [[min(1, 4), min(2, 3)], [max(1, 4), max(2, 3)]]
        chk.check(got == want, "C13.a", f"hiten.algorithms.continuation.options::ContinuationOptions.__post_init__[target {label}]",
                  f"target {target} is normalised to {got}, expected {want} (component-wise lower bounds in row 0, upper bounds in row 1)", sample=f"{target} -> {want}")
    chk.count("functions partially evaluated", 4)


def _b_unroll(chk, tier):
    L = 4 if tier == "quick" else 6
    configs = [(3, 1), (2, 0), (4, 2)] if tier == "quick" else [(2, 0), (3, 0), (3, 1), (4, 1), (4, 2), (5, 3)]
    # member parameters: index 0 is the seed; member j has params[j]; one member leaves the target
    param_sets = [[sp.Rational(1, 10), sp.Rational(4, 10), sp.Rational(7, 10), sp.Rational(12, 10), sp.Rational(15, 10)],
                  [sp.Rational(5, 10), sp.Rational(-1, 10), sp.Rational(2, 10), sp.Rational(3, 10), sp.Rational(4, 10)]]
    tmin, tmax = sp.Integer(0), sp.Integer(1)
    n = 0
    bad = {}
    for (mm, mr), params in itertools.product(configs, param_sets):
        for tape in itertools.product("ARX", repeat=L):
            n += 1
            try:
                fam, info, st = _run_tape(tape, mm, mr, params, tmin, tmax)
            except OutsideFragment as exc:
                raise AnalysisError(f"continuation loop left the analysable fragment: {exc}")
            # reference
            rtape = ["A" if c == "A" else "R" for c in tape]
            rfam, racc, rrej, rit = _reference(rtape, mm, mr, params, tmin, tmax)
            got = (len(fam), int(info["accepted_count"]), int(info["rejected_count"]), int(info["iterations"]), len(st["predicts"]))
            want = (len(rfam), racc, rrej, rit, rit)
            if got != want:
                key = _classify(got, want, tape, mm, mr, params, tmin, tmax, fam)
                bad.setdefault(key, []).append((tape, mm, mr, got, want))
                continue
            # every member appended is a converged corrector output, in order; predict starts from the last member
            if fam != [0] + st["accepts"][: len(fam) - 1]:
                bad.setdefault("members", []).append((tape, mm, mr, fam, st["accepts"]))
            lastk = 0
            acc_iter = iter(st["accepts"])
            seq_ok = True
            cur = 0
            k = 0
            for (src, step) in st["predicts"]:
                if src != cur:
                    seq_ok = False
                oc = tape[k] if k < len(tape) else "A"
                k += 1
                if oc == "A":
                    cur = k
            if not seq_ok:
                bad.setdefault("predict-origin", []).append((tape, mm, mr))
            # step threading: after j rejections since start the step is stepR<j> (on_accept returns the step unchanged here)
            rej = 0
            k = 0
            for (src, step) in st["predicts"]:
                want_step = sp.Symbol("step0") if rej == 0 else sp.Symbol(f"stepR{rej}")
                if step != want_step:
                    bad.setdefault("step-threading", []).append((tape, mm, mr, str(step), str(want_step)))
                    break
                oc = tape[k] if k < len(tape) else "A"
                k += 1
                if oc != "A":
                    rej += 1
            # info: parameter_values has one entry per member; aux one per accepted (beyond the seed)
            if len(info["parameter_values"]) != len(fam) or len(info["aux"]) != len(fam) - 1:
                bad.setdefault("info-lengths", []).append((tape, mm, mr))
    chk.count("outcome tapes unrolled", n)
    msgs = {
        "target": ("C13.a", "members are still generated after one left the target interval (only the last member may lie outside)"),
        "limit": ("C13.b", "family size exceeds / falls short of max_members"),
        "retries": ("C13.c", "the run does not give up after max_retries_per_step consecutive rejections (or gives up early)"),
        "counts": ("C13.b", "reported accepted/rejected/iteration counts differ from the events that occurred"),
        "members": ("C13.f", "a family member is not the corrector's converged output (or out of order)"),
        "predict-origin": ("C13.e", "a prediction does not start from the last accepted member"),
        "step-threading": ("C13.d", "the step handed to predict is not the one returned by the last on_accept/on_reject"),
        "info-lengths": ("C13.b", "info['parameter_values'] / info['aux'] do not have one entry per member / accepted member"),
    }
    for key, (rule, text) in msgs.items():
        ex = bad.get(key, [])
        chk.check(not ex, rule, f"{PC}::run[unrolled:{key}]",
                  f"{text}; {len(ex)} of {n} outcome tapes disagree with the reference loop, e.g. tape={''.join(ex[0][0]) if ex else ''} "
                  f"max_members={ex[0][1] if ex else ''} max_retries={ex[0][2] if ex else ''} got/want={ex[0][3:] if ex else ''}",
                  sample=f"{n} tapes over {{A,R,X}}^{L} x {len(configs)} limits x {len(param_sets)} parameter histories agree with the reference ({key})")


def _classify(got, want, tape, mm, mr, params, tmin, tmax, fam):
    glen, gacc, grej, git, gpred = got
    wlen, wacc, wrej, wit, _ = want
    if glen != gacc or git != gpred:
        return "counts"
    if glen > wlen:
        # which limit was ignored?
        if wlen >= mm or glen > mm:
            return "limit"
        last_p = params[(wlen - 1) % len(params)]
        if last_p < tmin or last_p > tmax:
            return "target"
        return "retries"
    if glen < wlen:
        return "retries" if grej <= wrej else "limit"
    return "counts"


# ------------------------------------------------------------------------------------------------ d
def _d_step_control(chk):
    mod, cls = ri.find_def(NP_, "_NaturalParameterStep")
    smin, smax = sp.Rational(1, 100), sp.Integer(1)
    v = sp.Symbol("v", real=True)
    for rep, want in ((sp.Rational(1, 2), sp.Rational(1, 2)), (sp.Integer(5), 1), (sp.Rational(1, 1000), smin), (sp.Rational(-1, 2), sp.Rational(-1, 2)),
                      (sp.Integer(-7), -1), (sp.Rational(-1, 1000), -smin)):
        st = SymObj(ClassRef(mod, cls), {"_step_min": smin, "_step_max": smax, "_shrink_policy": None}, "stepper")
        ip = Interp()
        out = to_obj_array(ip.apply(ip.getattr(st, "_clamp_step"), [to_obj_array([v])], {}))
        val = sp.simplify(S(out[0]).subs(v, rep))
        chk.check(val == want, "C13.d", f"{SB}::_ContinuationStepBase._clamp_step[v={rep}]",
                  f"clamp({rep}) with bounds [{smin},{smax}] gives {val}, expected {want} (sign preserved, magnitude clipped)", sample=f"clamp({rep}) = {want}")
    # on_reject: default halving, then clamp; failing policy falls back to halving; policy used when given
    for policy, label, want in ((None, "default", v / 2), ("raises", "failing policy", v / 2), ("third", "policy", v / 3)):
        def pol_raise(x):
            raise KpeRaise("policy failed")
        def pol_third(x):
            return x / 3 if not isinstance(x, np.ndarray) else to_obj_array([e / 3 for e in x])
        pol = None if policy is None else (pol_raise if policy == "raises" else pol_third)
        clamped = []
        st = SymObj(ClassRef(mod, cls), {"_step_min": smin, "_step_max": smax, "_shrink_policy": pol,
                                         "_clamp_step": lambda x: (clamped.append(x), ("CLAMPED", x))[1]}, "stepper")
        ip = Interp()
        out = ip.apply(ip.getattr(st, "on_reject"), [], {"last_solution": sp.Symbol("last"), "step": to_obj_array([v]), "proposal": sp.Symbol("prop")})
        ok = isinstance(out, tuple) and out[0] == "CLAMPED" and len(clamped) == 1 and sp.simplify(S(to_obj_array(clamped[0])[0]) - want) == 0
        chk.check(ok, "C13.d", f"{SB}::_ContinuationStepBase.on_reject[{label}]",
                  f"on_reject with {label}: new step {clamped} (expected clamp({want}))", sample=f"{label}: clamp({want})")
    # on_accept: step hint or same step, clamped
    for hint, want in ((None, v), (sp.Symbol("hint"), sp.Symbol("hint"))):
        clamped = []
        st = SymObj(ClassRef(mod, cls), {"_clamp_step": lambda x: (clamped.append(x), ("CLAMPED", x))[1]}, "stepper")
        prop = SymObj(None, {"step_hint": hint, "prediction": sp.Symbol("p")}, "proposal")
        out = Interp().apply(Interp().getattr(st, "on_accept"), [], {"last_solution": 0, "new_solution": 0, "step": v, "proposal": prop})
        chk.check(isinstance(out, tuple) and clamped == [want], "C13.d", f"{SB}::_ContinuationStepBase.on_accept[hint={hint}]",
                  f"on_accept returns {out}", sample=f"hint={hint}: clamp({want})")
    chk.count("functions partially evaluated", 11)


# ------------------------------------------------------------------------------------------------ e
def _e_predictions(chk):
    # natural: interface predictor adds step[d] at the configured indices only
    mod, cls = ri.find_def(IF, "_OrbitContinuationInterface")
    iface = SymObj(ClassRef(mod, cls), {}, "iface")
    last = to_obj_array([sp.Symbol(f"x{i}") for i in range(6)])
    step = to_obj_array([sp.Symbol("d0"), sp.Symbol("d1")])
    prob = SymObj(None, {"state_indices": np.array([2, 4])}, "problem")
    ip = Interp()
    pred = ip.apply(ip.getattr(iface, "_predictor_from_problem"), [prob], {})
    out = to_obj_array(ip.apply(pred, [last.copy(), step], {}))
    want = list(last)
    want[2] = last[2] + step[0]
    want[4] = last[4] + step[1]
    chk.check(all(sp.expand(S(a) - b) == 0 for a, b in zip(out, want)) and list(last) == [sp.Symbol(f"x{i}") for i in range(6)], "C13.e",
              f"{IF}::_OrbitContinuationInterface._predictor_from_problem[indices]",
              f"natural prediction is not last + step at the configured state indices only (and must not mutate last): {list(out)}",
              sample="pred = last; pred[idx_d] += step[d]")
    prob0 = SymObj(None, {"state_indices": None}, "problem")
    pred0 = ip.apply(ip.getattr(iface, "_predictor_from_problem"), [prob0], {})
    s6 = to_obj_array([sp.Symbol(f"e{i}") for i in range(6)])
    out = to_obj_array(ip.apply(pred0, [last.copy(), s6], {}))
    chk.check(all(sp.expand(S(out[i]) - (last[i] + s6[i])) == 0 for i in range(6)), "C13.e", f"{IF}::_OrbitContinuationInterface._predictor_from_problem[full]",
              "full-vector natural prediction is not last + step", sample="pred = last + step")
    # natural stepper forwards predictor output and proposes the same step
    nmod, ncls = ri.find_def(NP_, "_NaturalParameterStep")
    seen = []
    predv = to_obj_array([sp.Symbol("PRED0"), sp.Symbol("PRED1")])
    st = SymObj(ClassRef(nmod, ncls), {"_predictor": lambda a, b: (seen.append((a, b)), predv)[1]}, "nat")
    pr = Interp().apply(Interp().getattr(st, "predict"), [sp.Symbol("last"), step], {})
    ok = isinstance(pr, SymObj) and list(to_obj_array(pr.attrs.get("prediction"))) == list(predv) and len(seen) == 1 and seen[0][0] == sp.Symbol("last") \
        and list(to_obj_array(seen[0][1])) == list(step)
    chk.check(ok and list(to_obj_array(pr.attrs.get("step_hint"))) == list(step), "C13.e", f"{NP_}::_NaturalParameterStep.predict",
              "natural stepper does not return predictor(last, step) with the step as hint", sample="proposal = (predictor(last, step), step)")
    # secant: r_last + tangent*|step|
    smod, scls = ri.find_def(SC, "_SecantStep")
    tan = to_obj_array([sp.Symbol(f"t{i}") for i in range(3)])
    rl = to_obj_array([sp.Symbol(f"r{i}") for i in range(3)])
    stv = to_obj_array([sp.Symbol("s0", real=True), sp.Symbol("s1", real=True)])
    sec = SymObj(ClassRef(smod, scls), {"_repr_fn": lambda v: rl, "_tangent_provider": lambda: tan}, "sec")
    pr = Interp().apply(Interp().getattr(sec, "predict"), [sp.Symbol("last"), stv], {})
    ds = sp.sqrt(stv[0] ** 2 + stv[1] ** 2)
    got = to_obj_array(pr.attrs["prediction"])
    chk.check(all(sp.simplify(S(got[i]) - (rl[i] + tan[i] * ds)) == 0 for i in range(3)), "C13.e", f"{SC}::_SecantStep.predict",
              f"secant prediction is not r_last + tangent*||step||: {list(got)}", sample="pred = r_last + tangent * ||step||")
    # a one-parameter family hands a 1-element step array: the arc length is its norm |s0| whatever the sign of s0
    st1 = to_obj_array([sp.Symbol("s0", real=True)])
    pr1 = Interp().apply(Interp().getattr(sec, "predict"), [sp.Symbol("last"), st1], {})
    got1 = to_obj_array(pr1.attrs["prediction"])
    chk.check(all(sp.simplify(S(got1[i]) - (rl[i] + tan[i] * sp.Abs(st1[0]))) == 0 for i in range(3)), "C13.e", f"{SC}::_SecantStep.predict[one parameter]",
              f"with a 1-element step the secant prediction is not r_last + tangent*|step| (a negative step would walk backwards along the secant): {list(got1)}",
              sample="pred = r_last + tangent * |s0| for step = [s0], s0 of either sign")
    sec0 = SymObj(ClassRef(smod, scls), {"_repr_fn": lambda v: rl, "_tangent_provider": lambda: None}, "sec")
    pr0 = Interp().apply(Interp().getattr(sec0, "predict"), [sp.Symbol("last"), sp.Symbol("ds", positive=True)], {})
    g0 = to_obj_array(pr0.attrs["prediction"])
    chk.check(sp.expand(S(g0[0]) - (rl[0] + sp.Symbol("ds", positive=True))) == 0 and all(g0[i] == rl[i] for i in (1, 2)), "C13.e",
              f"{SC}::_SecantStep.predict[no tangent]", "without a tangent the first coordinate is not advanced by the step", sample="n[0] += ds")
    # tangent bookkeeping: normalised difference of the last two accepted members
    umod, ucls = ri.find_def(SUP, "_VectorSpaceSecantSupport")
    sup = SymObj(ClassRef(umod, ucls), {"_tangent": None}, "support")
    a = to_obj_array([sp.Symbol("a0", real=True), sp.Symbol("a1", real=True)])
    b = to_obj_array([sp.Symbol("b0", real=True), sp.Symbol("b1", real=True)])
    ipx = Interp(decide=lambda c: False)
    ipx.apply(ipx.getattr(sup, "on_accept"), [a, b], {})
    tg = to_obj_array(ipx.apply(ipx.getattr(sup, "get_tangent"), [], {}))
    nrm = sp.sqrt((b[0] - a[0]) ** 2 + (b[1] - a[1]) ** 2)
    chk.check(all(sp.simplify(S(tg[i]) - (b[i] - a[i]) / nrm) == 0 for i in range(2)), "C13.e", f"{SUP}::_VectorSpaceSecantSupport.on_accept",
              f"tangent is not (curr - prev)/||curr - prev||: {list(tg)}", sample="tangent = (curr-prev)/||curr-prev||")
    chk.count("functions partially evaluated", 8)


# ------------------------------------------------------------------------------------------------ f
def _e_width_validation(chk):
    """A step / target with more columns than the configuration has continuation components is ill-formed: the predictor's zip()
    drops the surplus step entries, the secant stepper uses the norm of ALL of them as its step length, and the one-element
    parameter is broadcast against every target column - so the first member is offset by |step| instead of step[0] and the run
    stops because a column that belongs to no parameter is 'left'.  The interface must reject such options (anything that
    raises is accepted); silently building the problem is the violation."""
    mod, cls = ri.find_def(IF, "_OrbitContinuationInterface")
    opts = SymObj(None, {"target": to_obj_array([[sp.Symbol("A0"), sp.Symbol("B0")], [sp.Symbol("A1"), sp.Symbol("B1")]]), "step": to_obj_array([sp.Symbol("D0"), sp.Symbol("D1")]),
                         "max_members": 3, "max_retries_per_step": 3, "shrink_policy": None, "step_min": sp.Symbol("SMIN"), "step_max": sp.Symbol("SMAX"),
                         "extra_params": SymObj(None, {k: sp.Symbol(k) for k in ("tol", "max_attempts", "max_delta", "order", "steps", "forward", "fd_step")}, "extra")}, "options")
    cfg = SymObj(None, {"make_parameter_getter": lambda: sp.Symbol("GETTER"), "make_representation_of": lambda: sp.Symbol("REPR"), "state_indices": (2,), "_state_indices": (2,),
                        "stepper": "secant"}, "config")
    ip = Interp(overrides={"_ContinuationProblem": lambda ip_, a, k: SymObj(None, dict(k), "problem")}, decide=lambda c: None)
    iface = SymObj(ClassRef(mod, cls), {}, "interface")
    raised = False
    try:
        ip.apply(ip.getattr(iface, "create_problem"), [], {"domain_obj": SymObj(None, {}, "seed"), "config": cfg, "options": opts})
    except KpeRaise:
        raised = True
    except OutsideFragment as exc:
        raise AnalysisError(f"create_problem outside fragment: {exc}")
    chk.check(raised, "C13.e", f"{IF}::_OrbitContinuationInterface.create_problem[width of step/target]",
              "options with a 2-column step / target are accepted for a configuration with 1 continuation component: the first prediction is offset by |step| and the target "
              "test runs on a column that belongs to no parameter", sample="step/target width != number of state components -> rejected")


def _e_component_order(chk):
    """step[i] and target[:, i] of the options belong to state[i] of the configuration: the configuration keeps the user's component
    order (no sorting, no de-duplication) and the parameter getter reads the components in that order - `state=(Z, X)` with
    `step=(dz, dx)` must add dz to z.  The real _coerce_state_indices and parameter getter are interpreted on (2, 0), (0, 2), (4,)."""
    CFGM = "hiten.algorithms.continuation.config"
    cmod, ccls = ri.find_def(CFGM, "OrbitContinuationConfig")
    vec = to_obj_array([sp.Symbol(f"s{i}") for i in range(6)])
    for state in ((2, 0), (0, 2), (4,), (1, 5, 3)):
        ip = Interp()
        ip.isinstance_hook = lambda v, c: (isinstance(v, (tuple, list)) if (getattr(getattr(c, "node", None), "name", None) == "Sequence" or "Sequence" in repr(c)) else
                                           (False if getattr(getattr(c, "node", None), "name", None) == "SynodicState" else None))
        try:
            idx = ip.apply(ip.getattr(ClassRef(cmod, ccls), "_coerce_state_indices"), [state], {})
            getter = ip.call_function(CFGM, "_make_orbit_parameter_getter", [idx])
            got = to_obj_array(ip.apply(getter, [vec.copy()], {}))
        except OutsideFragment as exc:
            raise AnalysisError(f"continuation state indices outside fragment: {exc}")
        chk.count("functions partially evaluated", 2)
        chk.check(tuple(int(S(i)) for i in idx) == state, "C13.e", f"{CFGM}::OrbitContinuationConfig._coerce_state_indices[{state}]",
                  f"state={state} is stored as {tuple(idx)}: step / target columns of the options (given in the user's order) are then applied to other components",
                  sample=f"state={state} kept in the given order")
        chk.check(list(got) == [vec[i] for i in state], "C13.e", f"{CFGM}::_make_orbit_parameter_getter[{state}]",
                  f"the parameter of a member with state s is {list(got)} for state={state}, expected {[vec[i] for i in state]}", sample=f"parameter = s[{list(state)}]")


def _d_options_chain(chk):
    """Bounds and limits of the call reach the backend: _OrbitContinuationInterface.create_problem and to_backend_inputs are
    interpreted with symbolic options; step, target, member limit, retry limit, minimum / maximum step and shrink policy arrive in
    the backend request, and the corrector settings of extra_params arrive in the problem, each under its own name; the stepper
    function handed to the backend is the one the configured stepper needs."""
    mod, cls = ri.find_def(IF, "_OrbitContinuationInterface")
    SMIN, SMAX, SHR = sp.Symbol("STEP_MIN", positive=True), sp.Symbol("STEP_MAX", positive=True), sp.Symbol("SHRINK")
    STEP, TGT = to_obj_array([sp.Symbol("STEP0")]), to_obj_array([[sp.Symbol("TGT_LO")], [sp.Symbol("TGT_HI")]])
    ex = {k: sp.Symbol("X_" + k.upper()) for k in ("tol", "max_attempts", "max_delta", "order", "steps", "forward", "fd_step")}
    for stepper in ("natural", "secant"):
        opts = SymObj(None, {"target": TGT, "step": STEP, "max_members": 11, "max_retries_per_step": 5, "shrink_policy": SHR, "step_min": SMIN, "step_max": SMAX,
                             "extra_params": SymObj(None, dict(ex), "extra")}, "options")
        cfg = SymObj(None, {"make_parameter_getter": lambda: sp.Symbol("GETTER"), "make_representation_of": lambda: (lambda v: to_obj_array([sp.Symbol("REPR")])),
                            "state_indices": (2,), "stepper": stepper}, "config")
        prob_kw, req_kw = {}, {}
        ip = Interp(overrides={"_ContinuationProblem": lambda ip_, a, k: (prob_kw.update(k), SymObj(None, dict(k), "problem"))[1],
                               "ContinuationBackendRequest": lambda ip_, a, k: (req_kw.update(k), SymObj(None, dict(k), "request"))[1],
                               "_BackendCall": lambda ip_, a, k: SymObj(None, dict(k), "call")})
        iface = SymObj(ClassRef(mod, cls), {"_build_corrector": lambda p_: sp.Symbol("CORRECTOR"), "_predictor_from_problem": lambda p_: sp.Symbol("PREDICTOR")}, "interface")
        dom = SymObj(None, {}, "seed orbit")
        try:
            prob = ip.apply(ip.getattr(iface, "create_problem"), [], {"domain_obj": dom, "config": cfg, "options": opts})
            ip.apply(ip.getattr(iface, "to_backend_inputs"), [prob], {})
        except OutsideFragment as exc:
            raise AnalysisError(f"continuation options chain outside fragment: {exc}")
        chk.count("functions partially evaluated", 2)
        want_p = {"initial_solution": dom, "parameter_getter": sp.Symbol("GETTER"), "max_members": 11, "max_retries_per_step": 5, "shrink_policy": SHR, "step_min": SMIN,
                  "step_max": SMAX, "stepper": stepper}
        want_p.update({"corrector_" + k: v for k, v in ex.items()})
        bad = {k: prob_kw.get(k) for k, v in want_p.items() if not (k in prob_kw and (prob_kw[k] is v or prob_kw[k] == v))}
        chk.check(not bad, "C13.d", f"{IF}::_OrbitContinuationInterface.create_problem[{stepper}]",
                  f"the problem carries {bad} instead of {dict((k, want_p[k]) for k in bad)}", sample="problem: limits, bounds, stepper and corrector settings of the call")
        want_r = {"max_members": 11, "max_retries_per_step": 5, "shrink_policy": SHR, "step_min": SMIN, "step_max": SMAX, "parameter_getter": sp.Symbol("GETTER"),
                  "corrector": sp.Symbol("CORRECTOR"), "predictor_fn": sp.Symbol("PREDICTOR")}
        bad = {k: req_kw.get(k) for k, v in want_r.items() if not (k in req_kw and (req_kw[k] is v or req_kw[k] == v))}
        arr = {"step": STEP, "target": TGT, "seed_repr": to_obj_array([sp.Symbol("REPR")])}
        for k, v in arr.items():
            g = req_kw.get(k)
            if g is None or to_obj_array(g).shape != v.shape or list(to_obj_array(g).ravel()) != list(v.ravel()):
                bad[k] = g
        sf = req_kw.get("stepper_fn")
        if stepper == "natural" and sf != sp.Symbol("PREDICTOR"):
            bad["stepper_fn"] = sf
        if stepper == "secant" and (sf == sp.Symbol("PREDICTOR") or sf is None):
            bad["stepper_fn"] = sf
        chk.check(not bad, "C13.d", f"{IF}::_OrbitContinuationInterface.to_backend_inputs[{stepper}]",
                  f"the backend request carries {bad}: not the bounds / limits / functions of the call", sample=f"{stepper}: request fields copied from the problem under their own names")


def _f_parameter_symmetry(chk):
    """Members are corrected with the family's symmetric scheme (start on the fixed set of a reversing symmetry, perpendicular
    arrival at the event plane, period = multiple of the event time): that closes the orbit only if the START stays in the
    fixed set.  The predictor moves the components named by the family's default continuation `state`; each of them must be a
    free coordinate of the start symmetry (S1: x, z, vy; S2: x, vy, vz) - stepping y (or a velocity the symmetry pins to
    zero) produces members whose corrections 'converge' at the first plane crossing without being periodic."""
    from . import c05
    OSM = "hiten.algorithms.types.services.orbits"
    omod = ri.need_module(OSM)
    names = {0: "x", 1: "y", 2: "z", 3: "vx", 4: "vy", 5: "vz"}
    n = 0
    for fam, ccls, Z0, ctl, res, coord, start, arrive in c05.family_symmetries():
        cname = f"_{fam}OrbitContinuationService"
        cls = next((c for c in omod.tree.body if isinstance(c, ast.ClassDef) and c.name == cname), None)
        if cls is None or not any(isinstance(f, ast.FunctionDef) and f.name == "_default_continuation_config" for f in cls.body):
            continue
        cap = {}
        ip = Interp(overrides={"OrbitContinuationConfig": lambda ip_, a, k: (cap.update(k), SymObj(None, dict(k), "cfg"))[1]})
        try:
            ip.apply(ip.getattr(SymObj(ClassRef(omod, cls), {}, "svc"), "_default_continuation_config"), [], {})
        except (KpeRaise, OutsideFragment) as exc:
            raise AnalysisError(f"{cname}._default_continuation_config outside fragment: {exc}")
        st = cap.get("state")
        if st is None:
            continue
        idx = {int(S(i)) for i in (st if isinstance(st, (tuple, list)) else (st,))}
        n += 1
        # symmetries whose fixed set contains the analytic start state (the correction's own choice when it has one)
        cands = start or [nm for nm, (zs, free) in c05.SYMMETRIES.items() if zs <= Z0]
        ok = any(idx <= c05.SYMMETRIES[nm][1] for nm in cands)
        chk.check(ok, "C13.f", f"{OSM}::{cname}._default_continuation_config[state]",
                  f"{fam}: the default continuation steps {sorted(names[i] for i in idx)} but the family's start state lies in Fix({cands}) (zero components "
                  f"{sorted(names[i] for i in Z0)}): {sorted(names[i] for i in idx if not any(i in c05.SYMMETRIES[nm][1] for nm in cands))} are pinned to zero by that symmetry, "
                  f"so the predicted members leave the symmetry set and their symmetric correction does not close them",
                  sample=f"{fam}: continuation in {sorted(names[i] for i in idx)} stays inside Fix({cands})")
    chk.floor("families with a default continuation parameter examined", n, 3)


def _f_members(chk, scheme=True):
    mod, cls = ri.find_def(IF, "_OrbitContinuationInterface")
    made = []

    def instantiate(dom, rep):
        o = SymObj(None, {"period": sp.Symbol("T_seed"), "rep": rep, "corrected_with": None}, f"orbit{len(made)}")
        half = sp.Symbol(f"half{len(made)}")
        o.attrs["correct"] = lambda options=None, _o=o, _h=half: (_o.attrs.__setitem__("corrected_with", options),
                                                                   SymObj(None, {"x_corrected": to_obj_array([sp.Symbol("xc0"), sp.Symbol("xc1")]),
                                                                                 "half_period": _h, "converged": True}, "res"))[1]
        made.append((o, half))
        return o

    iface = SymObj(ClassRef(mod, cls), {"_instantiate": instantiate}, "iface")
    prob = SymObj(None, {"initial_solution": sp.Symbol("SEED"), "corrector_tol": sp.Symbol("tol"), "corrector_max_attempts": 7, "corrector_max_delta": sp.Symbol("md"),
                         "corrector_order": 8, "corrector_steps": 100, "corrector_fd_step": sp.Symbol("fd"), "corrector_forward": 1}, "problem")
    opt_ctor = lambda ip_, a, k: SymObj(None, dict(k), "opts")  # noqa: E731
    ip = Interp(overrides={n: opt_ctor for n in ("OrbitCorrectionOptions", "CorrectionOptions", "ConvergenceOptions", "IntegrationOptions", "NumericalOptions")})
    corr = ip.apply(ip.getattr(iface, "_build_corrector"), [prob], {})
    pred = to_obj_array([sp.Symbol("p0"), sp.Symbol("p1")])
    out = ip.apply(corr, [pred], {})
    chk.count("functions partially evaluated", 2)
    ok = isinstance(out, tuple) and len(out) == 4 and made and list(to_obj_array(out[0])) == [sp.Symbol("xc0"), sp.Symbol("xc1")] and out[2] is True
    chk.check(ok, "C13.f", f"{IF}::_OrbitContinuationInterface._build_corrector[output]",
              "the continuation corrector does not return (corrected state, residual, converged flag, aux) of orbit.correct()", sample="(x_corrected, ||x_corr - prediction||, converged, aux)")
    if ok:
        aux = out[3]
        chk.check(sp.simplify(S(aux.get("period")) - 2 * made[0][1]) == 0, "C13.f", f"{IF}::_OrbitContinuationInterface._build_corrector[period]",
                  f"aux['period'] = {aux.get('period')} is not 2 * half_period of this very correction", sample="aux['period'] = 2*half_period")
        o = made[0][0]
        chk.check(list(to_obj_array(o.attrs["rep"])) == list(pred), "C13.f", f"{IF}::_OrbitContinuationInterface._build_corrector[seed]",
                  "the orbit that is corrected is not instantiated from the prediction")
        conv = o.attrs["corrected_with"]
        tolv = None
        try:
            tolv = conv.attrs["base"].attrs["convergence"].attrs["tol"]
        except Exception:  # noqa: BLE001
            pass
        chk.check(tolv == sp.Symbol("tol"), "C13.f", f"{IF}::_OrbitContinuationInterface._build_corrector[tolerance]",
                  f"members are corrected with tol={tolv}, not the configured corrector tolerance", sample="ConvergenceOptions(tol=problem.corrector_tol)")
    # to_domain: member period = aux period (after the inherited seed period)
    made.clear()

    # the REAL _instantiate is interpreted (the seed is a model orbit that carries its own constructor), so that whatever the interface does with
    # periods between instantiation and hand-over - in either method - is seen
    def orbit_ctor(*a, **k):
        o = SymObj(None, {"period": None, "initial_state": k.get("initial_state"), "libration_point": k.get("libration_point")}, f"orbit{len(made)}")
        made.append(o)
        return o

    seed = SymObj(None, {"period": sp.Symbol("T_seed"), "libration_point": sp.Symbol("LP"), "__class__": orbit_ctor, "correction_config": sp.Symbol("SEED_CORRECTION_CONFIG"),
                         "_correction_config": sp.Symbol("SEED_CORRECTION_CONFIG")}, "seed orbit")
    iface2 = SymObj(ClassRef(mod, cls), {}, "iface")
    outputs = SymObj(None, {"family_repr": [sp.Symbol("F0"), sp.Symbol("F1"), sp.Symbol("F2")],
                            "info": {"accepted_count": 3, "rejected_count": 1, "iterations": 3, "parameter_values": (1, 2, 3),
                                     "aux": ({"period": sp.Symbol("Tm1", positive=True)}, {"period": sp.Symbol("Tm2", positive=True)})}}, "outputs")
    cap = {}

    def payload(ip_, a, k):
        cap.update(a[0])
        return SymObj(None, dict(a[0]), "payload")

    ipx = Interp(decide=lambda c: True)
    mod_types = "hiten.algorithms.continuation.types"
    pm, pc_ = ri.find_def(mod_types, "ContinuationDomainPayload")
    iface2.attrs["__payload__"] = None
    # _from_mapping is a classmethod: override by qualname
    ipx.overrides["ContinuationDomainPayload._from_mapping"] = payload
    ipx.overrides["_from_mapping"] = payload
    prob2 = SymObj(None, {"initial_solution": seed}, "problem")
    ipx.apply(ipx.getattr(iface2, "to_domain"), [outputs], {"problem": prob2})
    chk.count("functions partially evaluated")
    ok = len(made) == 2 and made[0].attrs["period"] == sp.Symbol("Tm1", positive=True) and made[1].attrs["period"] == sp.Symbol("Tm2", positive=True)
    chk.check(ok, "C13.f", f"{IF}::_OrbitContinuationInterface.to_domain[period]",
              f"family members do not carry the period of their own correction: {[m.attrs['period'] for m in made]}", sample="member i period = aux[i-1]['period']")
    # ... and is corrected by the scheme the seed was corrected with: a member instantiated from the orbit CLASS alone falls back to the class's default correction
    # configuration - none at all for a GenericOrbit (every member "fails", the exception is swallowed and counted as a rejected correction), the default
    # controls for a halo whose seed was corrected with other controls (members snap back onto the seed)
    cfgs = [m.attrs.get("correction_config", m.attrs.get("_correction_config")) for m in made]
    if scheme:
        chk.check(bool(made) and all(c == sp.Symbol("SEED_CORRECTION_CONFIG") for c in cfgs), "C13.f", f"{IF}::_OrbitContinuationInterface._instantiate[correction scheme]",
                  f"members are instantiated with correction configuration {cfgs} (None = the class default), not the seed's: they are not corrected under the constraints the "
                  f"seed satisfies", sample="member.correction_config = seed.correction_config")
    fam = cap.get("family")
    chk.check(fam is not None and len(fam) == 3 and fam[0] is seed and cap.get("accepted_count") == 3 and cap.get("rejected_count") == 1
              and cap.get("iterations") == 3, "C13.b", f"{IF}::_OrbitContinuationInterface.to_domain[counts]",
              "reported counts / family are not those of the backend response", sample="accepted/rejected/iterations copied from info; family = (seed, members...)")
