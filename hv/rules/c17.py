"""C17 — Hamiltonian fast paths agree with the generic integration path.

a  the exposed right-hand side can be compiled: closures handed to numba.njit capture only freezable kinds
b  the right-hand side is Hamilton's: (dH/dP, -dH/dQ) from jac_H slots; evaluators agree; rhs_params order
c  twins: step kernels / dense cache (term mode), drivers and refiners (trace mode under identical tapes)
d  dispatch: every integrate() takes the _ham kernel for Hamiltonian systems on the event and non-event branch alike

a-memo  caches of compiled right-hand sides (hv.memo)
b (added)  right-hand side at special states (a canonical pair / all of Q exactly zero); __init__ stores every Jacobian block unchanged

d (round 3)  twin agreement of options: per integrator and branch the Hamiltonian and the generic kernel receive equal tolerances, limits, tables and grid
d (round 5)  the symplectic integrator's event and plain drivers are twins: equal grid, order, coupling heuristic, Hamiltonian data (callee defaults count as values)
"""
from __future__ import annotations

import ast
import itertools

import numpy as np
import sympy as sp

from ..core import Check, AnalysisError
from .. import repoindex as ri
from ..drivers import Harness, vkey, tagvec, RK, SY
from ..regions import RegionDecider
from ..kpe import Interp, SymObj, ClassRef, FuncRef, to_obj_array, S, OutsideFragment, KpeRaise
from ..rk_extract import Recorder
from . import drv

R = sp.Rational
DH = "hiten.algorithms.dynamics.hamiltonian"
DB = "hiten.algorithms.dynamics.base"
PO = "hiten.algorithms.polynomial.operations"


def run(tier):
    chk = Check("C17", tier, "other",
                "Closure-capture kinds of every _build_rhs_impl are inferred by a local type flow (what numba must freeze); the "
                "Hamiltonian right-hand side and the separate gradient evaluators are extracted as terms over uninterpreted "
                "jac_H evaluations; each generic/_ham kernel pair is compared in term mode (step kernels, dense cache) or in "
                "trace mode (drivers, refiners: identical tapes must give identical abstract-call traces and results).",
                trusted_base=["python ast", "hv.kpe", "hv.drivers harness", "numba 0.61: closure variables are frozen as constants; typed List/Dict, "
                              "reflected lists and arbitrary objects cannot be frozen"])
    from .. import memo
    memo.check_modules(chk, "C17.a-memo", ["hiten.algorithms.dynamics.base", "hiten.algorithms.dynamics.hamiltonian"], floor=2,
                       what="hand-rolled caches of compiled right-hand sides")
    _a_closures(chk)
    _b_hamilton(chk)
    _b_storage(chk)
    _c_step_kernels(chk)
    _c_dense_cache(chk)
    _c_drivers(chk, tier)
    _c_refiner(chk)
    _d_dispatch(chk)
    return chk


# ------------------------------------------------------------------------------------------------ a
OK_KINDS = {"scalar", "array", "function", "tuple", "none", "str"}
BAD_KINDS = {"typed-list", "list", "dict", "object"}


def _kind(expr, fn, mod, cls, depth=0):
    """Kind of value an expression denotes inside method `fn` of class `cls`."""
    if depth > 8:
        return "unknown"
    if isinstance(expr, ast.Constant):
        if expr.value is None:
            return "none"
        return "str" if isinstance(expr.value, str) else "scalar"
    if isinstance(expr, (ast.List, ast.ListComp)):
        return "list"
    if isinstance(expr, (ast.Dict, ast.DictComp)):
        return "dict"
    if isinstance(expr, ast.Tuple):
        kinds = {_kind(e, fn, mod, cls, depth + 1) for e in expr.elts}
        bad = kinds & BAD_KINDS
        return next(iter(bad)) if bad else ("tuple" if kinds <= OK_KINDS else "unknown")
    if isinstance(expr, (ast.BinOp, ast.UnaryOp, ast.Compare, ast.BoolOp)):
        return "scalar"
    if isinstance(expr, ast.Call):
        f = expr.func
        name = f.id if isinstance(f, ast.Name) else (f.attr if isinstance(f, ast.Attribute) else None)
        if name in ("float", "int", "bool", "len", "abs", "complex"):
            return "scalar"
        if name == "tuple":
            if expr.args and isinstance(expr.args[0], ast.GeneratorExp):
                inner = _kind(expr.args[0].elt, fn, mod, cls, depth + 1)
                return "tuple" if inner in OK_KINDS or inner == "unknown" else inner
            return "tuple"
        if name in ("asarray", "array", "ascontiguousarray", "zeros", "empty", "ones", "copy", "astype"):
            return "array"
        if name == "list":
            return "list"
        if name == "dict":
            return "dict"
        if isinstance(f, ast.Name):
            r = ri.resolve(mod, f.id)
            if r and r[0] == "external" and r[1] in ("numba.typed.List", "numba.typed.typedlist.List"):
                return "typed-list"
            if r and r[0] == "external" and r[1] in ("numba.typed.Dict",):
                return "dict"
            if r and r[0] == "def" and isinstance(r[2], ast.ClassDef):
                return "object"
        return "unknown"
    if isinstance(expr, ast.Name):
        if expr.id == "self":
            return "object"
        # parameter?
        for a in fn.args.args + fn.args.kwonlyargs:
            if a.arg == expr.id:
                ann = ast.unparse(a.annotation) if a.annotation is not None else ""
                if ann in ("int", "float", "bool"):
                    return "scalar"
                if "ndarray" in ann:
                    return "array"
                if ann.startswith("List") or ann.startswith("list"):
                    return "unknown"
                return "unknown"
        vals = []
        for st in ast.walk(fn):
            if isinstance(st, ast.Assign):
                for t in st.targets:
                    if isinstance(t, ast.Name) and t.id == expr.id:
                        vals.append(st.value)
                    elif isinstance(t, ast.Tuple) and isinstance(st.value, ast.Tuple) and len(t.elts) == len(st.value.elts):
                        for tt, vv in zip(t.elts, st.value.elts):
                            if isinstance(tt, ast.Name) and tt.id == expr.id:
                                vals.append(vv)
            elif isinstance(st, ast.AnnAssign) and isinstance(st.target, ast.Name) and st.target.id == expr.id and st.value is not None:
                vals.append(st.value)
        if vals:
            kinds = {_kind(v, fn, mod, cls, depth + 1) for v in vals}
            bad = kinds & BAD_KINDS
            if bad:
                return next(iter(bad))
            return kinds.pop() if len(kinds) == 1 else "unknown"
        r = ri.resolve(mod, expr.id)
        if r and r[0] == "def":
            return "function" if isinstance(r[2], ast.FunctionDef) else "object"
        if r and r[0] in ("external", "module"):
            return "function"
        return "unknown"
    if isinstance(expr, ast.Attribute) and isinstance(expr.value, ast.Name) and expr.value.id == "self" and cls is not None:
        hit = ri.class_member(mod, cls, expr.attr)
        if hit is not None and isinstance(hit[2], ast.FunctionDef) and "property" in ri.decorators(hit[2]):
            rets = [x.value for x in ast.walk(hit[2]) if isinstance(x, ast.Return) and x.value is not None]
            kinds = {_kind(v, hit[2], hit[0], hit[1], depth + 1) for v in rets}
            return kinds.pop() if len(kinds) == 1 else "unknown"
        # attribute assigned in some method of the class hierarchy
        vals = []
        for m, c in ri.mro(mod, cls):
            for meth in c.body:
                if isinstance(meth, ast.FunctionDef):
                    for st in ast.walk(meth):
                        if isinstance(st, (ast.Assign, ast.AnnAssign)):
                            tg = st.targets if isinstance(st, ast.Assign) else [st.target]
                            for t in tg:
                                if isinstance(t, ast.Attribute) and isinstance(t.value, ast.Name) and t.value.id == "self" and t.attr == expr.attr and st.value is not None:
                                    vals.append((st.value, meth, m, c))
        kinds = {_kind(v, meth, m, c, depth + 1) for v, meth, m, c in vals}
        bad = kinds & BAD_KINDS
        if bad:
            return next(iter(bad))
        return kinds.pop() if len(kinds) == 1 else "unknown"
    return "unknown"


def _a_closures(chk):
    n = 0
    for m in ri.all_modules():
        if "_build_rhs_impl" not in m.source:
            continue
        for cls in [c for c in ast.walk(m.tree) if isinstance(c, ast.ClassDef)]:
            fn = next((f for f in cls.body if isinstance(f, ast.FunctionDef) and f.name == "_build_rhs_impl"), None)
            if fn is None:
                continue
            inner = [f for f in fn.body if isinstance(f, ast.FunctionDef)] + [f for st in fn.body for f in ast.walk(st) if isinstance(f, ast.FunctionDef) and f not in fn.body]
            rets = [r.value for r in ast.walk(fn) if isinstance(r, ast.Return) and r.value is not None]
            ret_names = {r.id for r in rets if isinstance(r, ast.Name)}
            compiled_inner = [f for f in inner if f.name in ret_names or any(f.name in ast.unparse(r) for r in rets)
                              or any(isinstance(c, ast.Call) and any(isinstance(a, ast.Name) and a.id == f.name for a in c.args) for c in ast.walk(fn))]
            if not compiled_inner:
                # abstract / delegating implementation
                continue
            for f in compiled_inner:
                n += 1
                params = {a.arg for a in f.args.args + f.args.kwonlyargs}
                local = {t.id for st in ast.walk(f) for t in ast.walk(st) if isinstance(t, ast.Name) and isinstance(t.ctx, ast.Store)}
                free = sorted({x.id for x in ast.walk(f) if isinstance(x, ast.Name) and isinstance(x.ctx, ast.Load)} - params - local - set(dir(__builtins__)) - {"np", "numba"})
                # default-argument bindings are evaluated in the enclosing scope
                defaults = [(a.arg, d) for a, d in zip(f.args.args[len(f.args.args) - len(f.args.defaults):], f.args.defaults)]
                bad = []
                kinds = {}
                for name in free:
                    k = _kind(ast.Name(id=name, ctx=ast.Load()), fn, m, cls)
                    kinds[name] = k
                    if k in BAD_KINDS:
                        bad.append((name, k))
                for pname, d in defaults:
                    k = _kind(d, fn, m, cls)
                    kinds[f"{pname}="] = k
                    if k in BAD_KINDS:
                        bad.append((pname, k))
                chk.check(not bad, "C17.a", f"{m.name}::{cls.name}._build_rhs_impl[{f.name}]",
                          f"the function handed to numba.njit captures {bad} (numba cannot freeze a typed List / list / dict / object captured by a closure: lowering "
                          f"fails, so `.rhs(t, y)` of this system cannot be evaluated and every generic-path use of it breaks)",
                          sample=f"{cls.name}: captured {kinds}")
    chk.floor("_build_rhs_impl closures analysed", n, 5)


# ------------------------------------------------------------------------------------------------ b
JAC = [("jac", j) for j in range(6)]


def _poly_eval(ip, args, kwargs):
    tag, point = args[0], to_obj_array(args[1]).ravel()
    if not (isinstance(tag, tuple) and tag and tag[0] == "jac"):
        raise AnalysisError("gradient evaluator does not evaluate an entry of jac_H")
    return sp.Function(f"E{tag[1]}", real=True)(*[S(x) for x in point])


def _b_hamilton(chk):
    y = to_obj_array([sp.Symbol(f"s{i}", real=True) for i in range(6)])
    # generic point: an equality test between a state symbol and a constant is false there; the special states below
    # (one canonical pair exactly at the origin, a whole half of the state zero) decide such tests statically the other way
    generic = lambda c: (False if isinstance(c, sp.Eq) else True if isinstance(c, sp.Ne) else None)  # noqa: E731
    ip = Interp(overrides={"_polynomial_evaluate": _poly_eval}, decide=generic)
    states = [("generic", y.copy())]
    for i in range(3):
        z = y.copy()
        z[i] = sp.Integer(0)
        z[3 + i] = sp.Integer(0)
        states.append((f"pair {i} at the origin", z))
    zq = y.copy()
    zq[:3] = sp.Integer(0)
    states.append(("Q = 0", zq))
    states.append(("origin", to_obj_array([sp.Integer(0)] * 6)))
    for label, st in states:
        rhs = to_obj_array(ip.call_function(DH, "_hamiltonian_rhs", [st.copy(), JAC, sp.Symbol("clmo"), 3]))
        E = lambda j: sp.Function(f"E{j}", real=True)(*list(st))  # noqa: E731
        ok = rhs.shape == (6,) and all(rhs[i] == E(3 + i) for i in range(3)) and all(sp.expand(rhs[3 + i] + E(i)) == 0 for i in range(3))
        chk.check(ok, "C17.b", f"{DH}::_hamiltonian_rhs[{label}]", f"right-hand side at a {label} state is not (dH/dP, -dH/dQ) with dH/dx_j = eval(jac_H[j]) there: {list(rhs)}",
                  sample=f"{label}: rhs[i] = eval(jac_H[3+i]); rhs[3+i] = -eval(jac_H[i])")
    E = lambda j: sp.Function(f"E{j}", real=True)(*list(y))  # noqa: E731
    # evaluators of the system object
    mod, cls = ri.find_def(DH, "_HamiltonianSystem")
    sysobj = SymObj(ClassRef(mod, cls), {"jac_H": JAC, "clmo_H": sp.Symbol("clmo"), "_n_dof": 3, "_validate_coordinates": lambda a, b: None}, "hamsys")
    Q, P = y[:3].copy(), y[3:].copy()
    dq = to_obj_array(ip.apply(ip.getattr(sysobj, "dH_dQ"), [Q, P], {}))
    dp = to_obj_array(ip.apply(ip.getattr(sysobj, "dH_dP"), [Q, P], {}))
    chk.check(all(dq[i] == E(i) for i in range(3)) and all(dp[i] == E(3 + i) for i in range(3)), "C17.b", f"{DH}::_HamiltonianSystem[dH_dQ,dH_dP]",
              "separate gradient evaluators disagree with the right-hand side's jac_H slots", sample="dH_dQ[i] = eval(jac_H[i]), dH_dP[i] = eval(jac_H[3+i]) at (Q,P)")
    rp = ip.getattr(sysobj, "rhs_params")
    chk.check(isinstance(rp, tuple) and len(rp) == 3 and rp[0] is JAC and rp[1] == sp.Symbol("clmo") and rp[2] == 3, "C17.b", f"{DH}::_HamiltonianSystem.rhs_params",
              f"rhs_params is not (jac_H, clmo_H, n_dof): {rp}", sample="(jac_H, clmo_H, n_dof)")
    # the compiled rhs is _hamiltonian_rhs on the system's own data
    cap = {}
    ipx = Interp(overrides={"_hamiltonian_rhs": lambda ip_, a, k: (cap.update({"args": a}), sp.Symbol("RHSVAL"))[1]},
                 np_overrides={"ascontiguousarray": lambda ip_, a, k: a[0]})
    sys2 = SymObj(ClassRef(mod, cls), {"jac_H": [[sp.Symbol(f"J{i}{d}") for d in range(2)] for i in range(6)], "clmo_H": [sp.Symbol("c0"), sp.Symbol("c1")], "_n_dof": 3}, "hamsys")
    impl = ipx.apply(ipx.getattr(sys2, "_build_rhs_impl"), [], {})
    val = ipx.apply(impl, [sp.Symbol("t"), y], {})
    a = cap.get("args", [None] * 4)
    jac_ok = [list(v) for v in a[1]] == [[sp.Symbol(f"J{i}{d}") for d in range(2)] for i in range(6)] if a[1] is not None else False
    chk.check(val == sp.Symbol("RHSVAL") and a[0] is y and jac_ok and list(a[2]) == [sp.Symbol("c0"), sp.Symbol("c1")] and a[3] == 3, "C17.b",
              f"{DH}::_HamiltonianSystem._build_rhs_impl[wiring]", "compiled rhs is not _hamiltonian_rhs(state, jac_H, clmo_H, n_dof) of this system",
              sample="rhs(t, y) = _hamiltonian_rhs(y, jac_H, clmo_H, n_dof)")
    # _polynomial_jacobian: derivative w.r.t. variable i stored at index i, i = 0..5 in order
    calls = []
    def pdiff(ip_, a, k):
        b = dict(zip(["poly_p", "var_idx", "max_deg"], a))
        b.update(k)
        calls.append(int(b["var_idx"]))
        return (("D", int(b["var_idx"])), b["max_deg"])

    ipj = Interp(overrides={"_polynomial_differentiate": pdiff})
    try:
        jac = ipj.call_function(PO, "_polynomial_jacobian", [sp.Symbol("POLY"), 4, sp.Symbol("psi"), sp.Symbol("clmo"), sp.Symbol("enc")])
        order = [c for c in calls]
        chk.check(order == list(range(6)) and len(jac) == 6 and [j[1] for j in jac] == list(range(6)), "C17.b", f"{PO}::_polynomial_jacobian",
                  f"Jacobian entries are built for variables {order} and stored as {[j[1] for j in jac]}, expected 0..5 in order", sample="jac_H[i] = d/dx_i, i = 0..5")
    except OutsideFragment as exc:
        chk.note(f"_polynomial_jacobian not analysable in isolation ({exc}); covered by C06")
    chk.count("functions partially evaluated", 6)


def _b_storage(chk):
    """The system object keeps every block of the polynomial Jacobian (and every layout table) exactly as built: the
    right-hand side, the separate evaluators and the symplectic integrator all read these stored blocks."""
    mod, cls = ri.find_def(DH, "_HamiltonianSystem")
    # variables 2 and 5 have a vanishing degree-1 block (they enter the Hamiltonian only at higher degree)
    blocks = [[to_obj_array([sp.Symbol(f"j{v}_{d}_{k}") if not (d == 1 and v in (2, 5)) else sp.Integer(0) for k in range(2)]) for d in range(3)] for v in range(6)]
    cl = [sp.Symbol("c0"), sp.Symbol("c1"), sp.Symbol("c2")]
    got = {}

    def jac(ip_, a, k):
        got["args"] = list(a)
        return [[b.copy() for b in var] for var in blocks]

    # data-dependent tests are decided at a generic point: every symbolic coefficient is a distinct non-zero number
    rep = {}
    for v in range(6):
        for d in range(3):
            for k, x in enumerate(blocks[v][d]):
                if isinstance(x, sp.Symbol):
                    rep[x] = sp.Rational(1 + 7 * v + 3 * d + k, 11)
    ip = Interp(overrides={"_polynomial_jacobian": jac, "_validate_polynomial_data": lambda ip_, a, k: None}, decide=RegionDecider(rep))
    HB = sp.Symbol("H_BLOCKS")
    obj = ip.apply(ClassRef(mod, cls), [HB, 2, sp.Symbol("psi"), list(cl), sp.Symbol("enc"), 3], {})
    st = obj.attrs.get("jac_H")
    same = st is not None and len(st) == 6 and all(len(st[v]) == 3 and all(list(to_obj_array(st[v][d]).ravel()) == list(blocks[v][d]) for d in range(3)) for v in range(6))
    chk.check(same, "C17.b", f"{DH}::_HamiltonianSystem.__init__[storage]",
              "jac_H stored on the system is not the polynomial Jacobian block for block (a variable that enters only at degree >= 3 must keep its blocks)",
              sample="jac_H[v][d] == _polynomial_jacobian(H_blocks, ...)[v][d] for all v, d (incl. variables with a zero linear block)")
    a = got.get("args", [])
    chk.check(a[:2] == [HB, 2] and list(obj.attrs.get("clmo_H", [])) == cl and obj.attrs.get("_n_dof") == 3, "C17.b", f"{DH}::_HamiltonianSystem.__init__[wiring]",
              f"Jacobian is not built from (H_blocks, degree) or clmo_H / n_dof are not stored as given: {a[:2]}", sample="jac_H = jacobian(H_blocks, degree, ...); clmo_H = clmo_table")
    chk.count("functions partially evaluated")


# ------------------------------------------------------------------------------------------------ c (term mode)
def _c_step_kernels(chk):
    t, h = sp.Symbol("t", real=True), sp.Symbol("h", positive=True)
    dim = 2
    ip0 = Interp()
    tabs = {"embedded": ("rk_embedded_step_jit_kernel", "rk_embedded_step_ham_jit_kernel"),
            "rk45": ("rk45_step_jit_kernel", "rk45_step_ham_jit_kernel"), "dop853": ("dop853_step_jit_kernel", "dop853_step_ham_jit_kernel")}
    rk4 = [to_obj_array(ip0.module_value(RK, n)) for n in ("RK4_A", "RK4_B", "RK4_C")]
    c45 = ip0.module_value(RK, "_RK45")
    t45 = [to_obj_array(ip0.getattr(c45, n)) for n in ("_A", "_B_HIGH", "_C", "_E")]
    c85 = ip0.module_value(RK, "_DOP853")
    t85 = [to_obj_array(ip0.getattr(c85, n)) for n in ("_A", "_B_HIGH", "_C", "_E5", "_E3")]
    hamtags = (sp.Symbol("JAC"), sp.Symbol("CLMO"), sp.Symbol("NDOF"))
    for kind, (gen, ham) in tabs.items():
        y = to_obj_array([sp.Symbol(f"y{d}", real=True) for d in range(dim)])
        rec_g, rec_h = Recorder(dim), Recorder(dim)
        if kind == "embedded":
            args_g = [rec_g, t, y.copy(), h, rk4[0], rk4[1], rk4[1], rk4[2], False]
            args_h = [t, y.copy(), h, rk4[0], rk4[1], rk4[1], rk4[2], False, *hamtags]
        elif kind == "rk45":
            args_g = [rec_g, t, y.copy(), h, *t45]
            args_h = [t, y.copy(), h, *t45, *hamtags]
        else:
            args_g = [rec_g, t, y.copy(), h, *t85]
            args_h = [t, y.copy(), h, *t85, *hamtags]
        dec = lambda c: True  # noqa: E731
        out_g = Interp(decide=dec).call_function(RK, gen, args_g)
        bad_tags = []

        def ham_rhs(ip_, a, k, _rec=rec_h, _bad=bad_tags):
            if tuple(a[1:4]) != hamtags:
                _bad.append(a[1:4])
            return _rec(sp.Symbol("t_dropped"), a[0])

        out_h = Interp(decide=dec, overrides={"_hamiltonian_rhs": ham_rhs}).call_function(RK, ham, args_h)
        same = len(rec_g.calls) == len(rec_h.calls) and len(out_g) == len(out_h)
        detail = ""
        if same:
            for i, ((tg, yg), (th, yh)) in enumerate(zip(rec_g.calls, rec_h.calls)):
                if any(sp.expand(S(a) - S(b)) != 0 for a, b in zip(yg, yh)):
                    same, detail = False, f"stage {i} argument differs: {list(yg)} vs {list(yh)}"
                    break
        if same:
            for j, (a, b) in enumerate(zip(out_g, out_h)):
                A, B = to_obj_array(a), to_obj_array(b)
                if A.shape != B.shape or any(sp.simplify(S(x) - S(z)) != 0 for x, z in zip(A.ravel(), B.ravel())):
                    same, detail = False, f"output #{j} differs"
                    break
        chk.check(same and not bad_tags, "C17.c", f"{RK}::{ham}~{gen}",
                  f"Hamiltonian step kernel is not the generic one with f(t,y) := _hamiltonian_rhs(y, jac_H, clmo_H, n_dof): {detail or bad_tags}",
                  sample=f"{kind}: {len(rec_g.calls)} stage arguments and {len(out_g)} outputs identical term by term")
    chk.count("functions partially evaluated", 6)


def _c_dense_cache(chk):
    """_dop853_build_dense_cache vs _ham: identical F_cache terms."""
    ip0 = Interp()
    D = to_obj_array(ip0.module_value(RK, "DOP853_D"))
    A_full, C_full = to_obj_array(ip0.module_value(RK, "DOP853_A")), to_obj_array(ip0.module_value(RK, "DOP853_C"))
    n_ext = int(ip0.module_value(RK, "DOP853_N_STAGES_EXTENDED"))
    ipow = int(ip0.module_value(RK, "DOP853_INTERPOLATOR_POWER"))
    dim = 2
    t, h = sp.Symbol("t", real=True), sp.Symbol("h", positive=True)
    K = np.empty((13, dim), dtype=object)
    for i in range(13):
        for d in range(dim):
            K[i, d] = sp.Symbol(f"K{i}_{d}", real=True)
    y0, y1, f0, f1 = tagvec("ya"), tagvec("yb"), tagvec("fa"), tagvec("fb")
    hamtags = (sp.Symbol("JAC"), sp.Symbol("CLMO"), sp.Symbol("NDOF"))
    rec_g, rec_h = Recorder(dim, "X"), Recorder(dim, "X")
    Fg = to_obj_array(Interp().call_function(RK, "_dop853_build_dense_cache", [rec_g, t, y0, f0, y1, f1, h, K.copy(), A_full, C_full, D, n_ext, ipow]))
    Fh = to_obj_array(Interp(overrides={"_hamiltonian_rhs": lambda ip_, a, k: rec_h(sp.Symbol("td"), a[0])}).call_function(
        RK, "_dop853_build_dense_cache_ham", [t, y0, f0, y1, f1, h, K.copy(), A_full, C_full, D, n_ext, ipow, *hamtags]))
    same = Fg.shape == Fh.shape and all(sp.expand(S(a) - S(b)) == 0 for a, b in zip(Fg.ravel(), Fh.ravel())) and len(rec_g.calls) == len(rec_h.calls) and \
        all(all(sp.expand(S(a) - S(b)) == 0 for a, b in zip(cg[1], ch[1])) for cg, ch in zip(rec_g.calls, rec_h.calls))
    chk.check(same, "C17.c", f"{RK}::_dop853_build_dense_cache_ham~_dop853_build_dense_cache", "Hamiltonian dense-cache builder differs from the generic one",
              sample=f"F_cache {Fg.shape} and {len(rec_g.calls)} extra stage arguments identical")
    chk.count("functions partially evaluated", 2)


# ------------------------------------------------------------------------------------------------ c (trace mode)
PAIRS = [("fixed", "_FixedStepRK._integrate_fixed_rk", "_FixedStepRK._integrate_fixed_rk_ham", False),
         ("rk45", "_RK45._integrate_rk45", "_RK45._integrate_rk45_ham", False), ("dop853", "_DOP853._integrate_dop853", "_DOP853._integrate_dop853_ham", False),
         ("fixed", "_FixedStepRK._integrate_fixed_rk_until_event", "_FixedStepRK._integrate_fixed_rk_until_event_ham", True),
         ("rk45", "_RK45._integrate_rk45_until_event", "_RK45._integrate_rk45_until_event_ham", True),
         ("dop853", "_DOP853._integrate_dop853_until_event", "_DOP853._integrate_dop853_until_event_ham", True)]


def _norm(trace):
    out = []
    for e in trace:
        if e[0] == "RHS":
            out.append(("RHS", e[2]))
        elif e[0] == "INIT_STEP":
            out.append(("INIT_STEP",))
        else:
            out.append(e)
    return out


def _c_drivers(chk, tier):
    signs = [sp.Integer(-1), sp.Integer(0), sp.Integer(1)]
    acc_tapes = [(True, True, True), (False, True, True), (True, False, True)] if tier == "quick" else list(itertools.product((True, False), repeat=4))
    total = 0
    for fam, gen, ham, event in PAIRS:
        bad = []
        n = 0
        ev_tapes = list(itertools.product(signs, repeat=3)) if event else [()]
        dirs = (-1, 0, 1) if event else (0,)
        for direction in dirs:
            for ev in ev_tapes:
                for acc in ([()] if fam == "fixed" else acc_tapes):
                    n += 1
                    hg = Harness(accept_tape=acc, event_tape=ev, direction=direction, ham=False)
                    hh = Harness(accept_tape=acc, event_tape=ev, direction=direction, ham=True)
                    kw = dict(grid=["0", "1/4", "1"]) if (fam == "fixed" or not event) else dict(t0=0, tmax=1)   # non-uniform on purpose
                    kg, og = hg.run(RK, gen, **kw)
                    kh, oh = hh.run(RK, ham, **kw)
                    if kg != kh:
                        bad.append((direction, ev, acc, f"{kg} vs {kh}"))
                        continue
                    from collections import Counter
                    sg, sh = drv.split(_norm(hg.trace)), drv.split(_norm(hh.trace))
                    diff = None
                    for i in range(max(len(sg), len(sh))):
                        a = Counter(sg[i] if i < len(sg) else [])
                        b = Counter(sh[i] if i < len(sh) else [])
                        if a != b:
                            diff = f"segment {i}: only generic {list((a - b).elements())[:2]}, only ham {list((b - a).elements())[:2]}"
                            break
                    if diff is None and kg == "return":
                        ra = [vkey(x) if not isinstance(x, (bool, int)) else x for x in og]
                        rb = [vkey(x) if not isinstance(x, (bool, int)) else x for x in oh]
                        if ra != rb:
                            diff = f"results differ: {str(ra)[:120]} vs {str(rb)[:120]}"
                    if diff or hh.problems:
                        bad.append((direction, [int(x) for x in ev], acc, diff or hh.problems[0]))
        total += n
        chk.check(not bad, "C17.c", f"{RK}::{ham}~{gen.split('.')[-1]}",
                  f"{len(bad)} of {n} identical-tape runs of the generic and the Hamiltonian driver produce different abstract-call traces or results: e.g. {bad[0] if bad else ''}",
                  sample=f"{n} tape(s): traces (steps, RHS evaluations, events, dense output, refinement) and results identical")
    chk.count("driver tapes unrolled", 2 * total)


def _c_refiner(chk):
    """_dop853_refine_in_step_ham inlines its cache builder: same hit and same dense coefficients as the generic refiner."""
    ip0 = Interp()
    D = to_obj_array(ip0.module_value(RK, "DOP853_D"))
    A_full, C_full = to_obj_array(ip0.module_value(RK, "DOP853_A")), to_obj_array(ip0.module_value(RK, "DOP853_C"))
    n_ext = int(ip0.module_value(RK, "DOP853_N_STAGES_EXTENDED"))
    ipow = int(ip0.module_value(RK, "DOP853_INTERPOLATOR_POWER"))
    dim = 2
    K = np.empty((13, dim), dtype=object)
    for i in range(13):
        for d in range(dim):
            K[i, d] = sp.Symbol(f"K{i}_{d}", real=True)
    y0, y1, f0, f1 = tagvec("ya"), tagvec("yb"), tagvec("fa"), tagvec("fb")
    hamtags = (sp.Symbol("JAC"), sp.Symbol("CLMO"), sp.Symbol("NDOF"))
    hstep = R(1, 2)
    bad = []
    n = 0
    for direction in (-1, 0, 1):
        for tape in itertools.product((sp.Integer(-1), sp.Integer(1)), repeat=4):
            n += 1
            res = []
            for ham in (False, True):
                caches = []
                st = {"k": 0}

                def event(t, y, _st=st):
                    if S(t) == R(1, 3) + hstep and not _st.get("right"):
                        _st["right"] = True
                        return sp.Integer(1)
                    k = _st["k"]
                    _st["k"] += 1
                    return tape[k] if k < len(tape) else tape[-1]

                def dense(ip_, a, k, _c=caches):
                    _c.append((to_obj_array(a[1]).copy(), a[3] if len(a) > 3 else k.get("x")))
                    return tagvec(f"D{len(_c)}")

                rec = Recorder(dim, "X")
                ov = {"_dop853_eval_dense": dense, "_hamiltonian_rhs": lambda ip_, a, k, _r=rec: _r(sp.Symbol("td"), a[0])}
                ip = Interp(overrides=ov, max_depth=20)
                xt = hstep / 8
                if ham:
                    out = ip.call_function(RK, "_dop853_refine_in_step_ham", [event, R(1, 3), y0, f0, R(1, 3) + hstep, y1, f1, hstep, K.copy(), A_full, C_full, D, n_ext, ipow,
                                                                               direction, xt, R(1, 10 ** 9), *hamtags])
                else:
                    out = ip.call_function(RK, "_dop853_refine_in_step", [rec, event, R(1, 3), y0, f0, R(1, 3) + hstep, y1, f1, hstep, K.copy(), A_full, C_full, D, n_ext, ipow,
                                                                           direction, xt, R(1, 10 ** 9)])
                res.append((S(out[0]), vkey(out[1]), [(vkey(c[0]), vkey(c[1])) for c in caches]))
            if res[0] != res[1]:
                bad.append((direction, [int(x) for x in tape], str(res[0][0]), str(res[1][0])))
    chk.check(not bad, "C17.c", f"{RK}::_dop853_refine_in_step_ham~_dop853_refine_in_step",
              f"{len(bad)} of {n} tapes: the Hamiltonian refiner (with its inlined dense-cache builder) disagrees with the generic one: {bad[:1]}",
              sample=f"{n} tapes: identical hit time, dense coefficients and evaluation points")
    chk.count("refiner tapes unrolled", 2 * n)


# ------------------------------------------------------------------------------------------------ d
def _d_dispatch(chk):
    from .c10 import _run_integrate, INTEGRATORS
    T = [sp.Symbol(f"T{i}", real=True) for i in range(3)]
    tv = to_obj_array(T)
    rep = {T[0]: 0, T[1]: 1, T[2]: 2}
    for cls_name, modname, drivers, kind in INTEGRATORS:
        if cls_name == "_ExtendedSymplectic":
            continue
        picks = {}
        kws = {}
        for event in (False, True):
            for ham in (False, True):
                outcome, sol, cap = _run_integrate(cls_name, modname, drivers, tv, rep, ham=ham, event=event)
                names = [c[0] for c in cap["calls"]]
                picks[(event, ham)] = names
                kws[(event, ham)] = _bound_kwargs(modname, cls_name, cap["calls"][0]) if len(cap["calls"]) == 1 else None
                want_ham = ham
                ok = outcome == "return" and len(names) == 1 and names[0].endswith("_ham") == want_ham
                kw = cap["calls"][0][1] if cap["calls"] else {}
                args = cap["calls"][0][2] if cap["calls"] else []
                if ham and ok:
                    vals = list(kw.values()) + list(args)
                    ok = all(any(v == sp.Symbol(s) for v in vals if isinstance(v, sp.Basic)) for s in ("JAC", "CLMO", "NDOF"))
                    if "jac_H" in kw:
                        ok = ok and kw["jac_H"] == sp.Symbol("JAC") and kw["clmo_H"] == sp.Symbol("CLMO") and kw["n_dof"] == sp.Symbol("NDOF")
                chk.check(ok, "C17.d", f"{modname}::{cls_name}.integrate[event={event},ham={ham}]",
                          f"{'Hamiltonian' if ham else 'generic'} system on the {'event' if event else 'plain'} branch runs {names} "
                          f"(the fast path must be taken on both branches or on neither, with the system's (jac_H, clmo_H, n_dof))",
                          sample=f"event={event}, ham={ham} -> {names}")
        # twin agreement: the Hamiltonian kernel is driven with the same tolerances, step limits, tables and grid as the generic one
        for event in (False, True):
            a, b = kws.get((event, False)), kws.get((event, True))
            if a is None or b is None:
                continue
            shared = sorted(k for k in set(a) & set(b) if k not in ("f", "jac_H", "clmo_H", "n_dof", "event_fn", "event_compiled"))
            diff = {k: (a[k], b[k]) for k in shared if not _same_value(a[k], b[k])}
            chk.check(not diff and len(shared) >= 3, "C17.d", f"{modname}::{cls_name}.integrate[event={event},twin options]",
                      f"the Hamiltonian and the generic kernel are driven with different values for {diff} (generic, Hamiltonian): the two paths do not solve the same problem",
                      sample=f"event={event}: {len(shared)} shared options equal ({', '.join(shared[:8])}...)")
    chk.count("functions partially evaluated", 12)
    # the symplectic integrator has no generic twin, but its event driver and its plain driver are twins of each other: the same grid, order,
    # coupling heuristic and Hamiltonian data reach both (a keyword the callee has a default for can be dropped at one call site unnoticed)
    for cls_name, modname, drivers, kind in [x for x in INTEGRATORS if x[0] == "_ExtendedSymplectic"]:
        kw = {}
        for event in (False, True):
            outcome, sol, cap = _run_integrate(cls_name, modname, drivers, tv, rep, fwd=1, ham=True, event=event, hit=False)
            if len(cap["calls"]) != 1:
                raise AnalysisError(f"{cls_name}.integrate(event={event}) makes {len(cap['calls'])} kernel calls")
            r = ri.resolve(ri.need_module(modname), cap["calls"][0][0])
            fn = r[2] if r and r[0] == "def" else None
            b = dict(cap["calls"][0][1])
            if fn is not None:
                b.update(dict(zip([a.arg for a in fn.args.args], cap["calls"][0][2])))
                # what the callee would use for parameters the call leaves out
                dfl = dict(zip([a.arg for a in fn.args.args][len(fn.args.args) - len(fn.args.defaults):], fn.args.defaults))
                for name, node in dfl.items():
                    b.setdefault(name, ("callee default", ast.unparse(node)))
            kw[event] = b
        shared = sorted(k for k in set(kw[False]) & set(kw[True]) if k not in ("event_fn", "event_compiled"))
        diff = {k: (kw[False][k], kw[True][k]) for k in shared if not _same_value(kw[False][k], kw[True][k])}
        chk.check(not diff and len(shared) >= 4, "C17.d", f"{modname}::{cls_name}.integrate[event/plain twin options]",
                  f"the plain and the event driver of the symplectic integrator are driven with different values for {diff} (plain, event): monitoring an event changes the trajectory",
                  sample=f"{len(shared)} shared options equal ({', '.join(shared[:8])})")


def _same_value(a, b):
    if isinstance(a, np.ndarray) or isinstance(b, np.ndarray):
        a, b = to_obj_array(a), to_obj_array(b)
        return a.shape == b.shape and all(x == y for x, y in zip(a.ravel(), b.ravel()))
    try:
        return bool(a == b)
    except Exception:  # noqa: BLE001
        return a is b


def _bound_kwargs(modname, cls_name, call):
    """Arguments of a captured kernel call by the kernel's own parameter names."""
    name, kw, args = call
    mod, cls = ri.find_def(modname, cls_name)
    fn = None
    for m, c in ri.mro(mod, cls):
        fn = next((f for f in c.body if isinstance(f, ast.FunctionDef) and f.name == name), None)
        if fn is not None:
            break
    if fn is None:
        r = ri.resolve(mod, name)
        fn = r[2] if r and r[0] == "def" else None
    out = dict(kw)
    if fn is not None:
        params = [a.arg for a in fn.args.args if a.arg not in ("self", "cls")]
        out.update(dict(zip(params, args)))
    return out
