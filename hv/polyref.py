"""Independent reference for hiten's packed polynomial layout + helpers to move between coefficient arrays and sympy."""
from __future__ import annotations

import math

import numpy as np
import sympy as sp

from .kpe import Interp, to_obj_array, S

PB = "hiten.algorithms.polynomial.base"
PA = "hiten.algorithms.polynomial.algebra"
PO = "hiten.algorithms.polynomial.operations"

X = sp.symbols("x0:6", real=True)

# documented layout: k1 bits 0-5, k2 6-11, k3 12-17, k4 18-23, k5 24-29; k0 = degree - sum
SHIFTS = {1: 0, 2: 6, 3: 12, 4: 18, 5: 24}
MASK = 0x3F


def ref_decode(packed, degree):
    ks = [0] * 6
    for f, sh in SHIFTS.items():
        ks[f] = (int(packed) >> sh) & MASK
    ks[0] = degree - sum(ks[1:])
    return tuple(ks)


def ref_pack(k):
    v = 0
    for f, sh in SHIFTS.items():
        v |= (int(k[f]) & MASK) << sh
    return v


_TABLES = {}


def tables(degree):
    """(psi, clmo, enc) obtained by interpreting hiten's own table builders at `degree`."""
    if degree not in _TABLES:
        ip = Interp(max_depth=30)
        psi, clmo = ip.call_function(PB, "_init_index_tables", [degree])
        enc = ip.call_function(PB, "_create_encode_dict_from_clmo", [clmo])
        _TABLES[degree] = (psi, clmo, enc)
    return _TABLES[degree]


def monomial(k):
    m = sp.Integer(1)
    for v, e in zip(X, k):
        m *= v ** int(e)
    return m


def arr_to_expr(arr, degree, clmo):
    """Sympy polynomial of a homogeneous coefficient array (reference decode)."""
    tot = sp.Integer(0)
    a = to_obj_array(arr).ravel()
    for pos in range(a.shape[0]):
        c = S(a[pos])
        if c != 0:
            tot += c * monomial(ref_decode(int(S(clmo[degree][pos])), degree))
    return tot


def list_to_expr(lst, clmo):
    return sum((arr_to_expr(a, d, clmo) for d, a in enumerate(lst)), sp.Integer(0))


def generic_arr(prefix, degree, psi, support=None):
    n = int(S(psi[6, degree]))
    a = np.empty((n,), dtype=object)
    for i in range(n):
        a[i] = sp.Symbol(f"{prefix}{degree}_{i}") if (support is None or i in support) else sp.Integer(0)
    return a


def truncate(expr, max_deg):
    P = sp.Poly(sp.expand(expr), *X)
    out = sp.Integer(0)
    for m, c in P.terms():
        if sum(m) <= max_deg:
            out += c * monomial(m)
    return out


def poisson(p, q):
    return sum(sp.diff(p, X[m]) * sp.diff(q, X[m + 3]) - sp.diff(p, X[m + 3]) * sp.diff(q, X[m]) for m in range(3))


def generic_decide(cond):
    """Generic coefficients: symbols are non-zero, equalities between distinct terms are false."""
    if isinstance(cond, sp.Eq):
        return False
    if isinstance(cond, sp.Ne):
        return True
    if isinstance(cond, sp.Basic) and not isinstance(cond, sp.core.relational.Relational) and not isinstance(cond, (sp.And, sp.Or, sp.Not)):
        return True
    return None


def kernel_interp(n_threads=3):
    ip = Interp(decide=generic_decide, max_depth=40)
    ip.n_threads = n_threads
    cnt = [0]

    def tid():
        cnt[0] += 1
        return (cnt[0] * 2 + 1) % n_threads
    ip.thread_id_fn = tid
    return ip
