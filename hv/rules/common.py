"""Shared extracted objects: the CR3BP field, state symbols, the exact energy."""
from __future__ import annotations

from functools import lru_cache

import sympy as sp

from ..core import AnalysisError
from ..kpe import Interp, to_obj_array, FuncRef, S

RTBP = "hiten.algorithms.dynamics.rtbp"
ENERGY = "hiten.algorithms.common.energy"

STATE = sp.symbols("x y z vx vy vz", real=True)
MU = sp.Symbol("mu", positive=True)


@lru_cache(maxsize=None)
def crtbp_field():
    """_crtbp_accel(state, mu) as a tuple of 6 terms in STATE, MU."""
    out = Interp().call_function(RTBP, "_crtbp_accel", [to_obj_array(list(STATE)), MU])
    out = to_obj_array(out)
    if out.shape != (6,):
        raise AnalysisError(f"_crtbp_accel returned shape {out.shape}")
    return tuple(S(v) for v in out)


def field_at(state6, mu=MU):
    f = crtbp_field()
    sub = dict(zip(STATE, state6))
    sub[MU] = mu
    return [sp.sympify(c).subs(sub, simultaneous=True) for c in f]


def jacobi_of_filter(st, mu):
    """The Jacobi formula nested in _max_rel_energy_error, applied to the symbols `st`."""
    ip = Interp()
    import numpy as np
    states = np.empty((1, 6), dtype=object)
    for k in range(6):
        states[0, k] = st[k]
    ip.call_function(ENERGY, "_max_rel_energy_error", [states, mu])
    env = ip.env_log.get("_max_rel_energy_error")
    jac = env.vars.get("_jacobi") if env is not None else None
    if not isinstance(jac, FuncRef):
        # fallback: the function may have been refactored to call a module-level helper
        C0 = env.vars.get("C0") if env is not None else None
        if C0 is None:
            raise AnalysisError("anchor: Jacobi formula inside _max_rel_energy_error not found")
        return S(C0)
    return S(ip.apply(jac, list(st), {}))


@lru_cache(maxsize=None)
def exact_energy():
    """E_true(s) = (v^2 - C_filter)/2-like: derived from the filter's Jacobi formula: E = -C/2."""
    return -jacobi_of_filter(STATE, MU) / 2


class Relabel:
    """Re-files the obligations a shared rule function produces under another property's rule id.

    `mapping` maps rule-id prefixes (longest first) to their replacement, e.g. {"C03.c": "C10.b"}."""

    def __init__(self, chk, mapping):
        self._chk = chk
        self._map = sorted(mapping.items(), key=lambda kv: -len(kv[0]))

    def __getattr__(self, k):
        return getattr(self._chk, k)

    def _r(self, rule):
        for a, b in self._map:
            if rule.startswith(a):
                return b + rule[len(a):]
        return rule

    def check(self, cond, rule, construct, *a, **kw):
        return self._chk.check(cond, self._r(rule), construct, *a, **kw)

    def ok(self, rule, construct, *a, **kw):
        return self._chk.ok(self._r(rule), construct, *a, **kw)

    def fail(self, rule, construct, *a, **kw):
        return self._chk.fail(self._r(rule), construct, *a, **kw)
