"""Developer helper: print a module (or selected defs) without docstrings/comments/blank lines."""
import ast, sys

def strip(tree):
    for n in ast.walk(tree):
        if isinstance(n, (ast.FunctionDef, ast.ClassDef, ast.Module, ast.AsyncFunctionDef)):
            if n.body and isinstance(n.body[0], ast.Expr) and isinstance(n.body[0].value, ast.Constant) and isinstance(n.body[0].value.value, str):
                n.body = n.body[1:] or [ast.Pass()]
    return tree

def main():
    path = sys.argv[1]
    names = sys.argv[2:]
    tree = strip(ast.parse(open(path).read()))
    if not names:
        print(ast.unparse(tree)); return
    for n in ast.walk(tree):
        if isinstance(n, (ast.FunctionDef, ast.ClassDef)) and n.name in names:
            print(f"# ---- {n.name} (line {n.lineno})")
            print(ast.unparse(n))
main()
