"""C15 — synodic section detection finds every crossing once, on the plane, in order.

a  crossing / on-surface predicates: both implementations against the reference over the sign abstraction
b  hits lie in their bracketing interval: alpha clamp, Newton clamps, th/xh convex formulas
c  every cubic site is a cubic Hermite interpolant; _hermite_der is its derivative; centred slopes
d  ordering (stable by segment), de-duplication against the previous kept hit, truncation, labelling
e  the affine event g = n.state - c and axis_plane's unit normal

e (added)  every SynodicBackendRequest the engine builds (serial and per worker) copies every detection setting of the template

c (round 3)  data affine in time are located exactly on a non-uniform grid by the scalar detector (algorithm-independent oracle); both detectors are
   equivariant under reversing the time stamps (stable-manifold branches) in cubic mode
e-config (round 3)  SynodicMapConfig objects built by their real constructor reach the backend request with the configured normal / offset / direction and
   the interpolation kind as the string the backend compares with;  e-cache: the synodic service's key contains every parameter (C20.b re-filed)
"""
from __future__ import annotations

import itertools

import ast

import numpy as np
import sympy as sp

from ..core import Check, AnalysisError
from .. import repoindex as ri
from ..kpe import Interp, SymObj, ClassRef, FuncRef, to_obj_array, S, OutsideFragment, KpeRaise
from ..regions import RegionDecider, select_minmax
from ..alg import residual


def Z(e):
    return residual(e) == 0


SB = "hiten.algorithms.poincare.synodic.backend"
SE = "hiten.algorithms.poincare.synodic.events"
PU = "hiten.algorithms.poincare.utils"
RK = "hiten.algorithms.integrators.rk"
SY = "hiten.algorithms.integrators.symplectic"
IT = "hiten.algorithms.integrators.types"

REP = {"-": sp.Rational(-3, 2), "0": sp.Integer(0), "+": sp.Rational(5, 4)}
REP2 = {"-": sp.Rational(-1, 7), "0": sp.Integer(0), "+": sp.Integer(9)}


def run(tier):
    chk = Check("C15", tier, "other",
                "Detection kernels are interpreted on symbolic data along the path selected by a representative of each "
                "order-abstract region (sign of g at the two samples x direction): predicate tables of the vectorised and "
                "the scalar implementation are compared with the reference and with each other exhaustively; the cubic "
                "machinery is checked as polynomial identities in s (Hermite end conditions, derivative, Newton step).",
                trusted_base=["python ast", "hv.kpe", "sympy polynomial arithmetic"])
    _c_hermite(chk)
    _a_vectorised(chk)
    _a_scalar(chk)
    _b_c_cubic_refine(chk)
    _c_scalar_time_nonuniform(chk)
    _c_time_orientation(chk)
    _b_linear(chk)
    _d_order_dedup(chk)
    _e_event(chk)
    _e_engine_requests(chk)
    _e_config_chain(chk)
    # a section served from the cache was detected with the requested plane, direction filter and options
    from . import c20
    from .common import Relabel
    c20._b_key_params(Relabel(chk, {"C20.b": "C15.e-cache"}), [x for x in c20._sites() if x.cls.name == "_SynodicMapDynamicsService"])
    # the public facade binds every argument to the service parameter it is meant for (nominal swap rule, rules/common.py)
    from . import common as _common
    _common.facade_bindings(chk, "C15.e-facade", ['hiten.system.maps.synodic'], floor=8)
    return chk


def _e_config_chain(chk):
    """The section and the interpolation the detector works with are the configured ones: SynodicMapConfig objects built by
    their real constructor (class defaults, the map service's default, an explicit normal, an explicit 'linear') go through
    _SynodicInterface.create_problem and to_backend_inputs; what the backend request carries must be (i) the explicit normal
    when one is given, else the unit normal of the axis, (ii) the configured offset / plane / direction, (iii) the
    interpolation kind as one of the two strings the backend compares with (`interp_kind == "cubic"`): 'cubic' for every
    default configuration (that is what the class documents), 'linear' only when asked for."""
    IFM = "hiten.algorithms.poincare.synodic.interfaces"
    CFG = "hiten.algorithms.poincare.synodic.config"
    imod, icls = ri.find_def(IFM, "_SynodicInterface")
    cmod, ccls = ri.find_def(CFG, "SynodicMapConfig")
    rmod, rcls = ri.find_def("hiten.algorithms.types.configs", "RefineConfig")
    smod, scls = ri.find_def("hiten.algorithms.types.services.maps", "_SynodicMapDynamicsService")
    NRM = to_obj_array([sp.Symbol(f"n{i}", real=True) for i in range(6)])
    OFF = sp.Symbol("OFFSET", real=True)
    opts = SymObj(None, {"workers": SymObj(None, {"n_workers": 1}, "w"), "refine": SymObj(None, {k: sp.Symbol(k.upper()) for k in (
        "segment_refine", "tol_on_surface", "dedup_time_tol", "dedup_point_tol", "max_hits_per_traj", "newton_max_iter")}, "refine")}, "options")
    dom = SymObj(None, {"trajectories": []}, "domain")

    def build(**kw):
        ip = Interp()
        return ip.instantiate(ClassRef(cmod, ccls), [], dict(kw))

    cases = [("class defaults", lambda: build(), "cubic", None),
             ("explicit normal", lambda: build(section_normal=NRM, section_offset=OFF, direction=-1), "cubic", NRM),
             ("interp_kind given as documented ('linear')", lambda: build(interp_kind="linear", section_axis="y", section_offset=OFF), "linear", None),
             ("interp_kind given as a RefineConfig('linear')", lambda: build(interp_kind=Interp().instantiate(ClassRef(rmod, rcls), [], {"interp_kind": "linear"})), "linear", None)]
    svc_default = ri.class_member(smod, scls, "_default_map_config") or ri.class_member(smod, scls, "_default_config")
    if svc_default is not None:
        cases.append(("map service default", lambda: Interp().apply(FuncRef(svc_default[0], svc_default[2], bound_self=SymObj(ClassRef(smod, scls), {}, "svc"),
                                                                            qual=f"_SynodicMapDynamicsService.{svc_default[2].name}", owner=(svc_default[0], svc_default[1])), [], {}), "cubic", None))
    for label, mk, want_kind, want_normal in cases:
        try:
            cfg = mk()
            cap = {}
            ip = Interp(overrides={"SynodicBackendRequest": lambda ip_, a, k: (cap.update(k), SymObj(None, dict(k), "request"))[1],
                                   "_BackendCall": lambda ip_, a, k: SymObj(None, dict(k), "call")})
            iface = SymObj(ClassRef(imod, icls), {}, "interface")
            prob = ip.apply(ip.getattr(iface, "create_problem"), [], {"domain_obj": dom, "config": cfg, "options": opts})
            ip.apply(ip.getattr(iface, "to_backend_inputs"), [prob], {})
        except OutsideFragment as exc:
            raise AnalysisError(f"synodic configuration chain outside fragment ({label}): {exc}")
        chk.count("functions partially evaluated", 2)
        kind = cap.get("interp_kind")
        chk.check(isinstance(kind, str) and kind == want_kind, "C15.e-config", f"{IFM}::_SynodicInterface.create_problem[interp_kind,{label}]",
                  f"{label}: the backend request carries interp_kind = {kind!r}; the backend selects the cubic model with `interp_kind == \"cubic\"`, so it must be the string "
                  f"{want_kind!r} (anything else silently means linear interpolation)", sample=f"{label}: request.interp_kind == {want_kind!r}")
        nrm = cap.get("normal")
        if want_normal is not None:
            ok = nrm is not None and list(to_obj_array(nrm)) == list(want_normal)
            chk.check(ok, "C15.e-config", f"{IFM}::_SynodicInterface.create_problem[normal,{label}]",
                      f"the configuration names the section normal {list(want_normal)} (documented to override section_axis) but the request carries {None if nrm is None else list(to_obj_array(nrm))}: "
                      f"crossings of another plane are reported", sample="request.normal = config.section_normal")
            chk.check(cap.get("offset") == OFF and cap.get("direction") == -1, "C15.e-config", f"{IFM}::_SynodicInterface.create_problem[offset/direction,{label}]",
                      f"request carries offset={cap.get('offset')}, direction={cap.get('direction')}", sample="request.offset / direction = config's")
        else:
            axis = cfg.attrs.get("section_axis")
            want = [1 if i == {"x": 0, "y": 1, "z": 2, "vx": 3, "vy": 4, "vz": 5}.get(axis, axis) else 0 for i in range(6)]
            ok = nrm is not None and [S(v) for v in to_obj_array(nrm)] == [S(v) for v in want]
            chk.check(ok, "C15.e-config", f"{IFM}::_SynodicInterface.create_problem[normal,{label}]",
                      f"axis {axis!r}: request normal is {None if nrm is None else list(to_obj_array(nrm))}", sample=f"axis {axis!r} -> unit normal e_{axis}")


def _e_engine_requests(chk):
    """Every backend request the engine builds (the serial one and the per-worker ones) carries every detection setting of the
    template request - offset, normal, direction, tolerances, interpolation - and every trajectory is handed over exactly once
    with its own index, whatever the worker count.  The engine's solve() is interpreted with a model backend that records the
    requests it receives and a simulated executor (futures completing in reverse order), for 1, 2 and 3 workers."""
    from ..kpe import KModel, ClassRef
    ENG = "hiten.algorithms.poincare.synodic.engine"
    TYP = "hiten.algorithms.poincare.synodic.types"
    tmod, tcls = ri.find_def(TYP, "SynodicBackendRequest")
    fields = [st.target.id for st in tcls.body if isinstance(st, ast.AnnAssign) and isinstance(st.target, ast.Name)]
    own = {"trajectories", "trajectory_indices", "metadata"}       # per-request data, not settings
    settings = [f for f in fields if f not in own]
    if len(settings) < 8:
        raise AnalysisError(f"anchor: SynodicBackendRequest has only the setting fields {settings}")
    emod, ecls = ri.find_def(ENG, "_SynodicEngine")
    trajs = [sp.Symbol(f"TRAJ{i}") for i in range(5)]
    tmpl_vals = {f: sp.Symbol(f"SET_{f}") for f in settings}
    for nw in (1, 2, 3):
        seen = []

        def run(request):
            seen.append(request)
            n = len(list(request.attrs["trajectories"]))
            return SymObj(None, {"hits": [[] for _ in range(n)]}, "resp")

        class _Fut(KModel):
            def __init__(self, v):
                self.v = v

            def result(self):
                return self.v

        class Pool(KModel):
            def submit(self, fn, *a):
                return _Fut(ip.apply(fn, list(a), {}))

            def __enter__(self):
                return self

            def __exit__(self, *a):
                return False

        template = SymObj(ClassRef(tmod, tcls), dict(tmpl_vals, trajectories=[], trajectory_indices=[], metadata={}), "template")
        iface = SymObj(None, {"to_backend_inputs": lambda p_: SymObj(None, {"request": template}, "call"), "to_results": lambda resp, problem=None: resp}, "iface")
        eng = SymObj(ClassRef(emod, ecls), {"_interface": iface, "_backend": SymObj(None, {"run": run}, "backend")}, "engine")
        problem = SymObj(None, {"trajectories": list(trajs), "n_workers": nw}, "problem")
        ip = Interp(overrides={"ThreadPoolExecutor": lambda ip_, a, k: Pool(), "as_completed": lambda ip_, a, k: list(reversed(a[0])),
                               "SynodicBackendResponse": lambda ip_, a, k: SymObj(None, dict(k), "response")}, max_depth=30)
        try:
            ip.apply(ip.getattr(eng, "solve"), [problem], {})
        except OutsideFragment as exc:
            raise AnalysisError(f"_SynodicEngine.solve outside fragment ({nw} workers): {exc}")
        chk.count("functions partially evaluated")
        bad = []
        handed = []
        for r in seen:
            for f in settings:
                if r.attrs.get(f) != tmpl_vals[f]:
                    bad.append(f"{f}={r.attrs.get(f)}")
            tr = list(r.attrs.get("trajectories", []))
            ix = [int(S(i)) for i in list(to_obj_array(r.attrs.get("trajectory_indices", [])))] if len(tr) else []
            handed += list(zip(ix, tr))
        chk.check(not bad, "C15.e", f"{ENG}::_SynodicEngine.solve[settings,{nw} worker(s)]",
                  f"with {nw} worker(s) a backend request does not carry the template's detection settings: {sorted(set(bad))[:4]}",
                  sample=f"{nw} worker(s): {len(seen)} request(s), all {len(settings)} settings copied from the template")
        chk.check(sorted(handed, key=lambda t: t[0]) == list(enumerate(trajs)), "C15.e", f"{ENG}::_SynodicEngine.solve[partition,{nw} worker(s)]",
                  f"with {nw} worker(s) the trajectories are not handed to the backend exactly once each with their own index: {handed}",
                  sample=f"{nw} worker(s): indices {sorted(i for i, _ in handed)}")


# ------------------------------------------------------------------------------------------- c
def _hermite_identities(chk, construct, H, s, y0, y1, m0, m1, label):
    """H(s) with end values y0,y1 and end slopes (w.r.t. s) m0,m1."""
    ok = [sp.expand(H.subs(s, 0) - y0) == 0, sp.expand(H.subs(s, 1) - y1) == 0,
          sp.expand(sp.diff(H, s).subs(s, 0) - m0) == 0, sp.expand(sp.diff(H, s).subs(s, 1) - m1) == 0,
          sp.Poly(sp.expand(H), s).degree() <= 3]
    names = ["H(0)=y0", "H(1)=y1", "H'(0)=dt*dy0", "H'(1)=dt*dy1", "degree<=3"]
    bad = [n for n, o in zip(names, ok) if not o]
    chk.check(not bad, "C15.c", construct, f"{label} is not the cubic Hermite interpolant: fails {bad}",
              sample=f"{label}: H(0)=y0, H(1)=y1, H'(0)=dt*dy0, H'(1)=dt*dy1, cubic")


def _c_hermite(chk):
    s, y0, y1, d0, d1, dt = sp.symbols("s y0 y1 d0 d1 dt", real=True)
    ip = Interp()
    H = S(ip.call_function(PU, "_hermite_scalar", [s, y0, y1, d0, d1, dt]))
    _hermite_identities(chk, f"{PU}::_hermite_scalar", H, s, y0, y1, dt * d0, dt * d1, "_hermite_scalar")
    D = S(ip.call_function(PU, "_hermite_der", [s, y0, y1, d0, d1, dt]))
    res = sp.expand(D - sp.diff(H, s))
    chk.check(res == 0, "C15.c", f"{PU}::_hermite_der",
              f"_hermite_der is not d/ds of _hermite_scalar; difference = {sp.factor(res)} (Newton refinement of the cubic root uses a wrong slope)",
              sample="_hermite_der(s,...) == d/ds _hermite_scalar(s,...)", residual=str(sp.factor(res)))
    chk.count("functions partially evaluated", 2)
    # vector Hermite evaluators of the integrators
    for modname, fn in ((RK, "_hermite_eval_dense"), (SY, "_hermite_eval_dense_symplectic")):
        dim = 2
        Y0 = to_obj_array([sp.Symbol(f"a{d}") for d in range(dim)])
        Y1 = to_obj_array([sp.Symbol(f"b{d}") for d in range(dim)])
        F0 = to_obj_array([sp.Symbol(f"fa{d}") for d in range(dim)])
        F1 = to_obj_array([sp.Symbol(f"fb{d}") for d in range(dim)])
        h = sp.Symbol("h", real=True)
        out = to_obj_array(Interp().call_function(modname, fn, [Y0, F0, Y1, F1, s, h]))
        chk.count("functions partially evaluated")
        for d in range(dim):
            _hermite_identities(chk, f"{modname}::{fn}[{d}]", S(out[d]), s, Y0[d], Y1[d], h * F0[d], h * F1[d], f"{fn}[{d}]")
    # _Solution.interpolate (with and without derivatives)
    mod, cls = ri.find_def(IT, "_Solution")
    T0, T1 = sp.symbols("T0 T1", real=True)
    tq = sp.Symbol("tq", real=True)
    for asc in (True, False):
        rep = {T0: 0, T1: 2, tq: 1} if asc else {T0: 2, T1: 0, tq: 1}
        for with_der in (True, False):
            st = to_obj_array([[sp.Symbol("u0"), sp.Symbol("v0")], [sp.Symbol("u1"), sp.Symbol("v1")]])
            de = to_obj_array([[sp.Symbol("du0"), sp.Symbol("dv0")], [sp.Symbol("du1"), sp.Symbol("dv1")]])
            sol = SymObj(ClassRef(mod, cls), {"times": to_obj_array([T0, T1]), "states": st, "derivatives": de if with_der else None}, "sol")
            ip = Interp(decide=RegionDecider(rep))
            try:
                out = to_obj_array(ip.apply(ip.getattr(sol, "interpolate"), [tq], {})).ravel()
            except OutsideFragment as exc:
                raise AnalysisError(f"_Solution.interpolate outside fragment: {exc}")
            chk.count("functions partially evaluated")
            sig = sp.Symbol("sigma")
            tag = f"{'ascending' if asc else 'descending'},{'hermite' if with_der else 'linear'}"
            for d in range(2):
                Hd = sp.expand(S(out[d]).subs(tq, T0 + sig * (T1 - T0)))
                Hd = sp.cancel(sp.together(Hd))
                if with_der:
                    _hermite_identities(chk, f"{IT}::_Solution.interpolate[{tag},{d}]", Hd, sig, st[0, d], st[1, d],
                                        (T1 - T0) * de[0, d], (T1 - T0) * de[1, d], f"_Solution.interpolate[{tag}]")
                else:
                    chk.check(sp.expand(Hd - ((1 - sig) * st[0, d] + sig * st[1, d])) == 0, "C15.c",
                              f"{IT}::_Solution.interpolate[{tag},{d}]", f"linear interpolation formula wrong: {Hd}",
                              sample="y = (1-s) y0 + s y1")


# ------------------------------------------------------------------------------------------- a
def _ref_cross(a, b, direction):
    if direction is None:
        return a * b <= 0 and a != b
    if direction == 1:
        return a < 0 and b >= 0
    return a > 0 and b <= 0


def _ref_on(a, b, direction, tol):
    if not abs(a) < tol:
        return False
    if direction is None:
        return True
    return (b >= 0) if direction == 1 else (b <= 0)


def _a_vectorised(chk):
    tol = sp.Rational(1, 10 ** 12)
    ga, gb = sp.symbols("ga gb", real=True)
    n = 0
    for direction in (None, 1, -1):
        for ra, rb in itertools.product("-0+", repeat=2):
            outs = []
            for reps in (REP, REP2):
                rep = {ga: reps[ra], gb: reps[rb]}
                ip = Interp(decide=RegionDecider(rep))
                g_all = to_obj_array([ga, gb])
                on_idx = ip.call_function(SB, "_on_surface_indices", [g_all, tol, direction])
                on_idx = np.asarray(on_idx).astype(int)
                on_mask = np.zeros((1,), dtype=object)
                on_mask[0] = False
                for i in on_idx:
                    on_mask[int(i)] = True
                cr_idx, alpha = ip.call_function(SB, "_crossing_indices_and_alpha", [g_all[:-1], g_all[1:]], {"on_mask": on_mask, "direction": direction})
                outs.append((len(on_idx), int(np.asarray(cr_idx).size), alpha, rep))
                n += 1
            a, b = REP[ra], REP[rb]
            want_on = 1 if _ref_on(a, b, direction, tol) else 0
            want_cr = 1 if (_ref_cross(a, b, direction) and not want_on) else 0
            ok = all(o[0] == want_on and o[1] == want_cr for o in outs)
            chk.check(ok, "C15.a", f"{SB}::_crossing_indices_and_alpha[dir={direction},g0{ra},g1{rb}]",
                      f"vectorised detector: direction={direction}, sign(g_k)={ra}, sign(g_k+1)={rb}: on-surface={outs[0][0]} crossing={outs[0][1]}, "
                      f"reference on-surface={want_on} crossing={want_cr}",
                      sample=f"dir={direction}, ({ra},{rb}) -> on={want_on}, cross={want_cr}")
            if want_cr and ok:
                al = outs[0][2]
                al0 = S(to_obj_array(al).ravel()[0])
                rep = outs[0][3]
                want = sp.Min(1, sp.Max(0, ga / (ga - gb)))
                chk.check(Z(al0 - want) or al0.subs(rep) == want.subs(rep) and al0.free_symbols == want.free_symbols, "C15.b",
                          f"{SB}::_crossing_indices_and_alpha[alpha,dir={direction},g0{ra},g1{rb}]",
                          f"alpha is not clamp(g0/(g0-g1), 0, 1): {al0}", sample=f"alpha = {al0}")
    chk.count("order-abstract evaluations", n)


def _scalar_run(direction, rep, syms, use_cubic=False, r=1, N=2, newton=1, time_rep=None):
    ga = syms
    cap = {}

    def fake_order(ip, args, kwargs):
        names = ["cand_times", "cand_states", "proj", "seg_order", "dedup_time_tol", "dedup_point_tol", "max_hits_per_traj", "trajectory_index"]
        d = dict(zip(names, args))
        d.update(kwargs)
        cap.update(d)
        return list(zip(d["cand_times"], d["cand_states"]))

    times = to_obj_array([sp.Symbol(f"t{k}", real=True) for k in range(N)])
    states = np.empty((N, 2), dtype=object)
    for k in range(N):
        for d in range(2):
            states[k, d] = sp.Symbol(f"x{k}_{d}", real=True)
    trep = {times[k]: (sp.Integer(k) if time_rep is None else sp.sympify(time_rep[k])) for k in range(N)}
    trep.update(rep)
    ip = Interp(overrides={"_order_and_dedup_hits": fake_order}, decide=RegionDecider(trep))
    event = SymObj(None, {"direction": direction}, "event")
    res = ip.call_function(SB, "_detect_with_segment_refine", [times, states, to_obj_array(list(ga))], dict(
        event=event, proj=("x", "y"), use_cubic=use_cubic, segment_refine=r, tol_on_surface=sp.Rational(1, 10 ** 12),
        dedup_time_tol=sp.Rational(1, 10 ** 9), dedup_point_tol=sp.Rational(1, 10 ** 12), max_hits_per_traj=None,
        newton_max_iter=newton, trajectory_index=0))
    return cap, times, states


def _a_scalar(chk):
    tol = sp.Rational(1, 10 ** 12)
    ga, gb = sp.symbols("ga gb", real=True)
    n = 0
    for direction in (None, 1, -1):
        for ra, rb in itertools.product("-0+", repeat=2):
            res = []
            for reps in (REP, REP2):
                rep = {ga: reps[ra], gb: reps[rb]}
                cap, times, states = _scalar_run(direction, rep, (ga, gb))
                res.append((cap, rep))
                n += 1
            a, b = REP[ra], REP[rb]
            want_on = 1 if _ref_on(a, b, direction, tol) else 0
            want_cr = 1 if (_ref_cross(a, b, direction) and not want_on) else 0
            counts = [len(c.get("cand_times", [])) for c, _ in res]
            ok = all(cnt == want_on + want_cr for cnt in counts)
            chk.check(ok, "C15.a", f"{SB}::_detect_with_segment_refine[dir={direction},g0{ra},g1{rb}]",
                      f"scalar (segment-refine) detector: direction={direction}, sign(g_k)={ra}, sign(g_k+1)={rb}: {counts[0]} hit(s), "
                      f"reference {want_on + want_cr} (must agree with the vectorised detector)",
                      sample=f"dir={direction}, ({ra},{rb}) -> {want_on + want_cr} hit(s)")
            if ok and want_cr and ra != "0" and rb != "0":
                cap, rep = res[0]
                trep = {times[k]: sp.Integer(k) for k in range(len(times))}
                trep.update(rep)
                th = select_minmax(S(cap["cand_times"][0]), trep)
                t0, t1 = times[0], times[1]
                want = t0 + ga / (ga - gb) * (t1 - t0)
                chk.check(Z(th - want), "C15.b", f"{SB}::_detect_with_segment_refine[th,dir={direction},g0{ra},g1{rb}]",
                          f"linear hit time is not t0 + g0/(g0-g1)*(t1-t0): {th}", sample=f"th = {th}")
                xh = to_obj_array(cap["cand_states"][0])
                wantx = [states[0, d] + ga / (ga - gb) * (states[1, d] - states[0, d]) for d in range(2)]
                chk.check(all(Z(select_minmax(S(xh[d]), trep) - wantx[d]) for d in range(2)), "C15.b",
                          f"{SB}::_detect_with_segment_refine[xh,dir={direction},g0{ra},g1{rb}]", "linear hit state is not the convex combination at the same fraction",
                          sample="xh = x0 + s*(x1-x0) with the same s as th")
                chk.check(list(np.asarray(cap["seg_order"]).astype(int)) == [0], "C15.d", f"{SB}::_detect_with_segment_refine[seg,dir={direction},g0{ra},g1{rb}]",
                          "candidate is not labelled with its segment index")
    chk.count("order-abstract evaluations", n)


# ------------------------------------------------------------------------------------------- b, c (cubic refinement)
def _b_c_cubic_refine(chk):
    N = 4
    times = to_obj_array([sp.Symbol(f"t{k}", real=True) for k in range(N)])
    g = to_obj_array([sp.Symbol(f"g{k}", real=True) for k in range(N)])
    states = np.empty((N, 2), dtype=object)
    for k in range(N):
        for d in range(2):
            states[k, d] = sp.Symbol(f"x{k}_{d}", real=True)
    al = sp.Symbol("al", real=True)
    base = {times[k]: sp.Integer(k) for k in range(N)}
    base.update({g[0]: -3, g[1]: -1, g[2]: 2, g[3]: 4, al: sp.Rational(1, 3)})
    s = sp.Symbol("s", real=True)
    ipu = Interp()
    c0 = f"{SB}::_refine_hits_cubic"

    def run_case(k, rep, max_iter=1):
        ip = Interp(decide=RegionDecider(rep))
        th, xh = ip.call_function(SB, "_refine_hits_cubic", [times, states, g, np.array([k]), to_obj_array([al])], {"max_iter": max_iter})
        chk.count("functions partially evaluated")
        return S(to_obj_array(th).ravel()[0]), to_obj_array(xh)[0]

    # interior segment k=1: centred slopes, one Newton step, Hermite state
    th, xh = run_case(1, base)
    dt = times[2] - times[1]
    d0 = (g[2] - g[0]) / (times[2] - times[0])
    d1 = (g[3] - g[1]) / (times[3] - times[1])
    Hg = S(ipu.call_function(PU, "_hermite_scalar", [s, g[1], g[2], d0, d1, dt]))
    Dg = S(ipu.call_function(PU, "_hermite_der", [s, g[1], g[2], d0, d1, dt]))
    s_star = al - (Hg / Dg).subs(s, al)
    chk.check(Z(th - ((1 - s_star) * times[1] + s_star * times[2])), "C15.c", c0 + "[newton,interior]",
              "refined time is not (1-s*) t_k + s* t_k+1 with s* = s - H(s)/H'(s) for the Hermite cubic through (g_k, g_k+1) with centred slopes",
              sample="s* = alpha - H_g(alpha)/H_g'(alpha); slopes (g[k+1]-g[k-1])/(t[k+1]-t[k-1]), (g[k+2]-g[k])/(t[k+2]-t[k])")
    th0, xh0 = run_case(1, base, max_iter=0)
    chk.check(Z(th0 - ((1 - al) * times[1] + al * times[2])), "C15.b", c0 + "[th,no newton]",
              "hit time is not the convex combination of the bracketing sample times", sample="th = (1-s) t_k + s t_k+1")
    for d in range(2):
        Hx = sp.expand(S(xh0[d]))
        m0 = (states[2, d] - states[0, d]) / (times[2] - times[0]) * dt
        m1 = (states[3, d] - states[1, d]) / (times[3] - times[1]) * dt
        _hermite_identities(chk, c0 + f"[state basis,{d}]", Hx, al, states[1, d], states[2, d], sp.expand(m0), sp.expand(m1),
                            "inline state interpolant of _refine_hits_cubic")
    # clamps: Newton iterate leaving [0,1] is clamped to the end point
    for side, gv, want in (("low", {g[0]: -3, g[1]: -1, g[2]: 2, g[3]: 4, al: sp.Rational(1, 1000)}, 0),):
        pass
    # first segment k=0: one-sided slope at the left end; state falls back to linear interpolation
    rep0 = dict(base)
    rep0.update({g[0]: -1, g[1]: 2, g[2]: 4})
    th, xh = run_case(0, rep0, max_iter=0)
    chk.check(all(Z(S(xh[d]) - (states[0, d] + al * (states[1, d] - states[0, d]))) for d in range(2)), "C15.b",
              c0 + "[state,first segment]", "hit state on the first segment is not the linear interpolant", sample="xh = x0 + s (x1-x0) at an end segment")
    th1, _ = run_case(0, rep0, max_iter=1)
    dt0 = times[1] - times[0]
    d0 = (g[1] - g[0]) / (times[1] - times[0])
    d1 = (g[2] - g[0]) / (times[2] - times[0])
    Hg = S(ipu.call_function(PU, "_hermite_scalar", [s, g[0], g[1], d0, d1, dt0]))
    Dg = S(ipu.call_function(PU, "_hermite_der", [s, g[0], g[1], d0, d1, dt0]))
    s_star = al - (Hg / Dg).subs(s, al)
    chk.check(Z(th1 - ((1 - s_star) * times[0] + s_star * times[1])), "C15.c", c0 + "[newton,first segment]",
              "one-sided slope at the left end is not (g1-g0)/(t1-t0)", sample="d0 = (g[k+1]-g[k])/(t[k+1]-t[k]) when k = 0")
    # Newton clamp scenario: force the iterate below 0 / above 1 through the representative
    sstar = sp.Symbol("sstar")
    for label, repv, want_t in (("below 0", {g[0]: -3, g[1]: sp.Rational(-1, 100), g[2]: 50, g[3]: 40, al: sp.Rational(1, 1000)}, None),):
        pass
    _clamp_paths(chk)
    # the scalar (segment-refine) detector rebuilds the hit state with its own inline cubic: on a NON-uniform grid its end slopes
    # must be the centred differences over (t[k+1]-t[k-1]) and (t[k+2]-t[k])
    gs = tuple(sp.Symbol(f"g{k}", real=True) for k in range(4))
    rep4 = {gs[0]: -3, gs[1]: -1, gs[2]: 2, gs[3]: 4}
    cap, tms, sts = _scalar_run(None, rep4, gs, use_cubic=True, r=1, N=4, newton=0, time_rep=[0, 1, 3, 7])
    chk.count("functions partially evaluated")
    if len(cap.get("cand_times", [])) != 1:
        chk.fail("C15.c", f"{SB}::_detect_with_segment_refine[cubic state]", f"expected one hit on the interior segment, got {len(cap.get('cand_times', []))}")
    else:
        trep = {tms[k]: sp.sympify(v) for k, v in enumerate([0, 1, 3, 7])}
        trep.update(rep4)
        th = select_minmax(S(cap["cand_times"][0]), trep)
        sst = (th - tms[1]) / (tms[2] - tms[1])
        dtk = tms[2] - tms[1]
        h00, h10, h01, h11 = (1 + 2 * sst) * (1 - sst) ** 2, sst * (1 - sst) ** 2, sst ** 2 * (3 - 2 * sst), sst ** 2 * (sst - 1)
        xh = to_obj_array(cap["cand_states"][0])
        bad = []
        for d in range(2):
            m0 = (sts[2, d] - sts[0, d]) / (tms[2] - tms[0]) * dtk
            m1 = (sts[3, d] - sts[1, d]) / (tms[3] - tms[1]) * dtk
            want = h00 * sts[1, d] + h10 * m0 + h01 * sts[2, d] + h11 * m1
            tsub = {tms[k]: sp.sympify(v) for k, v in enumerate([0, 1, 3, 7])}     # concrete non-uniform grid; g and x stay symbolic
            if sp.cancel(sp.together((select_minmax(S(xh[d]), trep) - want).subs(tsub))) != 0:
                bad.append(d)
        chk.check(not bad, "C15.c", f"{SB}::_detect_with_segment_refine[cubic state]",
                  "the cubic hit state of the segment-refine detector is not the Hermite interpolant of (x_k, x_k+1) with centred slopes (x[k+1]-x[k-1])/(t[k+1]-t[k-1]) and "
                  "(x[k+2]-x[k])/(t[k+2]-t[k]) evaluated at the same fraction as the hit time (non-uniform grid)", sample="non-uniform grid t = (0,1,3,7): xh = H(s*; x_k, x_k+1, centred slopes)")


def _c_scalar_time_nonuniform(chk):
    """The scalar detector's cubic model of g on a NON-uniform grid is built from slopes over the true time differences: an
    event function that is affine in time, g(t) = t - 2 sampled at t = (0,1,3,7), has centred slopes exactly 1, so its cubic
    model is the line itself and ANY sub-interval / secant / Newton scheme locates the crossing exactly at t = 2 (and a state
    affine in time exactly at its value there).  Slopes over 2*dt (uniform-grid formula) bend the model and move the hit."""
    R = sp.Rational
    T = [0, 1, 3, 7]
    G = [R(t - 2) for t in T]
    gs = tuple(sp.Symbol(f"g{k}", real=True) for k in range(4))
    rep4 = dict(zip(gs, G))
    for newton in (0, 1):
        cap, tms, sts = _scalar_run(1, rep4, gs, use_cubic=True, r=1, N=4, newton=newton, time_rep=T)
        chk.count("functions partially evaluated")
        sub = {tms[k]: sp.Integer(v) for k, v in enumerate(T)}
        sub.update(rep4)
        for k in range(4):
            sub[sts[k, 0]] = R(3) * T[k] + 1        # x_0(t) = 3t + 1
            sub[sts[k, 1]] = R(-1, 2) * T[k] + 5    # x_1(t) = 5 - t/2
        hits = [(sp.nsimplify(select_minmax(S(t), sub).subs(sub)), [sp.nsimplify(select_minmax(S(v), sub).subs(sub)) for v in to_obj_array(x)])
                for t, x in zip(cap.get("cand_times", []), cap.get("cand_states", []))]
        hits = [h for h in hits if T[1] <= h[0] < T[2]]
        ok = len(hits) == 1 and hits[0][0] == 2 and hits[0][1] == [7, 4]
        chk.check(ok, "C15.c", f"{SB}::_detect_with_segment_refine[affine g,non-uniform,newton={newton}]",
                  f"g(t) = t - 2 and x(t) = (3t+1, 5-t/2) sampled at t = {T}: the detector reports {hits} after {newton} Newton step(s) instead of t = 2, x = (7, 4): "
                  f"its cubic model does not reproduce data that are affine in time (slopes not taken over the true time differences)",
                  sample=f"affine data on the grid {T}: hit exactly at t = 2, x = (7, 4) ({newton} Newton step(s))")


def _c_time_orientation(chk):
    """A sampled trajectory whose time stamps decrease (every stable-manifold branch: propagated backward, stamps 0 ... -T) is
    the same curve: with cubic interpolation requested, both detectors must report, for the stamps -t_k, the hit time -t* and
    the same hit state they report for the stamps t_k (the Hermite model is orientation-free: slopes dg/dt and the signed dt
    change sign together).  A guard `dt > 0` silently replaces the cubic model by the chord on such trajectories."""
    R = sp.Rational
    T = [0, 1, 3, 7]
    gs = tuple(sp.Symbol(f"g{k}", real=True) for k in range(4))
    rep4 = {gs[0]: R(-3), gs[1]: R(-1), gs[2]: R(2), gs[3]: R(4)}

    def scalar(Tv):
        cap, tms, sts = _scalar_run(None, rep4, gs, use_cubic=True, r=1, N=4, newton=1, time_rep=Tv)
        sub = {tms[k]: sp.Integer(v) for k, v in enumerate(Tv)}
        sub.update(rep4)
        out = []
        for t, x in zip(cap.get("cand_times", []), cap.get("cand_states", [])):
            out.append((sp.nsimplify(select_minmax(S(t), sub).subs(sub)), [sp.expand(select_minmax(S(v), sub).subs(sub)) for v in to_obj_array(x)]))
        return out

    fwd, bwd = scalar(T), scalar([-t for t in T])
    chk.count("functions partially evaluated", 2)
    ok = len(fwd) == len(bwd) == 1 and fwd[0][0] == -bwd[0][0] and all(sp.expand(a - b) == 0 for a, b in zip(fwd[0][1], bwd[0][1]))
    chk.check(ok, "C15.c", f"{SB}::_detect_with_segment_refine[cubic,time orientation]",
              f"stamps {T} give the hit {fwd[0] if fwd else None}; the same samples stamped {[-t for t in T]} give {bwd[0] if bwd else None}: not the mirror image "
              f"(the cubic model is dropped on a decreasing grid)", sample="decreasing stamps: hit time mirrored, hit state identical (cubic)")
    # vectorised refinement
    N = 4
    g = to_obj_array([sp.Symbol(f"g{k}", real=True) for k in range(N)])
    states = np.empty((N, 2), dtype=object)
    for k in range(N):
        for d in range(2):
            states[k, d] = sp.Symbol(f"x{k}_{d}", real=True)
    al = R(1, 3)
    res = {}
    for sign in (1, -1):
        times = to_obj_array([sp.Integer(sign * t) for t in T])
        rep = {g[0]: -3, g[1]: -1, g[2]: 2, g[3]: 4}
        ip = Interp(decide=RegionDecider(rep))
        gv = to_obj_array([R(-3), R(-1), R(2), R(4)])
        th, xh = ip.call_function(SB, "_refine_hits_cubic", [times, states, gv, np.array([1]), to_obj_array([al])], {"max_iter": 1})
        chk.count("functions partially evaluated")
        res[sign] = (sp.nsimplify(S(to_obj_array(th).ravel()[0])), [sp.expand(S(v)) for v in to_obj_array(xh)[0]])
    ok = res[1][0] == -res[-1][0] and all(sp.expand(a - b) == 0 for a, b in zip(res[1][1], res[-1][1]))
    chk.check(ok, "C15.c", f"{SB}::_refine_hits_cubic[time orientation]",
              f"stamps {T}: hit at {res[1][0]}; stamps {[-t for t in T]}: hit at {res[-1][0]} with a different state model: the cubic refinement is not applied to a decreasing grid",
              sample="decreasing stamps: hit time mirrored, hit state identical (cubic)")


def _clamp_paths(chk):
    """Every Newton update `s_star -= f/df` is followed by both clamps with break before any use (AST guard rule)."""
    import ast
    mod = ri.need_module(SB)
    n = 0
    for q, fn in ri.functions_in(mod):
        if fn.name not in ("_refine_hits_cubic", "_detect_with_segment_refine"):
            continue
        for loop in ast.walk(fn):
            if not isinstance(loop, ast.For):
                continue
            body = loop.body
            for i, st in enumerate(body):
                if isinstance(st, ast.AugAssign) and isinstance(st.op, ast.Sub) and isinstance(st.target, ast.Name) and st.target.id == "s_star":
                    n += 1
                    rest = body[i + 1:]
                    lows = [r for r in rest if isinstance(r, ast.If) and isinstance(r.test, ast.Compare) and isinstance(r.test.ops[0], ast.Lt)
                            and ast.unparse(r.test.left) == "s_star"]
                    highs = [r for r in rest if isinstance(r, ast.If) and isinstance(r.test, ast.Compare) and isinstance(r.test.ops[0], ast.Gt)
                             and ast.unparse(r.test.left) == "s_star"]

                    def clamps_to(ifnode):
                        bound = ast.unparse(ifnode.test.comparators[0])
                        assigns = [b for b in ifnode.body if isinstance(b, ast.Assign) and ast.unparse(b.targets[0]) == "s_star"]
                        return bool(assigns) and ast.unparse(assigns[0].value) == bound and any(isinstance(b, ast.Break) for b in ifnode.body), bound
                    okl, lo = clamps_to(lows[0]) if lows else (False, None)
                    okh, hi = clamps_to(highs[0]) if highs else (False, None)
                    want = ("0.0", "1.0") if fn.name == "_refine_hits_cubic" else ("s_lo", "s_hi")
                    chk.check(okl and okh and (lo, hi) == want, "C15.b", f"{SB}::{q}[newton clamp]",
                              f"Newton iterate is not clamped to [{want[0]}, {want[1]}] (found low={lo}, high={hi}) before it is used",
                              sample=f"s_star -= f/df; if s_star < {want[0]}: s_star = {want[0]}; break; if s_star > {want[1]}: ...")
    chk.floor("Newton update sites", n, 2)


def _b_linear(chk):
    n = 3
    t0 = to_obj_array([sp.Symbol(f"ta{k}") for k in range(n)])
    t1 = to_obj_array([sp.Symbol(f"tb{k}") for k in range(n)])
    x0 = np.empty((n, 2), dtype=object)
    x1 = np.empty((n, 2), dtype=object)
    for k in range(n):
        for d in range(2):
            x0[k, d] = sp.Symbol(f"xa{k}_{d}")
            x1[k, d] = sp.Symbol(f"xb{k}_{d}")
    al = to_obj_array([sp.Symbol("al0"), sp.Symbol("al1")])
    cr = np.array([2, 0])
    th, xh = Interp().call_function(SB, "_refine_hits_linear", [t0, t1, x0, x1, cr, al])
    chk.count("functions partially evaluated")
    th, xh = to_obj_array(th), to_obj_array(xh)
    ok = True
    for p, k in enumerate(cr):
        ok = ok and sp.expand(S(th[p]) - ((1 - al[p]) * t0[k] + al[p] * t1[k])) == 0
        for d in range(2):
            ok = ok and sp.expand(S(xh[p, d]) - (x0[k, d] + al[p] * (x1[k, d] - x0[k, d]))) == 0
    chk.check(ok, "C15.b", f"{SB}::_refine_hits_linear", "linear refinement is not the convex combination of the bracketing samples at alpha",
              sample="th = (1-a) t0[k] + a t1[k]; xh = x0[k] + a (x1[k]-x0[k])")


# ------------------------------------------------------------------------------------------- d
def _d_order_dedup(chk):
    mk = lambda tag: to_obj_array([sp.Symbol(f"{tag}_{d}", real=True) for d in range(6)])  # noqa: E731
    T = [sp.Symbol(f"T{i}", real=True) for i in range(4)]
    X = [mk(f"X{i}") for i in range(4)]
    seg = np.array([2, 0, 2, 1])
    # representative: all far apart
    rep = {T[i]: sp.Integer(10 * i) for i in range(4)}
    for i in range(4):
        for d in range(6):
            rep[X[i][d]] = sp.Integer(100 * i + d)
    tol = sp.Rational(1, 10 ** 9)

    def run(rep, max_hits=None):
        ip = Interp(decide=RegionDecider(rep))
        hits = ip.call_function(SB, "_order_and_dedup_hits", [list(T), list(X), ("y", "vy"), seg, tol, tol, max_hits, 7])
        chk.count("functions partially evaluated")
        return hits

    hits = run(rep)
    c0 = f"{SB}::_order_and_dedup_hits"
    order = [h.attrs["time"] for h in hits]
    chk.check(order == [T[1], T[3], T[0], T[2]], "C15.d", c0 + "[stable order]",
              f"hits are not ordered by segment index with ties kept in insertion order: {order}", sample="seg=[2,0,2,1] -> T1,T3,T0,T2")
    ok = all(h.attrs["trajectory_index"] == 7 for h in hits) and all(list(to_obj_array(h.attrs["state"])) == list(X[i]) for h, i in zip(hits, (1, 3, 0, 2)))
    ok = ok and all(list(to_obj_array(h.attrs["point2d"])) == [X[i][1], X[i][4]] for h, i in zip(hits, (1, 3, 0, 2)))
    chk.check(ok, "C15.d", c0 + "[labelling]", "hit records do not carry their own state, its (y,vy) projection and the trajectory index",
              sample="state, point2d=(state[1],state[4]), trajectory_index")
    hits2 = run(rep, max_hits=2)
    chk.check([h.attrs["time"] for h in hits2] == [T[1], T[3]], "C15.d", c0 + "[truncation]", "max_hits_per_traj does not keep the first hits in order",
              sample="max_hits=2 keeps the first two after sorting")
    # duplicate in time of the previous kept hit is dropped (T3 ~ T1), but T0 compared only with last kept
    rep2 = dict(rep)
    rep2[T[3]] = rep[T[1]]
    hits3 = run(rep2)
    chk.check([h.attrs["time"] for h in hits3] == [T[1], T[0], T[2]], "C15.d", c0 + "[dedup time]",
              f"a candidate within dedup_time_tol of the previous kept hit is not dropped (or too much is dropped): {[h.attrs['time'] for h in hits3]}",
              sample="|th - prev.time| <= tol -> skip")
    rep3 = dict(rep)
    for d in range(6):
        rep3[X[3][d]] = rep[X[1][d]]
    hits4 = run(rep3)
    chk.check([h.attrs["time"] for h in hits4] == [T[1], T[0], T[2]], "C15.d", c0 + "[dedup point]",
              "a candidate within dedup_point_tol (in the section plane) of the previous kept hit is not dropped", sample="du^2+dv^2 <= tol^2 -> skip")


# ------------------------------------------------------------------------------------------- e
def _e_event(chk):
    mod, cls = ri.find_def(SE, "_AffinePlaneEvent")
    nvec = to_obj_array([sp.Symbol(f"n{d}", real=True) for d in range(6)])
    cc = sp.Symbol("c", real=True)
    ev = SymObj(ClassRef(mod, cls), {"_n": nvec, "_c": cc, "direction": None}, "event")
    st = to_obj_array([sp.Symbol(f"s{d}", real=True) for d in range(6)])
    ip = Interp()
    val = S(ip.apply(ip.getattr(ev, "value"), [st], {}))
    want = sum(nvec[d] * st[d] for d in range(6)) - cc
    chk.check(sp.expand(val - want) == 0, "C15.e", f"{SE}::_AffinePlaneEvent.value", f"event value is not n.state - c: {val}", sample="g = n.state - c")
    chk.check(list(ip.getattr(ev, "normal")) == list(nvec) and ip.getattr(ev, "offset") == cc, "C15.e", f"{SE}::_AffinePlaneEvent[normal,offset]",
              "normal/offset properties do not expose the stored plane")
    # vectorised evaluation agrees
    states = np.empty((2, 6), dtype=object)
    for k in range(2):
        for d in range(6):
            states[k, d] = sp.Symbol(f"z{k}_{d}", real=True)
    ev2 = SymObj(None, {"normal": nvec, "offset": cc}, "event")
    ipv = Interp(overrides={"_is_vectorizable_plane_event": lambda ip_, a, k: (True, nvec, cc)})
    g = to_obj_array(ipv.call_function(SB, "_compute_event_values", [ev2, states]))
    ok = all(sp.expand(S(g[k]) - (sum(nvec[d] * states[k, d] for d in range(6)) - cc)) == 0 for k in range(2))
    chk.check(ok, "C15.e", f"{SB}::_compute_event_values", "vectorised event values are not states @ n - c", sample="g_all = states @ n - c")
    # axis_plane: unit normal on the named coordinate
    idx_map = ip.getattr(ip.module_value(SE, "_PlaneEvent"), "_IDX_MAP")
    want_map = {"x": 0, "y": 1, "z": 2, "vx": 3, "vy": 4, "vz": 5}
    chk.check(all(idx_map.get(k) == v for k, v in want_map.items()), "C15.e", "hiten.algorithms.poincare.core.events::_PlaneEvent._IDX_MAP",
              f"coordinate-name table is not x,y,z,vx,vy,vz -> 0..5: {idx_map}", sample=str(want_map))
    for name, idx in want_map.items():
        cap = {}

        def ctor(ip_, args, kwargs, _cap=cap):
            _cap.update(kwargs)
            return SymObj(None, dict(kwargs), "event")
        ipa = Interp(overrides={"_AffinePlaneEvent": ctor})
        try:
            ipa.apply(FuncRef(mod, next(f for f in cls.body if getattr(f, "name", "") == "axis_plane"), bound_self=ClassRef(mod, cls), qual="axis_plane"),
                      [name], {"c": cc, "direction": 1})
        except OutsideFragment:
            # cls(...) resolves through bound class, not the override: evaluate via instantiate override by class name
            pass
        nrm = cap.get("normal")
        if nrm is None:
            continue
        nrm = to_obj_array(nrm)
        ok = all(S(nrm[d]) == (1 if d == idx else 0) for d in range(6)) and cap.get("offset") == cc and cap.get("direction") == 1
        chk.check(ok, "C15.e", f"{SE}::_AffinePlaneEvent.axis_plane[{name}]", f"axis_plane('{name}') does not build the unit normal e_{idx} with offset c",
                  sample=f"axis_plane('{name}') -> n = e_{idx}")
