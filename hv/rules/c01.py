"""C01 — equations of motion, linearisation and energy integral are mutually consistent.

Decided clauses (DESIGN §5 C01): a Jacobian = d(field); b variational system; c baked
parameter / wiring; d first integral.  All by partial evaluation of the kernels into terms
and polynomial identity testing modulo the two distance radicals.

c-memo  caches of compiled right-hand sides are keyed by everything baked into the kernel (hv.memo)

c (round 3)  system wiring decided on two model systems with equal body names in one interpreter (module-level state persists):
   each receives the compiled systems of its own mu;  b-stm: the C03 interpretation of _compute_stm re-filed (coherent 42-vector in every direction)
d-driver / d-filter (round 4)  the driver protocol (C10.d) and the manifold energy filter (C12.e: measure and where it is applied) re-filed: samples come from the segment that contains them; the promised energy tolerance is tested on max|C_i - C_0|/|C_0|
"""
from __future__ import annotations

import ast

import numpy as np
import sympy as sp

from ..core import Check, AnalysisError
from .. import repoindex as ri
from ..kpe import Interp, SymObj, ClassRef, FuncRef, OutsideFragment, to_obj_array, S
from ..alg import Radicals, is_zero, witness, short
from . import common

RTBP = "hiten.algorithms.dynamics.rtbp"
ENERGY = "hiten.algorithms.common.energy"


def run(tier):
    chk = Check("C01", tier, "proof",
                "Kernels are partially evaluated from their syntax trees into sympy terms over the symbols "
                "mu,x,y,z,vx,vy,vz (and 36 Phi symbols); each obligation is a polynomial identity decided modulo "
                "r1^2=(x+mu)^2+y^2+z^2, r2^2=(x-1+mu)^2+y^2+z^2. Holds for every mu and state, not for samples.",
                trusted_base=["python ast", "sympy expand/together/Poly", "hv.kpe partial evaluator",
                              "chain rule: dE/dt = grad E . f"])
    field = common.crtbp_field()
    chk.count("functions partially evaluated")
    st = common.STATE
    mu = common.MU
    R = Radicals()

    # ---------------------------------------------------------------- C01.a
    ip = Interp()
    F = ip.call_function(RTBP, "_jacobian_crtbp", [st[0], st[1], st[2], mu])
    chk.count("functions partially evaluated")
    F = to_obj_array(F)
    if F.shape != (6, 6):
        raise AnalysisError(f"_jacobian_crtbp returned shape {F.shape}")
    for i in range(6):
        for j in range(6):
            want = sp.diff(field[i], st[j])
            z, res = is_zero(F[i, j] - want, R)
            nontriv = want != 0
            if z:
                chk.ok("C01.a", f"{RTBP}::_jacobian_crtbp[F[{i},{j}]]", nontrivial=nontriv,
                       sample=f"F[{i},{j}] = {short(F[i, j], 120)} == d f_{i}/d s_{j}")
            else:
                pt, val = witness(F[i, j] - want)
                chk.fail("C01.a", f"{RTBP}::_jacobian_crtbp[F[{i},{j}]]",
                         f"Jacobian entry ({i},{j}) is not the derivative of field component {i} w.r.t. state {j}",
                         residual=short(res), witness=pt, value=val)

    # ---------------------------------------------------------------- C01.b
    Phi = np.empty((42,), dtype=object)
    for k in range(36):
        Phi[k] = sp.Symbol(f"P{k // 6}{k % 6}", real=True)
    for k in range(6):
        Phi[36 + k] = st[k]
    t = sp.Symbol("t", real=True)
    out = to_obj_array(Interp().call_function(RTBP, "_var_equations", [t, Phi.copy(), mu]))
    chk.count("functions partially evaluated")
    if out.shape != (42,):
        raise AnalysisError(f"_var_equations returned shape {out.shape}")
    Fref = sp.Matrix(6, 6, lambda i, j: sp.diff(field[i], st[j]))
    Pm = sp.Matrix(6, 6, lambda i, j: Phi[6 * i + j])
    want = Fref * Pm
    for i in range(6):
        for j in range(6):
            z, res = is_zero(out[6 * i + j] - want[i, j], R)
            chk.check(z, "C01.b", f"{RTBP}::_var_equations[dPhi[{i},{j}]]",
                      f"d/dt Phi[{i},{j}] is not (Df(x)·Phi)[{i},{j}] (row-major)", residual=short(res),
                      sample=f"dPhi[{i},{j}] == sum_k Df[{i},k]*Phi[k,{j}]")
    for k in range(6):
        z, res = is_zero(out[36 + k] - field[k], R)
        chk.check(z, "C01.b", f"{RTBP}::_var_equations[state[{k}]]",
                  f"state component {k} of the variational system does not follow the CR3BP field",
                  residual=short(res), sample=f"dPHI[{36 + k}] == f_{k}(PHI[36:42])")

    # ---------------------------------------------------------------- C01.c wiring
    _wiring(chk, field, st, mu, R, Phi, out, F)

    # ---------------------------------------------------------------- C01.d first integral
    _first_integrals(chk, field, st, mu, R)
    # the compiled right-hand side a system hands out is the one built for its own mu: caches of compiled kernels must be
    # keyed by everything baked into the kernel (hv.memo)
    from .. import memo
    memo.check_modules(chk, "C01.c-memo", ["hiten.algorithms.dynamics.base", "hiten.algorithms.dynamics.rtbp"], floor=2,
                       what="hand-rolled caches of compiled right-hand sides")
    # the propagation wrapper of the variational system keeps state block and matrix block one coherent 42-vector in every
    # direction (initial vector, slicing, total sign flip, forwarding): the C03 interpretation of _compute_stm, re-filed
    from . import c03
    from .common import Relabel
    c03._stm_layout(Relabel(chk, {"C03.a-layout": "C01.b-stm", "C03.c": "C01.b-stm", "C03": "C01.b-stm"}))
    chk.floor("C01 obligations", chk.obligations, 36 + 42 + 6 + 5)
    # "constant along every propagated trajectory": every output sample is produced by the step kernels on the segment that contains it (the driver
    # protocol of C10.d / C02.c: a stale dense-output segment extrapolates and the energy of the samples drifts)
    from . import c10 as _c10
    _c10._d_plain_drivers(Relabel(chk, {"C10.d": "C01.d-driver"}), tier)
    # ... and the tolerance the library promises on that constancy (Manifold.compute(energy_tol=...)) is tested on max|C_i - C_0|/|C_0| of the Jacobi
    # constant, by the measure function decided above, applied to the propagated states (C12.e re-filed)
    from . import c12 as _c12
    _c12._e_energy_measure(Relabel(chk, {"C12.e": "C01.d-filter"}))
    _c12._bcde_run_compute(Relabel(chk, {"C12.e": "C01.d-filter", "C12.b-select": "C01.d-filter", "C12": "C01.d-filter"}))
    return chk


def _wiring(chk, field, st, mu, R, Phi, var_out, F):
    t = sp.Symbol("t", real=True)
    cases = [("_RTBPRHS", "rtbp_dynsys", to_obj_array(list(st)), list(field)),
             ("_VarEqRHS", "variational_dynsys", Phi.copy(), list(var_out)),
             ("_JacobianRHS", "jacobian_dynsys", to_obj_array(list(st)), [F[i, j] for i in range(6) for j in range(6)])]
    for cls, factory, arg, want in cases:
        ip = Interp()
        m = sp.Symbol("mu_ctor", positive=True)
        obj = ip.call_function(RTBP, factory, [m])
        if not isinstance(obj, SymObj) or obj.cls is None or obj.cls.node.name != cls:
            chk.fail("C01.c", f"{RTBP}::{factory}", f"factory does not build {cls}")
            continue
        build = ip.getattr(obj, "_build_rhs_impl")
        rhs = ip.apply(build, [], {})
        if not isinstance(rhs, FuncRef):
            raise AnalysisError(f"{cls}._build_rhs_impl did not return a function")
        got = to_obj_array(ip.apply(rhs, [t, arg.copy()], {})).ravel()
        chk.count("functions partially evaluated", 3)
        bad = []
        for k, w in enumerate(want):
            z, res = is_zero(got[k] - sp.sympify(w).subs(mu, m), R)
            if not z:
                bad.append((k, short(res, 120)))
        chk.check(not bad and len(got) == len(want), "C01.c", f"{RTBP}::{cls}._build_rhs_impl",
                  f"compiled right-hand side of {cls} is not its kernel at the constructor's mu: {bad[:3]}",
                  sample=f"{factory}(mu).rhs(t, s) == kernel(s, mu) on {len(want)} components")
        # the advertised attribute mu equals the constructor's argument
        z, _ = is_zero(S(obj.attrs.get("mu", sp.nan)) - m)
        chk.check(z, "C01.c", f"{RTBP}::{cls}.__init__[mu]", f"{cls}.mu is not the constructor argument")
    _system_wiring(chk)


def _system_wiring(chk):
    """services/system.py: the compiled systems a System hands out are built for its own mu; mu = m2/(m1+m2).

    Decided on model objects: two systems whose bodies carry the same names and different masses ask, one after the other
    in one interpreter (module-level state persists), for their field, variational and Jacobian systems; the three rtbp
    factories are stubbed to return a tag carrying the mu they were given, and what each system receives must carry its own
    m2/(m1+m2).  Covers factories reached through helpers and builder references, and process-wide caches keyed without mu."""
    modname = "hiten.algorithms.types.services.system"
    mod = ri.need_module(modname)
    mod_, cls = ri.find_def(modname, "_SystemsDynamicsService")
    seen = {"rtbp_dynsys": 0, "jacobian_dynsys": 0, "variational_dynsys": 0}
    for n in ast.walk(cls):
        if isinstance(n, ast.Name) and n.id in seen:
            seen[n.id] += 1
    for name, cnt in seen.items():
        if cnt == 0:
            raise AnalysisError(f"anchor: no use of {name} found in {modname}::_SystemsDynamicsService")

    def stub(kind):
        def f(ip_, a, k):
            return ("dynsys", kind, k.get("mu", a[0] if a else None))
        return f

    ov = {(RTBP, n): stub(n) for n in seen}
    ov["make_key"] = lambda ip_, a, k: tuple(_hashable(x) for x in a)
    ip = Interp(overrides=ov)
    bc_mod, bc_cls = ri.find_def("hiten.algorithms.types.services.base", "_CacheServiceBase")
    props = (("dynsys", "rtbp_dynsys"), ("var_dynsys", "variational_dynsys"), ("jacobian_dynsys", "jacobian_dynsys"))
    for tag in ("A", "B"):
        m1, m2 = sp.symbols(f"m1{tag} m2{tag}", positive=True)
        prim = SymObj(None, {"name": "Primary", "_name": "Primary", "_mass": m1, "mass": m1}, f"primary{tag}")
        sec = SymObj(None, {"name": "Secondary", "_name": "Secondary", "_mass": m2, "mass": m2}, f"secondary{tag}")
        dom = SymObj(None, {"_primary": prim, "_secondary": sec, "_distance": sp.Symbol(f"dist{tag}", positive=True), "_libration_points": {}}, f"system{tag}")
        cache = SymObj(ClassRef(bc_mod, bc_cls), {"_cache": {}}, f"cache{tag}")
        svc = SymObj(ClassRef(mod_, cls), {"_domain_obj": dom, "domain_obj": dom, "_cache": cache, "_primary": prim, "_secondary": sec,
                                           "_distance": dom.attrs["_distance"]}, f"service{tag}")
        for prop, kind in props:
            for rep in (1, 2):
                try:
                    got = ip.getattr(svc, prop)
                except OutsideFragment as exc:
                    raise AnalysisError(f"_SystemsDynamicsService.{prop} outside fragment: {exc}")
                ok = isinstance(got, tuple) and len(got) == 3 and got[0] == "dynsys" and got[1] == kind and got[2] is not None \
                    and is_zero(S(got[2]) - m2 / (m1 + m2))[0]
                chk.check(ok, "C01.c", f"{modname}::_SystemsDynamicsService.{prop}[system {tag}, access {rep}]",
                          f"system {tag} (masses {m1},{m2}) is handed {got!r} instead of {kind}(mu = {m2}/({m1}+{m2})): the compiled system "
                          f"belongs to another mass parameter", sample=f"system {tag}.{prop} -> {kind}(mu = m2/(m1+m2))", nontrivial=(tag == "B"))
    chk.count("functions partially evaluated", 3)
    # mu = m2/(m1+m2)
    ip = Interp()
    m1, m2 = sp.symbols("m1 m2", positive=True)
    found = False
    for q, fn in ri.functions_in(mod):
        if fn.name == "_get_mass_parameter" or fn.name == "get_mass_parameter":
            found = True
            try:
                val = _eval_mass_parameter(ip, mod, q, fn, m1, m2)
            except OutsideFragment as exc:
                raise AnalysisError(f"mass parameter formula outside fragment: {exc}")
            z, res = is_zero(S(val) - m2 / (m1 + m2))
            chk.check(z, "C01.c", f"{modname}::{q}", f"mass parameter is not m2/(m1+m2): {short(val)}",
                      sample=f"mu = {short(val)}")
    if not found:
        # search the utility it delegates to
        for cand_mod, cand in (("hiten.algorithms.utils.coordinates", "_get_mass_parameter"),):
            try:
                val = Interp().call_function(cand_mod, cand, [m1, m2])
            except AnalysisError:
                continue
            found = True
            z, res = is_zero(S(val) - m2 / (m1 + m2))
            chk.check(z, "C01.c", f"{cand_mod}::{cand}", f"mass parameter is not m2/(m1+m2): {short(val)}",
                      sample=f"mu = {short(val)}")
    if not found:
        raise AnalysisError("anchor _get_mass_parameter not found")


def _hashable(x):
    try:
        hash(x)
        return x
    except TypeError:
        return id(x)


def _eval_mass_parameter(ip, mod, q, fn, m1, m2):
    fr = FuncRef(mod, fn, qual=q)
    params = [a.arg for a in fn.args.args]
    if params and params[0] == "self":
        fr.bound_self = SymObj(None, {}, "self")
    return ip.apply(fr, [m1, m2], {})


def _is_self_mu(node, fn, mod, q):
    """The argument is self.mu / self._mu / a local assigned from it."""
    if isinstance(node, ast.Attribute) and isinstance(node.value, ast.Name) and node.value.id == "self" and node.attr in ("mu", "_mu"):
        return True
    if isinstance(node, ast.Name):
        for st in ast.walk(fn):
            if isinstance(st, ast.Assign) and any(isinstance(t, ast.Name) and t.id == node.id for t in st.targets):
                return _is_self_mu(st.value, fn, mod, q)
    if isinstance(node, ast.Call) and isinstance(node.func, ast.Name) and node.func.id == "float" and node.args:
        return _is_self_mu(node.args[0], fn, mod, q)
    return False


def _first_integrals(chk, field, st, mu, R):
    """Every energy-like quantity the library reports has zero Lie derivative along the field."""
    x, y, z, vx, vy, vz = st
    state = to_obj_array(list(st))
    energies = {}

    def lie(E):
        return sum(sp.diff(E, s) * f for s, f in zip(st, field))

    def decide(name, construct, E):
        zr, res = is_zero(lie(E), R)
        if zr:
            chk.ok("C01.d", construct, sample=f"grad({name})·f == 0 with {name} = {short(E, 160)}")
        else:
            pt, val = witness(lie(E))
            chk.fail("C01.d", construct, f"{name} is not a first integral of the field the library integrates: dE/dt != 0",
                     residual=short(sp.factor(res)), witness=pt, value=val)

    # (1) crtbp_energy: what PeriodicOrbit.energy / LibrationPoint.energy report
    E1 = S(Interp().call_function(ENERGY, "crtbp_energy", [state.copy(), mu]))
    energies["crtbp_energy"] = E1
    decide("crtbp_energy", f"{ENERGY}::crtbp_energy", E1)
    # (2) kinetic + effective potential
    T = S(Interp().call_function(ENERGY, "kinetic_energy", [state.copy()]))
    U = S(Interp().call_function(ENERGY, "effective_potential", [state.copy(), mu]))
    energies["kinetic_energy+effective_potential"] = T + U
    decide("kinetic_energy+effective_potential", f"{ENERGY}::effective_potential", T + U)
    # (3) the manifold filter's Jacobi formula: _max_rel_energy_error with two samples
    c = common.jacobi_of_filter(st, mu)
    energies["_max_rel_energy_error._jacobi"] = c
    decide("_max_rel_energy_error._jacobi", f"{ENERGY}::_max_rel_energy_error._jacobi", c)
    chk.count("functions partially evaluated", 6)
    # (4) affine maps
    e = sp.Symbol("E", real=True)
    J = S(Interp().call_function(ENERGY, "energy_to_jacobi", [e]))
    back = S(Interp().call_function(ENERGY, "jacobi_to_energy", [J]))
    chk.check(sp.diff(J, e, 2) == 0 and sp.diff(J, e) != 0 and not (J.free_symbols - {e}), "C01.d",
              f"{ENERGY}::energy_to_jacobi", f"energy_to_jacobi is not an invertible affine map of the energy: {J}",
              sample=f"energy_to_jacobi(E) = {J}")
    chk.check(sp.simplify(back - e) == 0, "C01.d", f"{ENERGY}::jacobi_to_energy",
              f"jacobi_to_energy is not the inverse of energy_to_jacobi: {back}",
              sample=f"jacobi_to_energy(energy_to_jacobi(E)) = {back}")
    # (5) sibling agreement: all energy-like formulas agree up to an affine constant
    ref = c  # Jacobi-like
    for name, E in energies.items():
        if name.startswith("_max"):
            continue
        # c = a*E + b with a,b independent of the state  <=> gradients proportional with constant factor
        ok = True
        detail = ""
        # factor from vx-derivative
        gE, gC = sp.diff(E, vx), sp.diff(ref, vx)
        if gE == 0:
            ok = False
            detail = "no kinetic part"
        else:
            a = sp.simplify(gC / gE)
            if a.free_symbols - {mu}:
                ok = False
                detail = f"ratio depends on the state: {a}"
            else:
                for s in st:
                    zr, res = is_zero(sp.diff(ref, s) - a * sp.diff(E, s), R)
                    if not zr:
                        ok = False
                        detail = f"d/d{s}: {short(sp.factor(res), 160)}"
                        break
        chk.check(ok, "C01.d-siblings", f"{ENERGY}::{name}~_jacobi",
                  f"{name} and the manifold filter's Jacobi formula are not affinely related ({detail})",
                  sample=f"{name} = a*Jacobi + b with constant a,b")
    # (6) reporting sites use crtbp_energy / energy_to_jacobi
    _report_sites(chk)


def _report_sites(chk):
    """Every call of crtbp_energy / energy_to_jacobi in the orbit and libration services passes the
    object's own mass parameter / its own energy."""
    for modname in ("hiten.algorithms.types.services.orbits", "hiten.algorithms.types.services.libration"):
        mod = ri.need_module(modname)
        n_e = n_j = 0
        for q, fn in ri.functions_in(mod):
            if any(isinstance(ch, ast.FunctionDef) for ch in ast.walk(fn) if ch is not fn):
                # nested factories are visited on their own
                inner = {id(n) for ch in ast.walk(fn) if isinstance(ch, ast.FunctionDef) and ch is not fn for n in ast.walk(ch)}
            else:
                inner = set()
            for c in ast.walk(fn):
                if id(c) in inner or not (isinstance(c, ast.Call) and isinstance(c.func, ast.Name)):
                    continue
                if c.func.id not in ("crtbp_energy", "energy_to_jacobi"):
                    continue
                r = ri.resolve(mod, c.func.id)
                if not (r and r[0] == "def" and r[1].name == ENERGY):
                    chk.fail("C01.d-report", f"{modname}::{q}", f"{c.func.id} does not resolve to {ENERGY}")
                    continue
                if c.func.id == "crtbp_energy":
                    n_e += 1
                    a1 = c.args[1] if len(c.args) > 1 else next((k.value for k in c.keywords if k.arg == "mu"), None)
                    ok = a1 is not None and ast.unparse(a1) in ("self.mu", "self._mu", "self.domain_obj.mu", "self.system.mu")
                    chk.check(ok, "C01.d-report", f"{modname}::{q}[crtbp_energy]",
                              f"reported energy is not crtbp_energy(state, <own mu>): {ri.norm_stmt(c)}", sample=ri.norm_stmt(c))
                else:
                    n_j += 1
                    ok = len(c.args) == 1 and ast.unparse(c.args[0]) in ("self.energy", "energy_val", "self._energy")
                    chk.check(ok, "C01.d-report", f"{modname}::{q}[energy_to_jacobi]",
                              f"reported Jacobi constant is not energy_to_jacobi(self.energy): {ri.norm_stmt(c)}",
                              sample=ri.norm_stmt(c))
        if n_e == 0 or n_j == 0:
            raise AnalysisError(f"anchor: energy/jacobi reporting sites not found in {modname}")
