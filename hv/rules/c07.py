"""C07 — the polynomial Hamiltonian is the Taylor expansion of the true CR3BP Hamiltonian.

a  T_n / A_n builders: rho^n P_n(x/rho) and rho^n P_n(d.r/rho) for n <= N (polynomial-ring summaries of the primitives)
b  assembly of the collinear and the triangular physical Hamiltonian
c  consistency with the exact energy through the library's own local->synodic map:
   (i) local origin -> libration point at rest, (ii/iii) the full multivariate Taylor expansion of
   (E_true(L(c)) - E_true(L(0)))/gamma^2 equals the polynomial degree by degree (n = 2..N) with c_n := _compute_cn(n),
   (iv) second time derivative of the mapped position along Hamilton's equations == _crtbp_accel at the mapped state
d  pipeline wiring: builder by point kind, form name 'physical'

c(i)-gamma  the gamma of the local frame is the equilibrium's distance ratio (C04.b quintic rule, re-filed)
d-memo  caches on the Hamiltonian construction path are keyed by point and degree (hv.memo)

d-facade (round 3)  LibrationPoint.hamiltonian_system / .hamiltonian return the requested form at the requested degree (model centre manifold)
c(v) (round 4)  velocity consistency of the local -> synodic map: d/dt(mapped position) along Hamilton's equations = s * mapped velocity with one sign s (known findings: L1, L2 give (-,-,+));
   b-gamma / d-evaluate: C04.c solver exits and C06.c evaluate re-filed
d (round 5)  the pipeline registry returns, for every degree, a pipeline of that degree with nothing pre-filled from another degree
"""
from __future__ import annotations

import numpy as np
import sympy as sp

from ..core import Check, AnalysisError
from .. import repoindex as ri
from ..kpe import Interp, SymObj, ClassRef, FuncRef, to_obj_array, S, OutsideFragment
from ..alg import Radicals, is_zero, residual, short
from .. import polymodel as pm
from ..polyref import X
from . import common
from . import c04

HH = "hiten.algorithms.hamiltonian.hamiltonian"
TR = "hiten.algorithms.hamiltonian.transforms"
LIB = "hiten.algorithms.types.services.libration"
PL = "hiten.algorithms.hamiltonian.pipeline"
MU = common.MU
GAM = c04.GAM


def run(tier):
    chk = Check("C07", tier, "other",
                "The builders are interpreted with the polynomial primitives replaced by their ring summaries (justified by C06.c), "
                "giving the Hamiltonian as a sympy polynomial with symbolic c_n; Legendre structure, assembly and the degree-by-"
                "degree agreement with the multivariate Taylor expansion of the exact energy pulled back through "
                "_local2synodic_* are polynomial/rational identities in (mu, gamma); the acceleration clause is an exact "
                "identity on the un-truncated pulled-back energy.",
                trusted_base=["python ast", "hv.kpe", "hv.polymodel summaries (C06.c)", "sympy series/legendre", "E_true from the manifold filter's Jacobi formula (C01.d)"])
    N = 6 if tier == "quick" else 9
    # a cached expansion must be keyed by the point (its mu and kind) and the degree it was built for
    from .. import memo
    memo.check_modules(chk, "C07.d-memo", ["hiten.algorithms.hamiltonian.pipeline", "hiten.algorithms.hamiltonian.hamiltonian", "hiten.algorithms.types.services.libration", "hiten.algorithms.types.services.hamiltonian"],
                       floor=2, what="hand-rolled caches on the Hamiltonian construction path")
    # the gamma that scales and centres the local frame is the equilibrium's distance ratio (C04.b quintic rule, re-filed)
    from . import c04
    from .common import Relabel
    c04.gamma_quintics(Relabel(chk, {"C04.b": "C07.c(i)-gamma"}))
    _a_legendre(chk, N)
    _b_assembly(chk, N)
    _c_map_origin(chk)
    _c_taylor(chk, 4 if tier == "quick" else 5)
    _c_accelerations(chk)
    _d_wiring(chk)
    _d_facade(chk)
    _d_pipeline_per_degree(chk)
    # the public facade binds every argument to the service parameter it is meant for (nominal swap rule, rules/common.py)
    from . import common as _common
    _common.facade_bindings(chk, "C07.d-facade", ['hiten.system.libration', 'hiten.system.center'], floor=10)
    # gamma is accurate to the solver's x-tolerance for every mass ratio (the quintics are flat for small mu: an exit on |f| <= tol stops early): C04.c re-filed;
    # the value of a Hamiltonian object at a point sums every block up to the degree at that very point: C06.c re-filed
    from . import c04 as _c04, c06 as _c06
    from .common import Relabel as _Relabel
    _c04._solver_exits(_Relabel(chk, {"C04.c": "C07.b-gamma"}))
    _c06._c_facade_evaluate(_Relabel(chk, {"C06.c": "C07.d-evaluate"}))
    return chk


def _vars(N):
    return [pm.PolyVal(X[i], N) for i in range(6)]


def _a_legendre(chk, N):
    x, y, z = X[0], X[1], X[2]
    rho2 = x ** 2 + y ** 2 + z ** 2
    rho = sp.Symbol("rho", positive=True)
    px, py, pz = _vars(N)[:3]
    ip = Interp(overrides=pm.summaries(), max_depth=30)
    T = ip.call_function(HH, "_build_T_polynomials", [px, py, pz, N, pm.PSI, pm.CLMO, pm.ENC])
    chk.count("functions partially evaluated")
    if len(T) != N + 1:
        raise AnalysisError("_build_T_polynomials does not return max_deg+1 polynomials")
    bad = []
    for n in range(N + 1):
        want = sp.expand(sp.expand(rho ** n * sp.legendre(n, x / rho)).subs(rho ** 2, rho2))
        # remove remaining odd powers of rho (none for a polynomial result)
        want = sp.expand(want.subs(rho, sp.sqrt(rho2)))
        if sp.expand(T[n].expr - want) != 0:
            bad.append((n, str(sp.expand(T[n].expr - want))[:100]))
    chk.check(not bad, "C07.a", f"{HH}::_build_T_polynomials", f"T_n != rho^n P_n(x/rho) for n in {[b[0] for b in bad]}: {bad[:2]}",
              sample=f"T_n = rho^n P_n(x/rho), n = 0..{N} (three-term recurrence with (2n-1)/n and (n-1)/n)")
    # A polynomials for a generic unit direction (dx, dy): rho^n P_n((dx x + dy y)/rho), with dx^2+dy^2 = 1 imposed at the end
    dx, dy = sp.symbols("dx dy", real=True)
    A = ip.call_function(HH, "_build_A_polynomials", [px, py, pz, dx, dy, N, pm.PSI, pm.CLMO, pm.ENC])
    chk.count("functions partially evaluated")
    bad = []
    for n in range(N + 1):
        want = sp.expand(sp.expand(rho ** n * sp.legendre(n, (dx * x + dy * y) / rho)).subs(rho, sp.sqrt(rho2)))
        if sp.expand(A[n].expr - want) != 0:
            bad.append((n, str(sp.expand(A[n].expr - want))[:100]))
    chk.check(not bad, "C07.a", f"{HH}::_build_A_polynomials", f"A_n != rho^n P_n(d.r/rho) for n in {[b[0] for b in bad]}: {bad[:2]}",
              sample=f"A_n = rho^n P_n((d.r)/rho), n = 0..{N} (recurrence (2n+1)/(n+1), n/(n+1))")


def _point(cn=None, mu=MU, sign=None, gamma=GAM, a=None):
    attrs = {"cn": (lambda n: cn[int(n)]) if cn is not None else None, "sign": sign, "gamma": gamma, "a": a}
    return SymObj(None, {"dynamics": SymObj(None, {k: v for k, v in attrs.items() if v is not None}, "dyn"), "mu": mu}, "point")


def _b_assembly(chk, N):
    x, y, z, px, py, pz = X
    cn = {n: sp.Symbol(f"c{n}") for n in range(2, N + 2)}
    ip = Interp(overrides=pm.summaries(), max_depth=30)
    H = ip.call_function(HH, "_build_physical_hamiltonian_collinear", [_point(cn), N])
    chk.count("functions partially evaluated")
    rho2 = x ** 2 + y ** 2 + z ** 2
    rho = sp.Symbol("rho", positive=True)
    Tn = lambda n: sp.expand(sp.expand(rho ** n * sp.legendre(n, x / rho)).subs(rho, sp.sqrt(rho2)))  # noqa: E731
    want = sp.Rational(1, 2) * (px ** 2 + py ** 2 + pz ** 2) + y * px - x * py - sum(cn[n] * Tn(n) for n in range(2, N + 1))
    diff = sp.expand(H.expr - want)
    chk.check(diff == 0, "C07.b", f"{HH}::_build_physical_hamiltonian_collinear",
              f"collinear Hamiltonian is not |p|^2/2 + y px - x py - sum_(n=2..N) c_n T_n (constant removed): difference {str(diff)[:200]}",
              sample=f"H = |p|^2/2 + y px - x py - sum_(n=2..{N}) c_n T_n, degree {N}")
    for sgn in (1, -1):
        Ht = ip.call_function(HH, "_build_physical_hamiltonian_triangular", [_point(None, sign=sgn), N])
        chk.count("functions partially evaluated")
        s3 = sp.sqrt(3) / 2
        An = lambda n, dx, dy: sp.expand(sp.expand(rho ** n * sp.legendre(n, (dx * x + dy * y) / rho)).subs(rho, sp.sqrt(rho2)))  # noqa: E731
        want = sp.Rational(1, 2) * (px ** 2 + py ** 2 + pz ** 2) + y * px - x * py + (sp.Rational(1, 2) - MU) * x - sgn * s3 * y \
            - (1 - MU) * sum(An(n, sp.Rational(1, 2), sgn * s3) for n in range(1, N + 1)) - MU * sum(An(n, -sp.Rational(1, 2), sgn * s3) for n in range(1, N + 1))
        diff = sp.expand(Ht.expr - want)
        chk.check(diff == 0, "C07.b", f"{HH}::_build_physical_hamiltonian_triangular[sign={sgn}]",
                  f"triangular Hamiltonian is not |p|^2/2 + y px - x py + (1/2-mu)x - sgn*sqrt(3)/2 y - (1-mu) sum A_n^S - mu sum A_n^J: {str(diff)[:200]}",
                  sample=f"sign={sgn}: d_S=(1/2, sgn*sqrt3/2), d_J=(-1/2, sgn*sqrt3/2)")


def _local_map(kind, pt, c):
    """Synodic image of local coordinates c for collinear point `pt` or triangular sign."""
    if kind == "collinear":
        svc = c04._svc(c04.POINTS[pt], gamma=GAM)
        point = SymObj(None, {"mu": MU, "dynamics": svc}, "point")
        return to_obj_array(Interp().call_function(TR, "_local2synodic_collinear", [point, c])), svc
    svc = c04._svc({1: "_L4DynamicsService", -1: "_L5DynamicsService"}[pt])
    point = SymObj(None, {"mu": MU, "dynamics": svc}, "point")
    return to_obj_array(Interp().call_function(TR, "_local2synodic_triangular", [point, c])), svc


def _c_map_origin(chk):
    zero = to_obj_array([0] * 6)
    for pt in ("L1", "L2", "L3"):
        syn, svc = _local_map("collinear", pt, zero)
        xl, _ = c04._xL(pt)
        ok = sp.expand(S(syn[0]) - xl) == 0 and all(S(syn[k]) == 0 for k in range(1, 6))
        chk.check(ok, "C07.c(i)", f"{TR}::_local2synodic_collinear[{pt},origin]", f"{pt}: local origin maps to {list(syn)}, expected ({xl},0,0) at rest",
                  sample=f"{pt}: origin -> ({xl}, 0, 0; 0, 0, 0)")
    for sgn, cls in ((1, "_L4DynamicsService"), (-1, "_L5DynamicsService")):
        syn, svc = _local_map("triangular", sgn, zero)
        ip = Interp()
        pos = to_obj_array(ip.apply(ip.getattr(svc, "_compute_position"), [], {}))
        ok = all(sp.simplify(S(syn[k]) - S(pos[k])) == 0 for k in range(3)) and all(sp.simplify(S(syn[k])) == 0 for k in range(3, 6))
        chk.check(ok, "C07.c(i)", f"{TR}::_local2synodic_triangular[sign={sgn},origin]",
                  f"triangular local origin maps to {[str(sp.simplify(S(v))) for v in syn]}, but the point computed by the library is {[str(v) for v in pos]} at rest "
                  f"(x has the wrong sign and the velocity is not zero): the L4/L5 Hamiltonian then differs from the exact energy at first order",
                  sample=f"sign={sgn}: origin -> position {list(pos)} at rest")


def _c_taylor(chk, N):
    """Degree-by-degree agreement of the polynomial with the exact pulled-back energy (collinear points)."""
    E = common.exact_energy()
    st = common.STATE
    c = to_obj_array(list(X))
    eps = sp.Symbol("eps", positive=True)
    d1, d2 = sp.symbols("dist1 dist2", positive=True)
    for pt in ("L1", "L2", "L3"):
        syn, svc = _local_map("collinear", pt, to_obj_array([eps * v for v in X]))
        xl, _ = c04._xL(pt)
        s1 = int(sp.sign((xl + MU).subs({GAM: sp.Rational(1, 3), MU: sp.Rational(1, 10)})))
        s2 = int(sp.sign((xl - 1 + MU).subs({GAM: sp.Rational(1, 3), MU: sp.Rational(1, 10)})))
        Xs, Ys, Zs = S(syn[0]), S(syn[1]), S(syn[2])
        # distances: (X+mu) = s1*d1 + eps*(...), (X-1+mu) = s2*d2 + eps*(...)
        a1 = sp.expand(Xs + MU - (xl + MU))
        a2 = sp.expand(Xs - 1 + MU - (xl - 1 + MU))
        r1 = sp.sqrt((s1 * d1 + a1) ** 2 + Ys ** 2 + Zs ** 2)
        r2 = sp.sqrt((s2 * d2 + a2) ** 2 + Ys ** 2 + Zs ** 2)
        # exact energy with the distances replaced (structure of E checked: it depends on position only through x,y and r1,r2)
        R = Radicals()
        Er = R.rewrite(E)
        rs = list(R.rel.items())
        sym1 = next((s for s, (b, q) in rs if sp.expand(b - ((st[0] + MU) ** 2 + st[1] ** 2 + st[2] ** 2)) == 0), None)
        sym2 = next((s for s, (b, q) in rs if sp.expand(b - ((st[0] - 1 + MU) ** 2 + st[1] ** 2 + st[2] ** 2)) == 0), None)
        if sym1 is None or sym2 is None:
            raise AnalysisError("exact energy does not depend on the state through the two primary distances")
        Esub = Er.subs({sym1: r1, sym2: r2}).subs(dict(zip(st, [S(v) for v in syn])), simultaneous=True)
        ser = sp.series(Esub / GAM ** 2, eps, 0, N + 1).removeO()
        ser = sp.expand(ser)
        dsub = {d1: sp.expand(s1 * (xl + MU)), d2: sp.expand(s2 * (xl - 1 + MU))}
        cn = {n: S(Interp().apply(Interp().getattr(svc, "_compute_cn"), [n], {})) for n in range(2, N + 1)}
        ip = Interp(overrides=pm.summaries(), max_depth=30)
        H = ip.call_function(HH, "_build_physical_hamiltonian_collinear", [_point(cn), N])
        bad = []
        for n in range(2, N + 1):
            got = pm.homogeneous(H.expr, n)
            want = sp.expand(ser.coeff(eps, n).subs(dsub))
            diff = sp.Poly(sp.expand(got - want), *X)
            for m, cf in diff.terms():
                if residual(cf) != 0:
                    bad.append((n, m, short(sp.factor(sp.together(cf)), 80)))
                    break
        chk.check(not bad, "C07.c(ii-iii)", f"{HH}::_build_physical_hamiltonian_collinear[{pt},Taylor]",
                  f"{pt}: the degree-n part of the polynomial Hamiltonian differs from the degree-n Taylor coefficient of (E_true(L(c)) - E_true(L))/gamma^2 for n = "
                  f"{sorted({b[0] for b in bad})}: {bad[:2]}",
                  sample=f"{pt}: homogeneous parts n = 2..{N} of H equal the multivariate Taylor expansion of the exact energy pulled back by _local2synodic_collinear")
        chk.count("functions partially evaluated", 3)


def _c_accelerations(chk):
    """D(DP.X_H).X_H == accel(L(c)) with H_ex = E_true(L(c))/gamma^2 (exact), X_H = J grad H_ex."""
    E = common.exact_energy()
    st = common.STATE
    field = common.crtbp_field()
    c = sp.symbols("q1 q2 q3 p1 p2 p3", real=True)
    for kind, pts in (("collinear", ("L1", "L2", "L3")), ("triangular", (1, -1))):
        for pt in pts:
            syn, svc = _local_map(kind, pt, to_obj_array(list(c)))
            g = GAM if kind == "collinear" else sp.Integer(1)
            sub = dict(zip(st, [S(v) for v in syn]))
            Hex = E.subs(sub, simultaneous=True) / g ** 2
            grad = [sp.diff(Hex, v) for v in c]
            XH = [grad[3], grad[4], grad[5], -grad[0], -grad[1], -grad[2]]
            P = [S(syn[k]) for k in range(3)]
            V = [sum(sp.diff(P[k], c[j]) * XH[j] for j in range(6)) for k in range(3)]
            Acc = [sum(sp.diff(V[k], c[j]) * XH[j] for j in range(6)) for k in range(3)]
            want = [sp.sympify(field[3 + k]).subs(sub, simultaneous=True) for k in range(3)]
            # velocities of the mapped state must be what the field sees: substitute mapped velocities as they are
            bad = []
            R = Radicals()
            for k in range(3):
                z, res = is_zero(Acc[k] - want[k], R)
                if not z:
                    bad.append(k)
            label = pt if kind == "collinear" else f"sign={pt}"
            fn = "_local2synodic_collinear" if kind == "collinear" else "_local2synodic_triangular"
            # (v) "mapped through the canonical transformation": the velocity the map reports is the time derivative of the position it reports, along the
            # Hamiltonian flow - with one sign for all three components (+: conjugacy, -: reversing conjugacy).  With mixed signs the second derivative of the
            # mapped position can still equal the CR3BP acceleration at the mapped STATE (the check above) while the mapped curve is no CR3BP trajectory:
            # the pushed-forward field (V', in particular) then misses the CR3BP field at first order.
            pat = []
            for k in range(3):
                zp, _ = is_zero(V[k] - S(syn[3 + k]), R)
                zm, _ = is_zero(V[k] + S(syn[3 + k]), R)
                pat.append("+" if zp else ("-" if zm else "x"))
            chk.check(pat in (["+"] * 3, ["-"] * 3), "C07.c(v)", f"{TR}::{fn}[{label},velocity]",
                      f"{label}: along Hamilton's equations d/dt of the mapped position equals (sign per component x, y, z) {pat} times the mapped velocity: the state the map "
                      f"returns is not the state of the mapped trajectory (for spatial motion no symmetry of the CR3BP repairs it); the pushed-forward Hamilton field "
                      f"misses the CR3BP field at first order", sample=f"{label}: d/dt L_pos(c(t)) = s * L_vel(c(t)), one sign s")
            chk.check(not bad, "C07.c(iv)", f"{TR}::{fn}[{label},accelerations]",
                      f"{label}: the second time derivative of the mapped position along Hamilton's equations of the pulled-back exact energy is not the CR3BP acceleration "
                      f"at the mapped state (components {bad}); the map is neither a conjugacy nor a reversing conjugacy of the rotating-frame dynamics"
                      + (" (pure reflection X -> -X: the Coriolis term changes sign)" if kind == "collinear" else ""),
                      sample=f"{label}: D(DP.X_H).X_H == _crtbp_accel(L(c))[3:6] (3 identities)")
    chk.count("functions partially evaluated", 5)


def _d_pipeline_per_degree(chk):
    """The degree-N expansion of a point is computed by the degree-N pipeline, whatever other degrees were asked for before: the pipeline
    registry (_HamiltonianPipelineService.get) is interpreted on a model point for which a degree-8 pipeline with a cached 'physical' form already
    exists; the degree-5 pipeline it returns must be a new pipeline of (point, 5) with nothing pre-filled in its cache, a second request must return
    the same object, and the degree-8 pipeline must be untouched."""
    HS_ = "hiten.algorithms.types.services.hamiltonian"
    mod, cls = ri.find_def(HS_, "_HamiltonianPipelineService")
    point = SymObj(None, {}, "point")
    src_ham = SymObj(None, {"poly_H": [sp.Symbol(f"H8_{d}") for d in range(9)], "ndof": 3, "degree": 8, "dynamics": SymObj(None, {"psi": sp.Symbol("PSI")}, "dyn")}, "physical(8)")
    made = []

    def new_pipeline(ip_, a, k):
        o = SymObj(None, {"_point": a[0], "_degree": a[1], "degree": a[1], "_hamiltonian_cache": {}, "_generating_function_cache": {}}, f"pipeline{len(made)}")
        made.append(o)
        return o

    p8 = SymObj(None, {"_point": point, "_degree": 8, "degree": 8, "_hamiltonian_cache": {"physical": src_ham}, "_generating_function_cache": {}}, "pipeline(8)")
    svc = SymObj(ClassRef(mod, cls), {"_pipelines": {id(point): {8: p8}}, "_conversion": sp.Symbol("CONV")}, "registry")
    ip = Interp(overrides={"HamiltonianPipeline": new_pipeline, "_polynomial_zero_list": lambda ip_, a, k: [np.zeros(1, dtype=object) for _ in range(int(a[0]) + 1)]})
    try:
        p5 = ip.apply(ip.getattr(svc, "get"), [point, 5], {})
        p5b = ip.apply(ip.getattr(svc, "get"), [point, 5], {})
        p8b = ip.apply(ip.getattr(svc, "get"), [point, 8], {})
    except OutsideFragment as exc:
        raise AnalysisError(f"_HamiltonianPipelineService.get outside fragment: {exc}")
    chk.count("functions partially evaluated")
    ok = len(made) == 1 and p5 is made[0] and p5.attrs.get("_degree") == 5 and p5.attrs.get("_point") is point and p5.attrs.get("_hamiltonian_cache") == {} \
        and p5b is p5 and p8b is p8 and list(p8.attrs["_hamiltonian_cache"]) == ["physical"] and p8.attrs["_hamiltonian_cache"]["physical"] is src_ham
    chk.check(ok, "C07.d", f"{HS_}::_HamiltonianPipelineService.get[degree 5 after degree 8]",
              f"after a degree-8 pipeline exists, get(point, 5) returns {p5!r} with cache {list((p5.attrs.get('_hamiltonian_cache') or {}).keys()) if isinstance(p5, SymObj) else None} "
              f"({len(made)} pipeline(s) built): the degree-5 forms are not computed by a degree-5 pipeline of their own (a 'physical' form derived from another degree's "
              f"polynomial must be the full degree-5 truncation - nothing checks that - so none may be pre-filled)",
              sample="get(point, 5) after (point, 8): a new HamiltonianPipeline(point, 5) with an empty cache; repeated get returns it; (point, 8) untouched")


def _d_facade(chk):
    """What the point hands out for (form, degree) is that form at that degree: LibrationPoint.hamiltonian_system /
    .hamiltonian go through _LibrationDynamicsService.hamsys / .hamiltonian, which are interpreted on a model centre manifold
    whose pipeline returns a tagged Hamiltonian per form; the runtime system returned must carry the requested tag."""
    LS = "hiten.algorithms.types.services.libration"
    mod, cls = ri.find_def(LS, "_LibrationDynamicsService")
    DEG = 6
    for form in ("physical", "real_normal", "center_manifold_real"):
        asked = []

        def cm_for(deg):
            asked.append(deg)
            pipeline = SymObj(None, {"get_hamiltonian": lambda f, *a, **k: SymObj(None, {"name": f, "degree": deg, "hamsys": ("hamsys", f, deg)}, f"H[{f}]")}, "pipeline")
            dyn = SymObj(None, {"pipeline": pipeline, "hamsys": ("hamsys", "center_manifold_real", deg)}, "cm.dynamics")
            return SymObj(None, {"compute": lambda *a, **k: SymObj(None, {"hamsys": ("hamsys", "center_manifold_real", deg)}, "H[cm]"), "dynamics": dyn,
                                 "hamsys": ("hamsys", "center_manifold_real", deg)}, "cm")

        dom = SymObj(None, {}, "point")
        svc = SymObj(ClassRef(mod, cls), {"domain_obj": dom, "_domain_obj": dom, "make_key": lambda *a: tuple(map(str, a)), "get_or_create": lambda k, f: f(),
                                         "center_manifold": cm_for}, "service")
        ip = Interp()
        try:
            got = ip.apply(ip.getattr(svc, "hamsys"), [DEG, form], {})
            ham = ip.apply(ip.getattr(svc, "hamiltonian"), [DEG, form], {})
        except OutsideFragment as exc:
            raise AnalysisError(f"_LibrationDynamicsService.hamsys outside fragment: {exc}")
        chk.check(got == ("hamsys", form, DEG), "C07.d-facade", f"{LS}::_LibrationDynamicsService.hamsys[{form}]",
                  f"hamsys({DEG}, {form!r}) returns {got!r}: Hamilton's equations of another form (or degree) than the one asked for",
                  sample=f"hamsys({DEG}, {form!r}) -> runtime system of the {form} Hamiltonian at degree {DEG}")
        nm = ham.attrs.get("name") if isinstance(ham, SymObj) else None
        chk.check(nm == form and ham.attrs.get("degree") == DEG, "C07.d-facade", f"{LS}::_LibrationDynamicsService.hamiltonian[{form}]",
                  f"hamiltonian({DEG}, {form!r}) returns {ham!r} ({nm})", sample=f"hamiltonian({DEG}, {form!r}) -> pipeline.get_hamiltonian({form!r}) of the degree-{DEG} centre manifold")
    chk.count("functions partially evaluated", 2)
    # the facade passes (form, degree) in the service's parameter order
    bmod, bcls = ri.find_def("hiten.system.libration.base", "LibrationPoint")
    seen = {}
    pt = SymObj(ClassRef(bmod, bcls), {"dynamics": SymObj(None, {"hamsys": lambda *a, **k: seen.setdefault("hamsys", (a, k)),
                                                                  "hamiltonian": lambda *a, **k: seen.setdefault("hamiltonian", (a, k))}, "dynamics")}, "point")
    ip = Interp()
    ip.apply(ip.getattr(pt, "hamiltonian_system"), ["physical", DEG], {})
    ip.apply(ip.getattr(pt, "hamiltonian"), [DEG, "physical"], {})
    smeth = ri.class_member(mod, cls, "hamsys")
    params = [a.arg for a in smeth[2].args.args][1:]
    for name in ("hamsys", "hamiltonian"):
        a, k = seen.get(name, ((), {}))
        bound = dict(zip(params if name == "hamsys" else ["max_deg", "form"], a))
        bound.update(k)
        deg = bound.get("degree", bound.get("max_deg"))
        chk.check(deg == DEG and bound.get("form") == "physical", "C07.d-facade", f"hiten.system.libration.base::LibrationPoint[{name}]",
                  f"the facade calls dynamics.{name} with {a}, {k}", sample=f"dynamics.{name}(degree={DEG}, form='physical')")


def _d_wiring(chk):
    pmod, pcls = ri.find_def(PL, "HamiltonianPipeline")
    from .c18 import _point as kind_point
    for kind, want in (("collinear", "_build_physical_hamiltonian_collinear"), ("triangular", "_build_physical_hamiltonian_triangular")):
        pipe = SymObj(ClassRef(pmod, pcls), {}, "pipe")
        init = ri.class_member(pmod, pcls, "__init__")
        ipx = Interp(overrides={"get_hamiltonian_services": lambda ip_, a, k: sp.Symbol("REG")})
        ipx.apply(FuncRef(init[0], init[2], bound_self=pipe, qual="HamiltonianPipeline.__init__", owner=(init[0], init[1])), [kind_point(kind), 6], {})
        b = pipe.attrs.get("_build_hamiltonian")
        chk.check(isinstance(b, FuncRef) and b.node.name == want, "C07.d", f"{PL}::HamiltonianPipeline.__init__[{kind}]",
                  f"{kind} point selects builder {getattr(getattr(b, 'node', None), 'name', b)}", sample=f"{kind} -> {want}")
        cap = {}
        pipe.attrs["_build_hamiltonian"] = lambda p, d: sp.Symbol("POLY")
        ipb = Interp(overrides={"Hamiltonian": lambda ip_, a, k: (cap.update({"args": a, "kw": k}), SymObj(None, dict(k), "ham"))[1]})
        ipb.apply(ipb.getattr(pipe, "_build_physical_hamiltonian"), [], {})
        chk.check(cap.get("kw", {}).get("name") == "physical" and cap.get("args", [None])[0] == sp.Symbol("POLY") and cap["args"][1] == 6, "C07.d",
                  f"{PL}::HamiltonianPipeline._build_physical_hamiltonian[{kind}]", f"physical form is built as {cap}", sample="Hamiltonian(poly, degree, ndof=3, name='physical')",
                  nontrivial=False)
