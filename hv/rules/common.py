"""Shared extracted objects: the CR3BP field, state symbols, the exact energy."""
from __future__ import annotations

from functools import lru_cache

import sympy as sp

from ..core import AnalysisError
from .. import repoindex as ri
from ..kpe import Interp, to_obj_array, FuncRef, S

RTBP = "hiten.algorithms.dynamics.rtbp"
ENERGY = "hiten.algorithms.common.energy"

STATE = sp.symbols("x y z vx vy vz", real=True)
MU = sp.Symbol("mu", positive=True)


@lru_cache(maxsize=None)
def crtbp_field():
    """_crtbp_accel(state, mu) as a tuple of 6 terms in STATE, MU."""
    out = Interp().call_function(RTBP, "_crtbp_accel", [to_obj_array(list(STATE)), MU])
    out = to_obj_array(out)
    if out.shape != (6,):
        raise AnalysisError(f"_crtbp_accel returned shape {out.shape}")
    return tuple(S(v) for v in out)


def field_at(state6, mu=MU):
    f = crtbp_field()
    sub = dict(zip(STATE, state6))
    sub[MU] = mu
    return [sp.sympify(c).subs(sub, simultaneous=True) for c in f]


def jacobi_of_filter(st, mu):
    """The Jacobi formula nested in _max_rel_energy_error, applied to the symbols `st`."""
    ip = Interp()
    import numpy as np
    states = np.empty((1, 6), dtype=object)
    for k in range(6):
        states[0, k] = st[k]
    ip.call_function(ENERGY, "_max_rel_energy_error", [states, mu])
    env = ip.env_log.get("_max_rel_energy_error")
    jac = env.vars.get("_jacobi") if env is not None else None
    if not isinstance(jac, FuncRef):
        # fallback: the function may have been refactored to call a module-level helper
        C0 = env.vars.get("C0") if env is not None else None
        if C0 is None:
            raise AnalysisError("anchor: Jacobi formula inside _max_rel_energy_error not found")
        return S(C0)
    return S(ip.apply(jac, list(st), {}))


@lru_cache(maxsize=None)
def exact_energy():
    """E_true(s) = (v^2 - C_filter)/2-like: derived from the filter's Jacobi formula: E = -C/2."""
    return -jacobi_of_filter(STATE, MU) / 2


class Relabel:
    """Re-files the obligations a shared rule function produces under another property's rule id.

    `mapping` maps rule-id prefixes (longest first) to their replacement, e.g. {"C03.c": "C10.b"}."""

    def __init__(self, chk, mapping):
        self._chk = chk
        self._map = sorted(mapping.items(), key=lambda kv: -len(kv[0]))

    def __getattr__(self, k):
        return getattr(self._chk, k)

    def _r(self, rule):
        for a, b in self._map:
            if rule.startswith(a):
                return b + rule[len(a):]
        return rule

    def check(self, cond, rule, construct, *a, **kw):
        return self._chk.check(cond, self._r(rule), construct, *a, **kw)

    def ok(self, rule, construct, *a, **kw):
        return self._chk.ok(self._r(rule), construct, *a, **kw)

    def fail(self, rule, construct, *a, **kw):
        return self._chk.fail(self._r(rule), construct, *a, **kw)


def facade_bindings(chk, rule, module_prefixes, floor=1):
    """Facade -> service calls bind every argument to the parameter it is meant for: in a method of a class under
    `module_prefixes` (the public facade, src/hiten/system), a call `self.<service>.<m>(...)` whose method name resolves to
    methods of the service package must not pass a plain variable NAMED LIKE ONE PARAMETER of that method into the slot of
    ANOTHER parameter (positionally or by keyword): `hamsys(form, max_deg)` against `def hamsys(self, degree, form)`.
    A purely nominal, type-free swap rule; arguments whose name is no parameter of the callee are left alone."""
    import ast as _ast
    svc = {}
    for m in ri.all_modules():
        if not m.name.startswith("hiten.algorithms.types.services"):
            continue
        for cls in [c for c in m.tree.body if isinstance(c, _ast.ClassDef)]:
            for f in [f for f in cls.body if isinstance(f, _ast.FunctionDef)]:
                if not any("property" in d or d.endswith(".setter") for d in ri.decorators(f)):
                    svc.setdefault(f.name, []).append((cls.name, f))
    n = 0
    for m in ri.all_modules():
        if not any(m.name == p or m.name.startswith(p + ".") for p in module_prefixes):
            continue
        for cls in [c for c in m.tree.body if isinstance(c, _ast.ClassDef)]:
            for f in [f for f in cls.body if isinstance(f, _ast.FunctionDef)]:
                for c in _ast.walk(f):
                    if not (isinstance(c, _ast.Call) and isinstance(c.func, _ast.Attribute) and isinstance(c.func.value, _ast.Attribute)
                            and isinstance(c.func.value.value, _ast.Name) and c.func.value.value.id == "self" and svc.get(c.func.attr)):
                        continue
                    n += 1
                    bad = []
                    for cname, sf in svc[c.func.attr]:
                        params = [a.arg for a in sf.args.args][1:]
                        allp = set(params) | {a.arg for a in sf.args.kwonlyargs}
                        for i, a in enumerate(c.args):
                            if isinstance(a, _ast.Name) and i < len(params) and a.id != params[i] and a.id in allp:
                                bad.append(f"argument `{a.id}` lands in parameter `{params[i]}` of {cname}.{sf.name}")
                        for k in c.keywords:
                            if k.arg and isinstance(k.value, _ast.Name) and k.value.id != k.arg and k.value.id in allp and k.arg in allp:
                                bad.append(f"`{k.arg}={k.value.id}` although {cname}.{sf.name} has a parameter `{k.value.id}`")
                    chk.check(not bad, rule, f"{m.name}::{cls.name}.{f.name}[self.{c.func.value.attr}.{c.func.attr}(...)]",
                              f"{cls.name}.{f.name} calls {_ast.unparse(c)[:90]}: {'; '.join(sorted(set(bad))[:3])}",
                              sample=f"{cls.name}.{f.name} -> {c.func.attr}: arguments bound to their namesakes", nontrivial=False)
    chk.floor(f"facade -> service calls under {list(module_prefixes)}", n, floor)
