"""E3: statement-level CFG for the statement kinds hiten uses, with dominance and reachability queries.

Nodes are integers; node data: kind ('entry','exit','raise','stmt','test','for','except'), ast (the statement or the
test expression), stmt (owning statement).  Edges carry a label: 'next', 'true', 'false', 'back', 'exc', 'loop', 'done'.
Parallel edges are kept (MultiDiGraph)."""
from __future__ import annotations

import ast

import networkx as nx

from .core import AnalysisError


class CFG:
    def __init__(self, fn):
        self.fn = fn
        self.g = nx.MultiDiGraph()
        self._n = 0
        self.entry = self._new("entry")
        self.exit = self._new("exit")       # normal returns (and fall-off)
        self.raise_exit = self._new("raise")  # uncaught raises
        self.node_of = {}                   # id(ast stmt) -> node
        self._loops = []                    # stack of (continue_target, break_target)
        self._handlers = []                 # stack of lists of handler entry nodes
        self._finally = []
        last = self._block(fn.body, [(self.entry, "next")])
        for src, lab in last:
            self.g.add_edge(src, self.exit, label=lab)

    # ------------------------------------------------------------------ construction
    def _new(self, kind, node=None, stmt=None):
        self._n += 1
        self.g.add_node(self._n, kind=kind, ast=node, stmt=stmt if stmt is not None else node)
        if node is not None and kind in ("stmt", "test", "for"):
            self.node_of.setdefault(id(stmt if stmt is not None else node), self._n)
        return self._n

    def _connect(self, preds, node):
        for src, lab in preds:
            self.g.add_edge(src, node, label=lab)

    def _exc_edges(self, node):
        """A statement inside try may transfer to every enclosing handler (conservative)."""
        if self._handlers:
            for h in self._handlers[-1]:
                self.g.add_edge(node, h, label="exc")

    def _block(self, stmts, preds):
        for st in stmts:
            if not preds:
                # unreachable code: still build it so that anchors resolve, from no predecessor
                pass
            preds = self._stmt(st, preds)
        return preds

    def _stmt(self, st, preds):
        if isinstance(st, ast.If):
            t = self._new("test", st.test, st)
            self._connect(preds, t)
            self._exc_edges(t)
            out_t = self._block(st.body, [(t, "true")])
            out_f = self._block(st.orelse, [(t, "false")]) if st.orelse else [(t, "false")]
            return out_t + out_f
        if isinstance(st, ast.While):
            t = self._new("test", st.test, st)
            self._connect(preds, t)
            self._exc_edges(t)
            brk = []
            self._loops.append((t, brk))
            body_out = self._block(st.body, [(t, "true")])
            self._loops.pop()
            for src, lab in body_out:
                self.g.add_edge(src, t, label="back")
            const_true = isinstance(st.test, ast.Constant) and bool(st.test.value)
            out = [] if const_true else [(t, "false")]
            if st.orelse:
                out = self._block(st.orelse, out)
            return out + brk
        if isinstance(st, ast.For):
            t = self._new("for", st.iter, st)
            self._connect(preds, t)
            self._exc_edges(t)
            brk = []
            self._loops.append((t, brk))
            body_out = self._block(st.body, [(t, "loop")])
            self._loops.pop()
            for src, lab in body_out:
                self.g.add_edge(src, t, label="back")
            out = [(t, "done")]
            if st.orelse:
                out = self._block(st.orelse, out)
            return out + brk
        if isinstance(st, ast.Try):
            handler_entries = []
            for h in st.handlers:
                hn = self._new("except", h, st)
                handler_entries.append(hn)
            self._handlers.append(handler_entries + (self._handlers[-1] if self._handlers and not _catches_all(st) else []))
            body_out = self._block(st.body, preds)
            self._handlers.pop()
            if st.orelse:
                body_out = self._block(st.orelse, body_out)
            outs = list(body_out)
            for h, hn in zip(st.handlers, handler_entries):
                outs += self._block(h.body, [(hn, "next")])
            if st.finalbody:
                outs = self._block(st.finalbody, outs)
            return outs
        if isinstance(st, ast.With):
            n = self._new("stmt", st, st)
            self._connect(preds, n)
            self._exc_edges(n)
            return self._block(st.body, [(n, "next")])
        if isinstance(st, (ast.FunctionDef, ast.AsyncFunctionDef, ast.ClassDef)):
            n = self._new("stmt", st, st)
            self._connect(preds, n)
            return [(n, "next")]
        n = self._new("stmt", st, st)
        self._connect(preds, n)
        self._exc_edges(n)
        if isinstance(st, ast.Return):
            self.g.add_edge(n, self.exit, label="return")
            return []
        if isinstance(st, ast.Raise):
            if self._handlers:
                pass  # exc edges already added
            else:
                self.g.add_edge(n, self.raise_exit, label="raise")
            if self._handlers and not self._handlers[-1]:
                self.g.add_edge(n, self.raise_exit, label="raise")
            return []
        if isinstance(st, ast.Break):
            if not self._loops:
                raise AnalysisError("break outside loop")
            self._loops[-1][1].append((n, "break"))
            return []
        if isinstance(st, ast.Continue):
            if not self._loops:
                raise AnalysisError("continue outside loop")
            self.g.add_edge(n, self._loops[-1][0], label="back")
            return []
        if isinstance(st, (ast.Match,)):
            raise AnalysisError("match statement outside the CFG fragment")
        return [(n, "next")]

    # ------------------------------------------------------------------ queries
    def nodes(self, pred=None):
        for n, d in self.g.nodes(data=True):
            if pred is None or pred(n, d):
                yield n

    def stmt_nodes(self, cls=None, where=None):
        out = []
        for n, d in self.g.nodes(data=True):
            if d["kind"] in ("stmt", "test", "for") and d["ast"] is not None:
                st = d["stmt"]
                if cls is not None and not isinstance(st, cls):
                    continue
                if where is not None and not where(st):
                    continue
                out.append(n)
        return out

    def data(self, n):
        return self.g.nodes[n]

    def dominators(self):
        return nx.immediate_dominators(self.g, self.entry)

    def dominates(self, a, b, idom=None):
        idom = idom or self.dominators()
        if b not in idom:
            return False
        x = b
        while True:
            if x == a:
                return True
            nxt = idom.get(x)
            if nxt is None or nxt == x:
                return x == a
            x = nxt

    def reachable_from(self, start_nodes, avoiding=(), avoid_edges=None):
        """Nodes reachable from start_nodes without entering any node in `avoiding`."""
        avoiding = set(avoiding)
        seen = set()
        todo = [n for n in start_nodes if n not in avoiding]
        while todo:
            n = todo.pop()
            if n in seen:
                continue
            seen.add(n)
            for _, m, k, d in self.g.out_edges(n, keys=True, data=True):
                if m in avoiding or m in seen:
                    continue
                if avoid_edges is not None and avoid_edges(n, m, d):
                    continue
                todo.append(m)
        return seen

    def succ(self, n, label=None):
        return [m for _, m, d in self.g.out_edges(n, data=True) if label is None or d.get("label") == label]

    def edge_targets(self, n, label):
        return self.succ(n, label)

    def reaches(self, a, b, avoiding=()):
        return b in self.reachable_from([a], avoiding)

    def guarded_by(self, node, idom=None):
        """[(test_node, polarity)] for branch tests that dominate `node` through exactly one of their out-edges:
        node is reachable from the `polarity` edge and NOT reachable from the other edge without passing the test again."""
        out = []
        idom = idom or self.dominators()
        x = node
        chain = []
        while x in idom and idom[x] != x:
            x = idom[x]
            chain.append(x)
        for t in chain:
            d = self.data(t)
            if d["kind"] != "test":
                continue
            tt = self.succ(t, "true")
            ff = self.succ(t, "false")
            r_t = node in self.reachable_from(tt, avoiding=[t]) if tt else False
            r_f = node in self.reachable_from(ff, avoiding=[t]) if ff else False
            if r_t and not r_f:
                out.append((t, True))
            elif r_f and not r_t:
                out.append((t, False))
        return out


def _catches_all(trynode):
    for h in trynode.handlers:
        if h.type is None:
            return True
        if isinstance(h.type, ast.Name) and h.type.id in ("Exception", "BaseException"):
            return True
    return False


def names_assigned(st):
    out = set()
    for n in ast.walk(st):
        if isinstance(n, ast.Name) and isinstance(n.ctx, ast.Store):
            out.add(n.id)
        elif isinstance(n, (ast.AugAssign,)) and isinstance(n.target, ast.Name):
            out.add(n.target.id)
    return out


def calls_in(node, name=None):
    out = []
    for n in ast.walk(node):
        if isinstance(n, ast.Call):
            f = n.func
            nm = f.id if isinstance(f, ast.Name) else (f.attr if isinstance(f, ast.Attribute) else None)
            if name is None or nm == name:
                out.append(n)
    return out


def resolve_guard(fn, expr, pol=True, depth=0):
    """Look through the usual spellings of a guard: a local flag assigned exactly once (`ok = x < tol; if ok:`), `bool(...)`,
    `not ...`, and mirrored comparisons.  Returns (expr, polarity) with expr a Compare written with < / <= / == / != where
    possible (a > b is returned as b < a)."""
    if depth > 6:
        return expr, pol
    if isinstance(expr, ast.Name):
        defs = [n.value for n in ast.walk(fn) if isinstance(n, ast.Assign) and len(n.targets) == 1 and isinstance(n.targets[0], ast.Name) and n.targets[0].id == expr.id]
        defs += [n.value for n in ast.walk(fn) if isinstance(n, ast.AnnAssign) and isinstance(n.target, ast.Name) and n.target.id == expr.id and n.value is not None]
        if len(defs) == 1:
            return resolve_guard(fn, defs[0], pol, depth + 1)
        return expr, pol
    if isinstance(expr, ast.Call) and isinstance(expr.func, ast.Name) and expr.func.id == "bool" and len(expr.args) == 1:
        return resolve_guard(fn, expr.args[0], pol, depth + 1)
    if isinstance(expr, ast.UnaryOp) and isinstance(expr.op, ast.Not):
        return resolve_guard(fn, expr.operand, not pol, depth + 1)
    if isinstance(expr, ast.Compare) and len(expr.ops) == 1:
        op, a, b = expr.ops[0], expr.left, expr.comparators[0]
        if isinstance(op, (ast.Gt, ast.GtE)):
            expr = ast.Compare(left=b, ops=[ast.Lt() if isinstance(op, ast.Gt) else ast.LtE()], comparators=[a])
        if not pol:
            # negate: not (a < b) == b <= a ; not (a <= b) == b < a ; not == is != ...
            op, a, b = expr.ops[0], expr.left, expr.comparators[0]
            # only (in)equality may be negated: `not (a >= b)` is NOT `a < b` when a is NaN, and "a NaN residual is never
            # accepted" is exactly what C05.a has to see
            neg = {ast.Eq: (ast.NotEq, False), ast.NotEq: (ast.Eq, False)}.get(type(op))
            if neg is not None:
                newop, swap = neg
                expr = ast.Compare(left=b if swap else a, ops=[newop()], comparators=[a if swap else b])
                pol = True
        return expr, pol
    return expr, pol
