"""C04 — libration points are equilibria with correct linear dynamics for every mu.

a  _dOmega_dx == x-acceleration of the field on the axis; triangular positions annihilate the field
b  gamma quintics proportional to the numerator of dOmega/dx at x_L(gamma); search range brackets a root for all mu
c  position brackets (primary + fallback) contain a sign change for every mu in (0, 1/2] and every catalogue pair
d  c_n from first principles (axis Taylor coefficients of the exact potential through the library's own local map)
e  _J_hess_H2: same characteristic polynomial as the Jacobian at the point
f  closed-form normal-form matrix: C^T J C = J and H2 o C diagonal (Groebner reduction modulo the defining relations)
"""
from __future__ import annotations

import ast
from fractions import Fraction

import numpy as np
import sympy as sp

from ..core import Check, AnalysisError
from .. import repoindex as ri
from ..kpe import Interp, SymObj, ClassRef, FuncRef, to_obj_array, S, OutsideFragment, KpeRaise
from ..alg import Radicals, is_zero, residual, short
from . import common

LIB = "hiten.algorithms.types.services.libration"
TR = "hiten.algorithms.hamiltonian.transforms"
CONST = "hiten.utils.constants"
RTBP = "hiten.algorithms.dynamics.rtbp"

MU = common.MU
GAM = sp.Symbol("gamma", positive=True)
POINTS = {"L1": "_L1DynamicsService", "L2": "_L2DynamicsService", "L3": "_L3DynamicsService"}


def _svc(cls_name, **attrs):
    mod, cls = ri.find_def(LIB, cls_name)
    base = {"mu": MU}
    base.update(attrs)
    return SymObj(ClassRef(mod, cls), base, cls_name)


def _xL(pt):
    """x_L(gamma) from the library's own local->synodic map at the local origin."""
    svc = _svc(POINTS[pt], gamma=GAM)
    ip = Interp()
    point = SymObj(None, {"mu": MU, "dynamics": svc}, "point")
    syn = to_obj_array(ip.call_function(TR, "_local2synodic_collinear", [point, to_obj_array([0] * 6)]))
    return sp.expand(S(syn[0])), svc


def _sign_on(expr, sym, lo, hi, lo_open=True):
    """Sign (+1/-1/0/None) of an expression affine or polynomial in `sym` on the interval; None if it changes."""
    e = sp.expand(expr)
    if not e.free_symbols:
        return int(sp.sign(e))
    P = sp.Poly(e, sym)
    n = P.count_roots(lo, hi)
    atlo = P.eval(lo) == 0
    if n - (1 if (atlo and lo_open) else 0) > 0:
        return None
    mid = (sp.Rational(lo) + sp.Rational(hi)) / 2
    return int(sp.sign(P.eval(mid)))


def _resolve_minmax(expr, sym, lo, hi):
    expr = sp.sympify(expr)

    def rec(e):
        if e.is_Atom:
            return e
        args = [rec(a) for a in e.args]
        if isinstance(e, (sp.Min, sp.Max)):
            best = args[0]
            for a in args[1:]:
                sg = _sign_on(a - best, sym, lo, hi)
                if sg is None:
                    raise AnalysisError(f"Min/Max ordering of {a} and {best} changes on the mu-domain")
                if (isinstance(e, sp.Max) and sg > 0) or (isinstance(e, sp.Min) and sg < 0):
                    best = a
            return best
        return e.func(*args)

    return rec(expr)


def _on_axis(expr, x, s1, s2):
    """Rewrite |x+mu|, |x-1+mu| and half-integer powers of their squares with the given constant signs."""
    expr = sp.sympify(expr)
    d1, d2 = x + MU, x - 1 + MU

    def side(e):
        for d, sg in ((d1, s1), (d2, s2)):
            q = sp.cancel(e / d)
            if q.is_number and q != 0:
                return sg * int(sp.sign(q)) * e
        return None

    def rec(e):
        if e.is_Atom:
            return e
        args = [rec(a) for a in e.args]
        if isinstance(e, sp.Abs):
            r = side(sp.expand(args[0]))
            if r is None:
                raise AnalysisError(f"unexpected absolute value {e} on the axis")
            return r
        if isinstance(e, sp.Pow) and args[1].is_Rational and not args[1].is_Integer and args[1].q == 2:
            b = sp.expand(args[0])
            for d, sg in ((d1, s1), (d2, s2)):
                if sp.expand(b - d ** 2) == 0:
                    return (sg * d) ** args[1].p
            raise AnalysisError(f"unexpected radical {e} on the axis")
        return e.func(*args)

    return rec(expr)


def run(tier):
    chk = Check("C04", tier, "proof",
                "Service methods are partially evaluated with mu and gamma symbolic; equilibrium, quintic, Legendre-coefficient, "
                "characteristic-polynomial and normal-form obligations are exact identities in Q(mu,gamma); bracket validity is a "
                "sign condition on a univariate rational function of mu decided on the whole interval (0,1/2] by exact real-root "
                "counting (Sturm), and on every catalogue pair by exact rational evaluation.",
                trusted_base=["python ast", "hv.kpe", "sympy Poly.count_roots / groebner / reduced", "Brent's method finds a root in a valid bracket",
                              "Legendre generating function"])
    R = Radicals()
    field = common.crtbp_field()
    x = sp.Symbol("xq", real=True)
    ax_axis = field[3].subs({common.STATE[0]: x, common.STATE[1]: 0, common.STATE[2]: 0, common.STATE[3]: 0, common.STATE[4]: 0, common.STATE[5]: 0})
    # ------------------------------------------------------------------ a
    svc = _svc("_L1DynamicsService")
    ip = Interp()
    dO = S(ip.apply(ip.getattr(svc, "_dOmega_dx"), [x], {}))
    chk.count("functions partially evaluated")
    z, res = is_zero(dO - ax_axis, R)
    chk.check(z, "C04.a", f"{LIB}::_CollinearDynamicsService._dOmega_dx", f"root function is not the x-acceleration of the field on the axis: residual {short(res)}",
              sample="_dOmega_dx(x) == _crtbp_accel((x,0,0,0,0,0))[3]")
    _triangular_positions(chk, field, R)
    # ------------------------------------------------------------------ b, c
    def dO_at(xe, s1, s2):
        return sp.together(_on_axis(dO, x, s1, s2).subs(x, xe))

    for pt, cls in POINTS.items():
        xl, svc_g = _xL(pt)
        s1 = _sign_on((xl + MU).subs(GAM, sp.Rational(1, 3)), MU, 0, sp.Rational(1, 2)) if (xl + MU).has(MU) else int(sp.sign((xl + MU).subs(GAM, sp.Rational(1, 3))))
        s2 = int(sp.sign((xl - 1 + MU).subs(GAM, sp.Rational(1, 3)))) if not (xl - 1 + MU).has(MU) else None
        if s1 is None or s2 is None:
            raise AnalysisError(f"{pt}: cannot fix the side of the primaries for x_L = {xl}")
        expr = dO_at(xl, s1, s2)
        num, den = sp.fraction(sp.together(expr))
        svc0 = _svc(cls)
        coeffs, rng = Interp().getattr(svc0, "_gamma_poly_def")
        chk.count("functions partially evaluated")
        quint = sum(S(c) * GAM ** (len(coeffs) - 1 - i) for i, c in enumerate(coeffs))
        ratio = sp.cancel(sp.expand(num) / sp.expand(quint))
        ok = not ratio.has(GAM) and ratio != 0
        chk.check(ok, "C04.b", f"{LIB}::{cls}._gamma_poly_def[quintic]",
                  f"{pt}: the gamma polynomial is not proportional to the numerator of dOmega/dx at x_L(gamma) = {xl}; ratio = {short(ratio)}",
                  sample=f"{pt}: numerator(dOmega/dx(x_L(gamma))) = ({ratio}) * quintic(gamma), x_L = {xl}")
        # search range brackets a root for every mu in (0, 1/2]
        lo, hi = S(rng[0]), S(rng[1])
        qlo, qhi = sp.expand(quint.subs(GAM, lo)), sp.expand(quint.subs(GAM, hi))
        slo = _sign_on(qlo, MU, 0, sp.Rational(1, 2))
        shi = _sign_on(qhi, MU, 0, sp.Rational(1, 2))
        chk.check(slo is not None and shi is not None and slo * shi < 0, "C04.b", f"{LIB}::{cls}._gamma_poly_def[range]",
                  f"{pt}: quintic has signs {slo},{shi} at the ends of the search range {rng}: a root is not bracketed for every mu in (0,1/2]",
                  sample=f"{pt}: quintic({lo}) sign {slo}, quintic({hi}) sign {shi} for all mu in (0,1/2]")
        _bracket(chk, pt, cls, dO_at, tier)
        _cn(chk, pt, cls, xl, s1, s2, tier)
        _linear(chk, pt, cls, xl, s1, s2)
    _normal_form(chk)
    return chk


# --------------------------------------------------------------------------------------------- triangular
def _triangular_positions(chk, field, R):
    for cls in ("_L4DynamicsService", "_L5DynamicsService"):
        svc = _svc(cls)
        ip = Interp()
        try:
            pos = to_obj_array(ip.apply(ip.getattr(svc, "_compute_position"), [], {}))
        except OutsideFragment as exc:
            raise AnalysisError(f"{cls}._compute_position outside fragment: {exc}")
        chk.count("functions partially evaluated")
        sub = dict(zip(common.STATE, list(pos) + [0, 0, 0]))
        bad = []
        for k in range(6):
            zr, res = is_zero(sp.sympify(field[k]).subs(sub, simultaneous=True), Radicals())
            if not zr:
                bad.append((k, short(sp.simplify(res), 80)))
        sgn = ip.getattr(svc, "sign")
        chk.check(not bad and S(pos[1]) * sgn > 0 and S(pos[2]) == 0, "C04.a", f"{LIB}::{cls}._compute_position",
                  f"triangular position {list(pos)} is not an equilibrium of the field (or on the wrong side): {bad}",
                  sample=f"{cls}: position {list(pos)} annihilates the field; y has sign {sgn}")


# --------------------------------------------------------------------------------------------- c
def _catalogue():
    ip = Interp()
    C = ip.module_value(CONST, "Constants")
    bodies = ip.getattr(C, "bodies")
    dist = ip.getattr(C, "orbital_distances")
    out = []
    for p, d in dist.items():
        for s in d:
            m1, m2 = S(bodies[p]["mass"]), S(bodies[s]["mass"])
            out.append((p, s, m2 / (m1 + m2)))
    return out


def _minmax_choices(expr):
    """All expressions obtained by replacing each Min/Max by one of its arguments, plus the switching differences."""
    expr = sp.sympify(expr)
    mm = list(expr.atoms(sp.Min, sp.Max))
    if not mm:
        return [expr], []
    outs, switches = [], []
    first = next(m for m in mm if not any(a.has(sp.Min, sp.Max) for a in m.args))
    args = list(first.args)
    for k, a in enumerate(args):
        for b in args[k + 1:]:
            switches.append(a - b)
        sub_outs, sub_sw = _minmax_choices(expr.xreplace({first: a}))
        outs.extend(sub_outs)
        switches.extend(sub_sw)
    return outs, switches


def _bracket(chk, pt, cls, dO_at, tier):
    svc = _svc(cls)
    calls = []

    def brent(ip_, args, kwargs):
        calls.append((args[1], args[2]))
        return None if len(calls) == 1 else sp.Symbol("ROOT")

    ip = Interp(overrides={"solve_bracketed_brent": brent})
    interval = ip.getattr(svc, "_position_search_interval")
    ip.apply(ip.getattr(svc, "_compute_position"), [interval], {})
    chk.count("functions partially evaluated")
    if len(calls) != 2:
        raise AnalysisError(f"{cls}._compute_position: expected primary + fallback Brent calls, saw {len(calls)}")
    t = sp.Symbol("tq", positive=True)
    uses_root = any(p.exp.is_Rational and not p.exp.is_Integer for c in calls for e in c for p in S(e).atoms(sp.Pow))
    if uses_root:
        var, lo, hi, muv = t, sp.Integer(0), sp.Rational(5504, 10000), 3 * t ** 3   # mu = 3 t^3, t <= (1/6)^(1/3) = 0.55032..
    else:
        var, lo, hi, muv = MU, sp.Integer(0), sp.Rational(1, 2), MU
    ivs = []
    for which, (A, B) in zip(("primary", "fallback"), calls):
        A, B = S(A), S(B)
        if uses_root:
            A = sp.simplify(sp.powdenest(A.subs(MU, muv), force=True))
            B = sp.simplify(sp.powdenest(B.subs(MU, muv), force=True))
            for e in (A, B):
                if any(p.exp.is_Rational and not p.exp.is_Integer for p in e.atoms(sp.Pow)):
                    raise AnalysisError(f"{cls} {which} interval end {e}: radical in mu not of the form (mu/3)^(1/3)")
        ivs.append((which, A, B))
    # critical values of var
    polys = []
    for which, A, B in ivs:
        for E in (A, B):
            cands, sw = _minmax_choices(E)
            for d in sw:
                polys.append(sp.expand(d))
            for c in cands:
                polys.append(sp.expand(c + muv))
                polys.append(sp.expand(c - 1 + muv))
                for sg1 in (1, -1):
                    for sg2 in (1, -1):
                        f = dO_at(c, sg1, sg2)
                        f = sp.together(f.subs(MU, muv)) if uses_root else f
                        num, den = sp.fraction(sp.together(f))
                        polys.append(sp.expand(num))
                        polys.append(sp.expand(den))
        cA, swA = _minmax_choices(A)
        cB, swB = _minmax_choices(B)
        for a in cA:
            for b in cB:
                polys.append(sp.expand(b - a))
    roots = set()
    for e in polys:
        if not e.free_symbols:
            continue
        P = sp.Poly(e, var)
        for rt in P.real_roots():
            rv = sp.N(rt, 60)
            if rv > lo and rv < sp.N(hi, 60):
                roots.add(sp.Rational(str(rv)))
    roots = sorted(roots)
    cuts = [sp.Rational(lo)] + roots + [sp.Rational(hi)]
    gaps = []

    def f_at(E0, mu0):
        d1, d2 = E0 + mu0, E0 - 1 + mu0
        if d1 == 0 or d2 == 0:
            return None
        val = dO_at(sp.Symbol("xq", real=True), int(sp.sign(d1)), int(sp.sign(d2))).subs({sp.Symbol("xq", real=True): E0, MU: mu0})
        return sp.sign(sp.nsimplify(val) if not val.is_Rational else val)

    for i in range(len(cuts) - 1):
        a, b = cuts[i], cuts[i + 1]
        if b - a < sp.Rational(1, 10 ** 45):
            continue
        mid = (a + b) / 2
        mu0 = muv.subs(var, mid) if uses_root else mid
        ok_any = False
        for which, A, B in ivs:
            A0, B0 = A.subs(var, mid), B.subs(var, mid)
            if not (A0.is_number and B0.is_number) or not A0 < B0:
                continue
            fa, fb = f_at(sp.Rational(A0), mu0), f_at(sp.Rational(B0), mu0)
            if fa is not None and fb is not None and fa * fb < 0:
                ok_any = True
        if not ok_any:
            gaps.append((a, b))
    # merge adjacent gaps
    merged = []
    for a, b in gaps:
        if merged and abs(merged[-1][1] - a) < sp.Rational(1, 10 ** 40):
            merged[-1] = (merged[-1][0], b)
        else:
            merged.append((a, b))
    cat = _catalogue()
    construct = f"{LIB}::{cls}._position_search_interval"

    def to_mu(v):
        return muv.subs(var, v) if uses_root else v

    if merged:
        ga, gb = to_mu(merged[0][0]), to_mu(merged[-1][1])
        inside = [f"{p}-{s}" for p, s, m in cat if any(to_mu(a) < m <= to_mu(b) for a, b in merged)]
        chk.fail("C04.c", construct,
                 f"{pt}: for mu in ({float(ga):.3e}, {float(gb):.3e}] neither the primary interval [{ivs[0][1]}, {ivs[0][2]}] nor the fallback "
                 f"[{ivs[1][1]}, {ivs[1][2]}] brackets the equilibrium (no sign change of dOmega/dx): the point cannot be returned. "
                 f"Catalogue pairs inside: {inside or 'none'}", gap=f"({float(ga):.6e}, {float(gb):.6e}]", catalogue=str(inside))
    else:
        chk.ok("C04.c", construct, sample=f"{pt}: primary [{ivs[0][1]}, {ivs[0][2]}] / fallback [{ivs[1][1]}, {ivs[1][2]}] bracket a sign change of "
                                          f"dOmega/dx for every mu in (0, 1/2] ({len(roots)} critical values, {len(cuts) - 1} cells examined)")
    # every catalogue pair individually (exact rational evaluation)
    bad = []
    for p, s_, m in cat:
        v0 = sp.real_root(m / 3, 3) if uses_root else m
        ok_any = False
        for which, A, B in ivs:
            A0, B0 = sp.N(A.subs(var, v0), 50), sp.N(B.subs(var, v0), 50)
            if not A0 < B0:
                continue
            fa, fb = f_at(sp.Rational(str(A0)), m), f_at(sp.Rational(str(B0)), m)
            if fa is not None and fb is not None and fa * fb < 0:
                ok_any = True
        if not ok_any:
            bad.append(f"{p}-{s_}")
    if bad and not merged:
        chk.fail("C04.c", construct + "[catalogue]", f"{pt}: no valid bracket for catalogue pairs {bad}")
    elif not bad:
        chk.ok("C04.c", construct + "[catalogue]", sample=f"{pt}: all {len(cat)} catalogue pairs have a valid bracket")
    chk.count("catalogue pairs", len(cat))
    chk.count("critical mu values (exact root isolation)", len(roots))


# --------------------------------------------------------------------------------------------- d
def _cn(chk, pt, cls, xl, s1, s2, tier):
    """c_n = -[x^n] ( U(x_L + local x)/gamma^2 ), n>=3; n=2 with the centrifugal part removed."""
    nmax = 8 if tier == "quick" else 12
    xloc = sp.Symbol("xi", real=True)
    svc_g = _svc(cls, gamma=GAM)
    ip = Interp()
    point = SymObj(None, {"mu": MU, "dynamics": svc_g}, "point")
    syn = to_obj_array(ip.call_function(TR, "_local2synodic_collinear", [point, to_obj_array([xloc, 0, 0, 0, 0, 0])]))
    X = sp.expand(S(syn[0]))
    # exact potential on the axis (from the first integral of C01.d: E = v^2/2 + U)
    E = common.exact_energy()
    U = E.subs({common.STATE[3]: 0, common.STATE[4]: 0, common.STATE[5]: 0, common.STATE[1]: 0, common.STATE[2]: 0})
    xs = common.STATE[0]
    Uax = _on_axis(U.subs(xs, sp.Symbol("xq", real=True)), sp.Symbol("xq", real=True), s1, s2).subs(sp.Symbol("xq", real=True), X)
    Uax = Uax / GAM ** 2
    bad = []
    g = Uax
    fact = 1
    for n in range(0, nmax + 1):
        if n >= 2:
            coeff = g.subs(xloc, 0) / fact
            got = S(Interp().apply(Interp().getattr(svc_g, "_compute_cn"), [n], {}))
            want = -coeff - (sp.Rational(1, 2) if n == 2 else 0)
            if residual(got - want) != 0:
                bad.append((n, short(sp.factor(sp.together(got - want)), 100)))
        g = sp.diff(g, xloc)
        fact *= (n + 1)
    chk.count("functions partially evaluated", nmax - 1)
    chk.check(not bad, "C04.d", f"{LIB}::{cls}._compute_cn",
              f"{pt}: c_n differs from the Taylor coefficient of the exact potential along the local x-axis for n = {[b[0] for b in bad]}: {bad[:2]}",
              sample=f"{pt}: c_n == -[x^n] U(x_L + map(x))/gamma^2 for n = 2..{nmax} as rational functions of (mu, gamma)")


# --------------------------------------------------------------------------------------------- e
def _linear(chk, pt, cls, xl, s1, s2):
    """Jacobian at (x_L,0,0): Omega_xx = 1+2c2, Omega_yy = 1-c2, Omega_zz = -c2; char poly of _J_hess_H2 equal."""
    x, y, z = common.STATE[:3]
    F = to_obj_array(Interp().call_function(RTBP, "_jacobian_crtbp", [x, 0, 0, MU]))
    Rr = Radicals()
    svc_g = _svc(cls, gamma=GAM)
    c2 = S(Interp().apply(Interp().getattr(svc_g, "_compute_cn"), [2], {}))
    want = {(3, 0): 1 + 2 * c2, (4, 1): 1 - c2, (5, 2): -c2}
    bad = []
    for (i, j), w in want.items():
        xq = sp.Symbol("xq", real=True)
        e = _on_axis(S(F[i, j]).subs(x, xq), xq, s1, s2).subs(xq, x)
        e = sp.together(e.subs(x, xl))
        if sp.cancel(sp.together(e - w)) != 0:
            bad.append(((i, j), short(sp.cancel(sp.together(e - w)), 100)))
    chk.check(not bad, "C04.e", f"{LIB}::{cls}[Omega_xx,yy,zz vs c2]",
              f"{pt}: second derivatives of the effective potential at the point are not (1+2c2, 1-c2, -c2) with c2 = cn(2): {bad}",
              sample=f"{pt}: F[3,0]=1+2c2, F[4,1]=1-c2, F[5,2]=-c2 at (x_L,0,0)")
    c2s = sp.Symbol("c2", positive=True)
    svc = _svc(cls, cn=lambda n: c2s)
    Jh = sp.Matrix(to_obj_array(Interp().apply(Interp().getattr(svc, "_J_hess_H2"), [], {})).tolist())
    lam = sp.Symbol("lam")
    cp = sp.expand((Jh - lam * sp.eye(6)).det())
    Fm = sp.zeros(6)
    for i in range(3):
        Fm[i, 3 + i] = 1
    Fm[3, 0], Fm[4, 1], Fm[5, 2] = 1 + 2 * c2s, 1 - c2s, -c2s
    Fm[3, 4], Fm[4, 3] = 2, -2
    cpF = sp.expand((Fm - lam * sp.eye(6)).det())
    chk.check(sp.expand(cp - cpF) == 0, "C04.e", f"{LIB}::{cls}._J_hess_H2",
              f"{pt}: characteristic polynomial of J*Hess(H2) differs from that of the linearised equations at the point: {sp.factor(cp - cpF)}",
              sample=f"{pt}: charpoly = {sp.factor(cp)}")
    chk.count("functions partially evaluated", 3)


# --------------------------------------------------------------------------------------------- f
def _normal_form(chk):
    L, W1, r = sp.symbols("L W1 r", positive=True)
    c2 = sp.Symbol("c2", positive=True)
    s1, s2 = sp.symbols("s1 s2", positive=True)
    svc = _svc("_L1DynamicsService", linear_modes=(L, W1, r ** 2), cn=lambda n: c2, scale_factor=lambda a, b: (s1, s2))
    svc.attrs["scale_factor"] = lambda a, b: (s1, s2)
    captured = {}

    def inv(ip_, args, kwargs):
        captured["C"] = args[0]
        return sp.Symbol("CINV")

    ip = Interp(decide=lambda cond: False, np_overrides={"linalg.inv": inv})
    C, Cinv = ip.apply(ip.getattr(svc, "_build_normal_form"), [], {})
    chk.count("functions partially evaluated")
    Cm = sp.Matrix(to_obj_array(C).tolist())
    chk.check(Cinv == sp.Symbol("CINV") and captured.get("C") is C, "C04.f", f"{LIB}::_CollinearDynamicsService._build_normal_form[Cinv]",
              "second component is not the inverse of the returned matrix C", sample="(C, inv(C))")
    # scale factors: squares from the code
    svc2 = _svc("_L1DynamicsService", cn=lambda n: c2)
    e1, e2 = Interp().apply(Interp().getattr(svc2, "_compute_scale_factor"), [L, W1], {})
    s1sq, s2sq = sp.expand(S(e1) ** 2), sp.expand(S(e2) ** 2)
    gens = (s1, s2, r, L, W1, c2)
    rels = [L ** 2 - W1 ** 2 - (c2 - 2), L ** 2 * W1 ** 2 + (1 + 2 * c2) * (1 - c2), r ** 4 - c2, s1 ** 2 - s1sq, s2 ** 2 - s2sq]
    G = sp.groebner(rels, *gens, order="lex")
    J = sp.Matrix(sp.BlockMatrix([[sp.zeros(3), sp.eye(3)], [-sp.eye(3), sp.zeros(3)]]))
    S1 = Cm.T * J * Cm - J
    bad = []

    def reduces(e):
        num, den = sp.fraction(sp.together(e))
        return G.reduce(sp.expand(num))[1] == 0

    for i in range(6):
        for j in range(6):
            if not reduces(S1[i, j]):
                bad.append((i, j))
    chk.check(not bad, "C04.f", f"{LIB}::_CollinearDynamicsService._build_normal_form[symplectic]",
              f"C^T J C != J at entries {bad[:6]} modulo lambda1^2-omega1^2=c2-2, lambda1^2 omega1^2=-(1+2c2)(1-c2), omega2^2=c2 and the scale-factor definitions",
              sample="36 entries of C^T J C - J reduce to 0 modulo the five defining relations (lex Groebner basis)")
    zq = sp.symbols("q1 q2 q3 p1 p2 p3")
    loc = Cm * sp.Matrix(zq)
    xx, yy, zz, px, py, pz = loc
    H2 = sp.Rational(1, 2) * (px ** 2 + py ** 2 + pz ** 2) + yy * px - xx * py - c2 * xx ** 2 + c2 / 2 * yy ** 2 + c2 / 2 * zz ** 2
    target = L * zq[0] * zq[3] + W1 / 2 * (zq[1] ** 2 + zq[4] ** 2) + r ** 2 / 2 * (zq[2] ** 2 + zq[5] ** 2)
    diff = sp.expand(H2 - target)
    P = sp.Poly(diff, *zq)
    bad = [m for m, cf in P.terms() if not reduces(cf)]
    chk.check(not bad, "C04.f", f"{LIB}::_CollinearDynamicsService._build_normal_form[H2 diagonal]",
              f"H2 o C is not lambda1 q1 p1 + omega1/2 (q2^2+p2^2) + omega2/2 (q3^2+p3^2); offending monomials {bad[:6]}",
              sample="21 quadratic coefficients of H2(C z) - normal form reduce to 0")
    chk.count("groebner reductions", 36 + len(P.terms()))
    # scale factor formula is what makes the above hold: already used as relations s1^2, s2^2 from _compute_scale_factor
    chk.ok("C04.f", f"{LIB}::_CollinearDynamicsService._compute_scale_factor", sample=f"s1^2 = {sp.factor(s1sq)}, s2^2 = {sp.factor(s2sq)}")
