"""C14 — centre-manifold Poincare maps stay on section and energy level under any parallelism.

a  schedule independence: prange race rule for _poincare_map; the engine is interpreted with a simulated thread pool
   (adversarial completion order) for 1, 2 and 3 workers and must return the same multiset of rows
b  every returned state has its section coordinate zeroed
c  points, labels and states describe the same plane
d  crossing test (sign abstraction) and Hermite refinement pairing; slot tables
e  seeds are lifted with lift_plane_point on the problem's energy and section

b (added)  iterates fed back as seeds lie exactly on the section
c (added)  the map service generates the requested section whatever the generator was configured for before (model generator)
d (added)  the direction quantity does not vanish on the section at quadratic order
c-config (round 4)  config -> problem -> request chain and the seeding closures; compute() returns the payload of its own key
b (round 5)  residuals of 1e-9 in the section coordinate are set to exactly 0;  c-config: a configuration with integration.forward = -1 is rejected
"""
from __future__ import annotations

import ast
import itertools

import numpy as np
import sympy as sp

from ..core import Check, AnalysisError
from .. import repoindex as ri
from ..kpe import Interp, SymObj, ClassRef, FuncRef, to_obj_array, S, OutsideFragment, KpeRaise, KModel
from ..regions import RegionDecider
from . import c06

CB = "hiten.algorithms.poincare.centermanifold.backend"
CE = "hiten.algorithms.poincare.centermanifold.engine"
CI = "hiten.algorithms.poincare.centermanifold.interfaces"
R = sp.Rational


def run(tier):
    chk = Check("C14", tier, "other",
                "The prange body of _poincare_map is checked by the effect (race) rule; the engine's solve() is interpreted with a "
                "simulated executor whose futures complete in an adversarial order, for 1, 2 and 3 workers, with the backend "
                "abstracted as a deterministic row-wise map, and the returned rows compared as multisets; section enforcement, "
                "plane projection and labels are extracted on symbolic states; the crossing test is evaluated over the sign "
                "abstraction and the refinement pairing is read from the interpreted step.",
                trusted_base=["python ast", "hv.kpe", "numba prange semantics (documentation)", "backend abstracted as a row-wise function of the seeds (justified by the race rule)"])
    _a_races(chk)
    _a_engine(chk)
    backend_slots(chk, "C14.d")
    _d_crossing(chk)
    _d_refinement(chk)
    _bc_interface(chk)
    _b_gather(chk)
    _c_service_section(chk)
    _c_config_chain(chk)
    _c_direction_flag(chk)
    # a cached map is the one for the requested section and options
    from . import c20
    from .common import Relabel
    c20._b_key_params(Relabel(chk, {"C20.b": "C14.c-cache"}), [x for x in c20._sites() if x.mod.name.endswith("services.maps") and x.cls.name.startswith("_CenterManifold")])
    # the public facade binds every argument to the service parameter it is meant for (nominal swap rule, rules/common.py)
    from . import common as _common
    _common.facade_bindings(chk, "C14.c-facade", ['hiten.system.maps.center', 'hiten.system.center'], floor=15)
    return chk


# ------------------------------------------------------------------------------------------------ a
def _a_races(chk):
    mod, fn = ri.find_def(CB, "_poincare_map")
    chk.check(c06._is_parallel(fn), "C14.a", f"{CB}::_poincare_map[parallel]", "anchor changed: _poincare_map is no longer njit(parallel=True)", nontrivial=False,
              sample="njit(parallel=True)")
    loops = [n for n in ast.walk(fn) if isinstance(n, ast.For) and isinstance(n.iter, ast.Call) and ast.unparse(n.iter.func).split(".")[-1] == "prange"]
    if not loops:
        raise AnalysisError("anchor: prange loop in _poincare_map not found")
    loop = loops[0]
    ivar = loop.target.id
    problems = []
    for n in [x for st in loop.body for x in ast.walk(st)]:
        tgts = n.targets if isinstance(n, ast.Assign) else ([n.target] if isinstance(n, ast.AugAssign) else [])
        for t in tgts:
            for tt in (t.elts if isinstance(t, ast.Tuple) else [t]):
                if isinstance(tt, ast.Subscript):
                    names = {x.id for x in ast.walk(tt.slice) if isinstance(x, ast.Name)}
                    if ivar not in names:
                        problems.append(f"write {ast.unparse(tt)} is not indexed by the prange variable")
        if isinstance(n, ast.Subscript) and isinstance(n.ctx, ast.Load) and isinstance(n.value, ast.Name) and n.value.id == "seeds":
            names = {x.id for x in ast.walk(n.slice) if isinstance(x, ast.Name)}
            if ivar not in names:
                problems.append(f"read {ast.unparse(n)} looks at another seed")
        if isinstance(n, ast.Call) and isinstance(n.func, ast.Name):
            r = ri.resolve(mod, n.func.id)
            if r and r[0] == "def" and isinstance(r[2], ast.FunctionDef):
                callee = r[2]
                if c06._is_parallel(callee):
                    problems.append(f"nested parallel kernel {callee.name}")
                wp = c06._written_params(callee)
                cparams = [a.arg for a in callee.args.args]
                for pos, a in enumerate(n.args):
                    if pos < len(cparams) and cparams[pos] in wp:
                        problems.append(f"{callee.name} writes its parameter {cparams[pos]}")
    chk.check(not problems, "C14.a", f"{CB}::_poincare_map[race]", f"the successor of a seed may depend on the schedule: {problems[:3]}",
              sample="every write in the prange body is out[i]; reads seeds[i,:]; callees write no argument")
    # callees down the chain write none of their array arguments except freshly allocated ones
    for name in ("_poincare_step", "_detect_crossing", "_integrate_map", "_get_rk_coefficients"):
        m, f = ri.find_def(CB, name)
        wp = c06._written_params(f)
        chk.check(not wp, "C14.a", f"{CB}::{name}[pure in arguments]", f"{name} writes its parameter(s) {sorted(wp)}", sample=f"{name}: no parameter written", nontrivial=False)


class _Future(KModel):
    def __init__(self, val):
        self._val = val

    def result(self):
        return self._val


def _a_engine(chk):
    mod, cls = ri.find_def(CE, "_CenterManifoldEngine")
    seeds = [tuple(sp.Symbol(f"s{i}_{k}") for k in range(4)) for i in range(5)]
    results = {}
    lifts_seen = []
    off_section = []
    for nw in (1, 2, 3):
        calls = {"run": 0}

        def backend_run(request):
            calls["run"] += 1
            sd = to_obj_array(request.attrs["seeds"])
            rows = []
            times = []
            for r in range(sd.shape[0]):
                if str(sd[r, 0]).startswith("F(") and sd[r, 2] != 0:
                    off_section.append(tuple(str(x) for x in sd[r]))
                # deterministic row-wise successor; one seed dies after the first iteration
                tag = str(sd[r, 0])
                if tag.startswith("F(F(s3"):
                    continue
                rows.append([sp.Function("F")(sd[r, k]) if k != 2 else sp.Function("G")(sd[r, k]) for k in range(4)])
                times.append(sp.Function("T")(sd[r, 0]))
            if not rows:
                return SymObj(None, {"states": np.empty((0, 4), dtype=object), "times": np.empty((0,), dtype=object)}, "resp")
            return SymObj(None, {"states": to_obj_array(rows), "times": to_obj_array(times)}, "resp")

        class Pool(KModel):
            def __init__(self):
                self.futs = []

            def submit(self, fn, *a):
                f = _Future(fn(*a))
                self.futs.append(f)
                return f

        pool = Pool()
        icls = ri.find_def(CI, "_CenterManifoldInterface")
        iface = SymObj(ClassRef(*icls), {"lift_plane_point": lambda p, **kw: (lifts_seen.append(kw), p)[1], "to_backend_inputs": lambda pr_: SymObj(None, {"request": SymObj(ClassRef(*ri.find_def(
            "hiten.algorithms.poincare.centermanifold.types", "CenterManifoldBackendRequest")), {"dt": 1, "jac_H": 2, "clmo_table": 3, "section_coord": "q3", "forward": 1, "max_steps": 5,
                                                                                                       "method": "fixed", "order": 4, "c_omega_heuristic": 20}, "req")}, "call"),
                                         "to_results": lambda resp, problem=None: resp}, "iface")
        eng = SymObj(ClassRef(mod, cls), {"_strategy": SymObj(None, {"n_seeds": 5, "generate": lambda **kw: list(seeds)}, "strategy"),
                                          "_interface": iface, "_backend": SymObj(None, {"run": backend_run}, "backend")}, "engine")
        problem = SymObj(None, {"n_iter": 3, "n_workers": nw, "energy": sp.Symbol("h0"), "H_blocks": 0, "clmo_table": 0, "section_coord": "q3",
                                "solve_missing_coord_fn": None, "find_turning_fn": None}, "problem")
        ov = {"ThreadPoolExecutor": lambda ip_, a, k: pool, "as_completed": lambda ip_, a, k: list(reversed(a[0])),
              "CenterManifoldBackendRequest": lambda ip_, a, k: SymObj(ClassRef(*ri.find_def("hiten.algorithms.poincare.centermanifold.types", "CenterManifoldBackendRequest")), dict(k), "req"),
              "CenterManifoldBackendResponse": lambda ip_, a, k: SymObj(None, dict(k), "resp")}
        # generic (symbolic) backend states are not "close to zero": a tolerance predicate on them is decided False, which is the path real data
        # take (the concrete residual case is decided on enforce_section_coordinate itself, below)
        ip = Interp(overrides=ov, max_depth=30, decide=lambda c: (False if ("allclose" in str(c) or "isclose" in str(c)) else None))
        try:
            resp = ip.apply(ip.getattr(eng, "solve"), [problem], {})
        except OutsideFragment as exc:
            raise AnalysisError(f"_CenterManifoldEngine.solve outside fragment: {exc}")
        st = to_obj_array(resp.attrs["states"])
        tm = to_obj_array(resp.attrs["times"])
        rows = sorted((tuple(str(x) for x in st[r]), str(tm[r])) for r in range(st.shape[0]))
        results[nw] = rows
        chk.count("functions partially evaluated")
    same = results[1] == results[2] == results[3] and len(results[1]) > 0
    chk.check(same, "C14.a", f"{CE}::_CenterManifoldEngine.solve[workers 1,2,3]",
              f"the multiset of returned (state, time) rows depends on the number of workers / completion order: {len(results[1])}, {len(results[2])}, {len(results[3])} rows; "
              f"first difference {next((a for a, b in zip(results[1], results[2]) if a != b), None)}",
              sample=f"{len(results[1])} rows identical as multisets for 1, 2 and 3 workers with futures completing in reverse order")
    # section coordinate of every returned row is zero (q3 -> column 2)
    nz = [r for r in results[1] if r[0][2] != "0"]
    chk.check(not nz, "C14.b", f"{CE}::_CenterManifoldEngine.solve[on section]", f"returned states have a non-zero section coordinate: {nz[:2]}", sample="column of the section coordinate is 0 in every row")
    # an iterate that is fed back as the next seed lies exactly on the section (the strict sign test of the crossing detector
    # otherwise sees the refinement residual as an immediate "return")
    chk.check(not off_section, "C14.b", f"{CE}::_CenterManifoldEngine.solve[fed back on section]",
              f"iterates are fed back to the backend with a non-zero section coordinate: {off_section[:1]}", sample="seeds of iteration k+1 = enforce_section_coordinate(states of iteration k)")
    # _worker and backend.run write no attribute of self / shared objects
    wfn = next(f for f in ast.walk(cls) if isinstance(f, ast.FunctionDef) and f.name == "_worker")
    stores = [ast.unparse(n) for n in ast.walk(wfn) if isinstance(n, ast.Attribute) and isinstance(n.ctx, ast.Store)]
    nonlocal_ = [n for n in ast.walk(wfn) if isinstance(n, (ast.Nonlocal, ast.Global))]
    chk.check(not stores and not nonlocal_, "C14.a", f"{CE}::_CenterManifoldEngine.solve._worker[effects]", f"worker writes shared state: {stores}", sample="_worker writes only its locals")
    bmod, bcls = ri.find_def(CB, "_CenterManifoldBackend")
    runf = next(f for f in bcls.body if isinstance(f, ast.FunctionDef) and f.name == "run")
    stores = [ast.unparse(n) for n in ast.walk(runf) if isinstance(n, ast.Attribute) and isinstance(n.ctx, ast.Store)]
    chk.check(not stores, "C14.a", f"{CB}::_CenterManifoldBackend.run[effects]", f"backend.run writes attributes {stores} while it is shared by all workers", sample="run() writes no attribute")
    # seeds are lifted with the problem's energy and section (C14.e): arguments the interpreted engine handed to the interface
    ok = bool(lifts_seen) and all(kw.get("h0") == sp.Symbol("h0") and kw.get("section_coord") == "q3" for kw in lifts_seen)
    chk.check(ok, "C14.e", f"{CE}::_CenterManifoldEngine.solve[seed lift]", f"seeds are not lifted with lift_plane_point on the problem's energy and section coordinate: {lifts_seen[:1]}",
              sample="lift_plane_point(p, section_coord=problem.section_coord, h0=problem.energy, ...) for every seed")


def _b_gather(chk):
    """_CenterManifoldBackend.run hands back exactly the seeds whose crossing was found (flag set), each state row paired with
    its own time, in seed order; a seed without a crossing contributes no row (not a row of zeros that is fed back)."""
    bmod, bcls = ri.find_def(CB, "_CenterManifoldBackend")
    n = 4
    flags = to_obj_array([sp.Integer(1), sp.Integer(0), sp.Integer(1), sp.Integer(1)])
    cols = {nm: to_obj_array([sp.Symbol(f"{nm}{i}") for i in range(n)]) for nm in ("q2p", "p2p", "q3p", "p3p", "t")}
    seen = {}

    def pmap(ip_, a, k):
        seen["args"] = a
        return (flags, cols["q2p"], cols["p2p"], cols["q3p"], cols["p3p"], cols["t"])

    req = SymObj(None, {"seeds": to_obj_array([[sp.Symbol(f"s{i}_{k}") for k in range(4)] for i in range(n)]), "dt": sp.Symbol("DT"), "jac_H": sp.Symbol("JAC"),
                        "clmo_table": sp.Symbol("CLMO"), "order": 4, "max_steps": 7, "method": "fixed", "section_coord": "q3", "c_omega_heuristic": 20}, "request")
    ip = Interp(overrides={"_poincare_map": pmap, "CenterManifoldBackendResponse": lambda ip_, a, k: SymObj(None, dict(k), "resp")},
                np_overrides={"ascontiguousarray": lambda ip_, a, k: a[0]})
    be = SymObj(ClassRef(bmod, bcls), {}, "backend")
    try:
        resp = ip.apply(ip.getattr(be, "run"), [req], {})
    except OutsideFragment as exc:
        raise AnalysisError(f"_CenterManifoldBackend.run outside fragment: {exc}")
    st = to_obj_array(resp.attrs["states"])
    tm = to_obj_array(resp.attrs["times"])
    keep = [i for i in range(n) if flags[i] != 0]
    want = [[cols[c][i] for c in ("q2p", "p2p", "q3p", "p3p")] for i in keep]
    got = [list(st[r]) for r in range(st.shape[0])] if st.ndim == 2 else []
    chk.check(got == want and list(tm) == [cols["t"][i] for i in keep], "C14.b", f"{CB}::_CenterManifoldBackend.run[gather]",
              f"the response does not contain exactly the flagged seeds' (state, time) pairs in seed order: states {got}, times {list(tm)} for flags {list(flags)}",
              sample="flags [1,0,1,1] -> rows 0,2,3 with their own times")
    chk.count("functions partially evaluated")


def _c_service_section(chk):
    """The map service computes the section that was asked for, whatever was computed before on the same object: the
    generator is a model object that remembers its configured section; the request is made when the generator is still
    configured for another section (and the service-level default names the requested one)."""
    MS = "hiten.algorithms.types.services.maps"
    mod, cls = ri.find_def(MS, "_CenterManifoldMapDynamicsService")
    for requested, gen_state, default in (("q3", "p2", "q3"), ("p3", "q3", "q3"), ("q3", "q3", "q3")):
        log = []

        class Gen(KModel):
            def __init__(self):
                self.section = gen_state

            def update_config(self, **kw):
                if "section_coord" in kw:
                    self.section = kw["section_coord"]

            def generate(self, dom, options):
                log.append(self.section)
                return SymObj(None, {"points": sp.Symbol("PTS_" + self.section), "states": sp.Symbol("STS_" + self.section), "times": sp.Symbol("TMS"),
                                     "labels": sp.Symbol("LBL")}, "result")

        gen = Gen()
        svc = SymObj(ClassRef(mod, cls), {"generator": gen, "map_config": SymObj(None, {"section_coord": default}, "map_config"),
                                          "domain_obj": SymObj(None, {"_last_map": SymObj(None, {"args": [sp.Symbol("PTS_stale"), sp.Symbol("STS_stale")]}, "last map of another call")}, "DOM"),
                                          "map_options": SymObj(None, {"to_dict": lambda: {}}, "options"), "make_key": lambda *a: ("key",) + tuple(str(x) for x in a),
                                          "get_or_create": lambda key, factory: ip.apply(factory, [], {}), "apply_center_manifold_map": lambda payload, **kw: None}, "svc")
        ip = Interp(overrides={"_from_mapping": lambda ip_, a, k: SymObj(None, dict(a[-1]), "payload"),
                               "CenterManifoldMapResults": lambda ip_, a, k: SymObj(None, {"args": a}, "results")})
        try:
            out = ip.apply(ip.getattr(svc, "compute"), [], {"section_coord": requested})
        except OutsideFragment as exc:
            raise AnalysisError(f"maps service compute outside fragment: {exc}")
        got = list(out.attrs.get("args", []))[:2] if isinstance(out, SymObj) else None
        chk.check(got == [sp.Symbol("PTS_" + requested), sp.Symbol("STS_" + requested)], "C14.c", f"{MS}::_CenterManifoldMapDynamicsService.compute[result of {requested} after {gen_state}]",
                  f"compute('{requested}') returns {got}: not the points / states of the payload obtained for this request (e.g. the object's last computed map, which on a "
                  f"cache hit belongs to another call)", sample=f"compute({requested}) returns the payload of its own key")
        chk.check(log == [requested], "C14.c", f"{MS}::_CenterManifoldMapDynamicsService.compute[request {requested} after {gen_state}]",
                  f"a map for section {requested} is generated while the generator is configured for {log} (previous section {gen_state}, service default {default})",
                  sample=f"request {requested} with the generator left at {gen_state}: generate() runs configured for {requested}")
    chk.count("functions partially evaluated", 3)


# ------------------------------------------------------------------------------------------------ slots (shared with C09.b)
def backend_slots(chk, rule):
    """_poincare_step packs (q2,p2,q3,p3) into (q1..p3) slots; _detect_crossing reads the section coordinate's slot."""
    n_dof = 3
    q2, p2, q3, p3 = sp.symbols("Q2 P2 Q3 P3", real=True)
    cap = {}

    def integ(ip_, a, k):
        cap["y0"] = to_obj_array(k.get("y0", a[0] if a else None)).copy()
        raise KpeRaise("stop after packing")

    ip = Interp(overrides={"_integrate_map": integ, "_get_rk_coefficients": lambda ip_, a, k: (1, 2, 3)})
    try:
        ip.call_function(CB, "_poincare_step", [q2, p2, q3, p3, R(1, 10), sp.Symbol("jac"), sp.Symbol("clmo"), 4, 2, False, n_dof, "q3"])
    except KpeRaise:
        pass
    y0 = cap.get("y0")
    ok = y0 is not None and list(y0) == [0, q2, q3, 0, p2, p3]
    chk.check(ok, rule, f"{CB}::_poincare_step[packing]", f"(q2,p2,q3,p3) is embedded as {list(y0) if y0 is not None else None}, expected (0,q2,q3,0,p2,p3)",
              sample="state = (0, q2, q3, 0, p2, p3)")
    so = to_obj_array([sp.Symbol(f"o{i}", real=True) for i in range(6)])
    sn = to_obj_array([sp.Symbol(f"n{i}", real=True) for i in range(6)])
    rn = to_obj_array([sp.Symbol(f"r{i}", real=True) for i in range(6)])
    slot = {"q3": 2, "p3": 5, "q2": 1, "p2": 4}
    for sec, idx in slot.items():
        asked = []

        def dec(c, _a=asked):
            _a.append(c)
            return True if len(_a) > 1 else False   # strict sign change; then good direction

        ipd = Interp(decide=dec)
        out = ipd.call_function(CB, "_detect_crossing", [sec, so, sn, rn, n_dof])
        first = asked[0] if asked else None
        ok = first is not None and first.free_symbols == {so[idx], sn[idx]}
        chk.check(ok, rule, f"{CB}::_detect_crossing[slot,{sec}]", f"section {sec}: the crossing test looks at {sorted(map(str, first.free_symbols)) if first is not None else None}, "
                  f"expected slot {idx} of the 6-vector", sample=f"{sec} -> state[{idx}]")


# ------------------------------------------------------------------------------------------------ d
def _c_config_chain(chk):
    """The map is computed on the configured section, at the manifold's energy, with the options of the call: the interface's
    create_problem and to_backend_inputs are interpreted with a model centre manifold (symbols for the energy, the Jacobian
    blocks, the tables) and symbolic options; energy, section, step, iteration count, integrator settings and the Hamiltonian
    data must arrive in the problem / the backend request under their own names, and the two closures the seeding uses solve
    on the same energy level with the same Hamiltonian."""
    IFM = "hiten.algorithms.poincare.centermanifold.interfaces"
    imod, icls = ri.find_def(IFM, "_CenterManifoldInterface")
    E, DT, JAC, HB, CLMO, MS, ORD, CW = (sp.Symbol(n, real=True) for n in ("ENERGY", "DT", "JAC_H", "H_BLOCKS", "CLMO", "MAX_STEPS", "ORDER", "C_OMEGA"))
    hamsys = SymObj(None, {"jac_H": JAC, "poly_H": lambda: HB, "clmo_table": CLMO, "clmo": CLMO}, "hamsys")
    dom = SymObj(None, {"dynamics": SymObj(None, {"hamsys": hamsys}, "dyn"), "energy": E}, "cm")
    for section in ("q3", "p2"):
        cfg = SymObj(None, {"section_coord": section, "integration": SymObj(None, {"method": "symplectic"}, "icfg")}, "config")
        opts = SymObj(None, {"integration": SymObj(None, {"dt": DT, "max_steps": MS, "order": ORD, "c_omega_heuristic": CW}, "iopt"),
                             "iteration": SymObj(None, {"n_iter": 7}, "it"), "workers": SymObj(None, {"n_workers": 3}, "w")}, "options")
        cap, prob_kw, solved = {}, {}, []
        ip = Interp(overrides={"CenterManifoldBackendRequest": lambda ip_, a, k: (cap.update(k), SymObj(None, dict(k), "request"))[1],
                               "_BackendCall": lambda ip_, a, k: SymObj(None, dict(k), "call"),
                               "_CenterManifoldMapProblem": lambda ip_, a, k: (prob_kw.update(k), SymObj(None, dict(k), "problem"))[1]})
        iface = SymObj(ClassRef(imod, icls), {"solve_missing_coord": lambda *a, **k: solved.append(("solve", a, k)), "find_turning": lambda *a, **k: solved.append(("turn", a, k))}, "interface")
        try:
            prob = ip.apply(ip.getattr(iface, "create_problem"), [], {"domain_obj": dom, "config": cfg, "options": opts})
            ip.apply(ip.getattr(iface, "to_backend_inputs"), [prob], {})
            ip.apply(prob_kw["solve_missing_coord_fn"], ["p3", {"q2": sp.Symbol("Q2")}], {})
            ip.apply(prob_kw["find_turning_fn"], ["q2"], {})
        except (OutsideFragment, KeyError) as exc:
            raise AnalysisError(f"centre-manifold map configuration chain outside fragment: {exc}")
        chk.count("functions partially evaluated", 2)
        want_p = {"section_coord": section, "energy": E, "dt": DT, "n_iter": 7, "n_workers": 3, "jac_H": JAC, "H_blocks": HB, "clmo_table": CLMO, "max_steps": MS,
                  "method": "symplectic", "order": ORD, "c_omega_heuristic": CW}
        bad = {k: prob_kw.get(k) for k, v in want_p.items() if not (prob_kw.get(k) is not None and prob_kw.get(k) == v)}
        chk.check(not bad, "C14.c-config", f"{IFM}::_CenterManifoldInterface.create_problem[{section}]",
                  f"the problem carries {bad} instead of {dict((k, want_p[k]) for k in bad)}: the map is not computed with the configured section / the manifold's energy / the options of the call",
                  sample=f"{section}: problem fields = (config.section_coord, domain energy, options.integration.*, options.iteration.n_iter, hamsys data)")
        want_r = {k: want_p[k] for k in ("dt", "jac_H", "clmo_table", "section_coord", "max_steps", "method", "order", "c_omega_heuristic")}
        bad = {k: cap.get(k) for k, v in want_r.items() if not (cap.get(k) is not None and cap.get(k) == v)}
        chk.check(not bad, "C14.c-config", f"{IFM}::_CenterManifoldInterface.to_backend_inputs[{section}]",
                  f"the backend request carries {bad} instead of {dict((k, want_r[k]) for k in bad)}", sample=f"{section}: request fields copied from the problem under their own names")
        ok = len(solved) == 2 and all(k.get("h0") == E and k.get("H_blocks") == HB and k.get("clmo_table") == CLMO for _, a, k in solved) \
            and solved[0][1][0] == "p3" and solved[1][1][0] == "q2"
        chk.check(ok, "C14.c-config", f"{IFM}::_CenterManifoldInterface.create_problem[{section},closures]",
                  f"the seeding closures solve with {[(t, a, sorted(k.items(), key=str)) for t, a, k in solved]}: not on the manifold's energy level with its Hamiltonian blocks",
                  sample="solve_missing_coord_fn / find_turning_fn: h0 = energy, H_blocks, clmo_table of this manifold")


def _c_direction_flag(chk):
    """The integration configuration of the map has a direction flag (IntegrationConfig.forward, validated to be +-1).  The map kernels only step forward
    (t_vals = [0, +dt]); a configuration that asks for -1 must therefore be REJECTED when the problem is built (or the flag must reach the backend request and be
    honoured) - answering it with the forward map is a silently wrong result."""
    IFM = "hiten.algorithms.poincare.centermanifold.interfaces"
    imod, icls = ri.find_def(IFM, "_CenterManifoldInterface")
    hamsys = SymObj(None, {"jac_H": sp.Symbol("JAC"), "poly_H": lambda: sp.Symbol("HB"), "clmo_table": sp.Symbol("CLMO")}, "hamsys")
    dom = SymObj(None, {"dynamics": SymObj(None, {"hamsys": hamsys}, "dyn"), "energy": sp.Symbol("E", real=True)}, "cm")
    cfg = SymObj(None, {"section_coord": "q3", "integration": SymObj(None, {"method": "fixed", "forward": -1}, "icfg")}, "config")
    opts = SymObj(None, {"integration": SymObj(None, {"dt": sp.Symbol("DT"), "max_steps": 10, "order": 4, "c_omega_heuristic": 20}, "iopt"),
                         "iteration": SymObj(None, {"n_iter": 2}, "it"), "workers": SymObj(None, {"n_workers": 1}, "w")}, "options")
    cap = {}
    ip = Interp(overrides={"CenterManifoldBackendRequest": lambda ip_, a, k: (cap.update(k), SymObj(None, dict(k), "request"))[1], "_BackendCall": lambda ip_, a, k: SymObj(None, dict(k), "call"),
                           "_CenterManifoldMapProblem": lambda ip_, a, k: SymObj(None, dict(k), "problem")})
    iface = SymObj(ClassRef(imod, icls), {}, "interface")
    raised = False
    try:
        prob = ip.apply(ip.getattr(iface, "create_problem"), [], {"domain_obj": dom, "config": cfg, "options": opts})
        ip.apply(ip.getattr(iface, "to_backend_inputs"), [prob], {})
    except KpeRaise:
        raised = True
    except OutsideFragment as exc:
        raise AnalysisError(f"centre-manifold map direction flag outside fragment: {exc}")
    chk.check(raised or cap.get("forward") == -1, "C14.c-config", f"{IFM}::_CenterManifoldInterface.create_problem[forward=-1]",
              f"a map configuration with integration.forward = -1 is accepted and the backend request carries forward = {cap.get('forward', 'nothing')}: the forward map is "
              f"computed and returned as if it were the backward one", sample="forward = -1: rejected (or handed to the backend)")


def _d_crossing(chk):
    n_dof = 3
    so = to_obj_array([sp.Symbol(f"o{i}", real=True) for i in range(6)])
    sn = to_obj_array([sp.Symbol(f"n{i}", real=True) for i in range(6)])
    rn = to_obj_array([sp.Symbol(f"r{i}", real=True) for i in range(6)])
    slot = {"q3": 2, "p3": 5, "q2": 1, "p2": 4}
    # direction quantity: for a coordinate section the conjugate momentum's sign at the new state; for a momentum section the rhs of the coordinate
    dirq = {"q3": sn[5], "q2": sn[4], "p3": rn[2], "p2": rn[1]}
    vals = {"-": R(-3, 2), "0": R(0), "+": R(5, 4)}
    n = 0
    for sec, idx in slot.items():
        for a, b, d in itertools.product("-0+", repeat=3):
            n += 1
            rep = {so[idx]: vals[a], sn[idx]: vals[b], dirq[sec]: vals[d]}
            out = Interp(decide=RegionDecider(rep)).call_function(CB, "_detect_crossing", [sec, so, sn, rn, n_dof])
            crossed = Interp().truth(out[0]) if not isinstance(out[0], bool) else out[0]
            want = (vals[a] * vals[b] < 0) and vals[d] > 0
            ok = bool(crossed) == bool(want)
            if ok and want:
                al = S(out[1])
                ok = sp.simplify(al - so[idx] / (so[idx] - sn[idx])) == 0
            chk.check(ok, "C14.d", f"{CB}::_detect_crossing[{sec},old{a},new{b},dir{d}]",
                      f"section {sec}: sign(old)={a}, sign(new)={b}, direction quantity {d}: crossed={crossed}, expected {want} (strict sign change in the documented direction; "
                      f"alpha = f_old/(f_old - f_new))", sample=f"{sec}: ({a},{b},{d}) -> {want}", nontrivial=(want or (a != b)))
    chk.count("order-abstract evaluations", n)
    # the direction quantity must not vanish on the section itself: with the quadratic centre-manifold Hamiltonian
    # H2 = w2/2 (q2^2+p2^2) + w3/2 (q3^2+p3^2) (what C04.f / C08.a establish) the right-hand side is q' = w p, p' = -w q; a filter
    # on a quantity that is zero on the section at this order is decided by higher-order coupling terms as the step size
    # shrinks, i.e. it no longer selects one crossing direction (both directions are then recorded as 'returns')
    w2, w3, eps = sp.Symbol("w2", positive=True), sp.Symbol("w3", positive=True), sp.Symbol("eps", real=True)
    for sec, idx in slot.items():
        st_new = [sp.Integer(0), sp.Symbol("Q2", real=True), sp.Symbol("Q3", real=True), sp.Integer(0), sp.Symbol("P2", real=True), sp.Symbol("P3", real=True)]
        st_new[idx] = eps
        rhs_h2 = [sp.Integer(0), w2 * st_new[4], w3 * st_new[5], sp.Integer(0), -w2 * st_new[1], -w3 * st_new[2]]
        st_old = list(st_new)
        st_old[idx] = -eps
        asked = []

        def dec(cond, asked=asked):
            asked.append(cond)
            if cond.has(eps) and isinstance(cond, (sp.Ge, sp.Gt, sp.Le, sp.Lt)) and sp.simplify((cond.lhs - cond.rhs) + eps ** 2) == 0:
                return False                  # f_old*f_new >= 0 : there is a sign change
            return True

        Interp(decide=dec).call_function(CB, "_detect_crossing", [sec, to_obj_array(st_old), to_obj_array(st_new), to_obj_array(rhs_h2), n_dof])
        dirs = [c for c in asked if isinstance(c, (sp.Gt, sp.Lt, sp.Ge, sp.Le)) and not sp.simplify((c.lhs - c.rhs) + eps ** 2) == 0]
        if not dirs:
            raise AnalysisError(f"_detect_crossing[{sec}]: no direction test found on the crossing path")
        dq = sp.simplify((dirs[-1].lhs - dirs[-1].rhs))
        on_section = sp.simplify(dq.subs(eps, 0))
        chk.check(on_section != 0, "C14.d", f"{CB}::_detect_crossing[{sec},direction quantity]",
                  f"section {sec}: the direction filter tests {dq} > 0, which vanishes on the section (= {on_section} at {sec} = 0 for the quadratic Hamiltonian): as the step shrinks its sign is "
                  f"set by higher-order coupling terms, so crossings in both directions are recorded and 'returns' come every half period",
                  sample=f"{sec}: direction quantity {dq} is non-zero on the section")


def _d_refinement(chk):
    n_dof = 3
    q2, p2, q3, p3 = sp.symbols("Q2 P2 Q3 P3", real=True)
    new = to_obj_array([sp.Symbol(f"N{i}", real=True) for i in range(6)])
    calls = []
    rhs_calls = []

    def hermite(ip_, a, k):
        calls.append(tuple(a))
        return sp.Symbol(f"HERM{len(calls)}")

    def rhs(ip_, a, k):
        rhs_calls.append(to_obj_array(a[0]).copy())
        return to_obj_array([sp.Symbol(f"R{len(rhs_calls)}_{i}", real=True) for i in range(6)])

    ip = Interp(overrides={"_integrate_map": lambda ip_, a, k: to_obj_array([list(to_obj_array(k["y0"])), list(new)]), "_get_rk_coefficients": lambda ip_, a, k: (1, 2, 3),
                           "_hamiltonian_rhs": rhs, "_hermite_scalar": hermite, "_detect_crossing": lambda ip_, a, k: (True, sp.Symbol("ALPHA"))})
    dt = sp.Symbol("dt", positive=True)
    out = ip.call_function(CB, "_poincare_step", [q2, p2, q3, p3, dt, sp.Symbol("jac"), sp.Symbol("clmo"), 4, 3, False, n_dof, "q3"])
    old = [0, q2, q3, 0, p2, p3]
    # rhs_new is evaluated first (at the new state), rhs_old after the crossing is detected
    rn = [sp.Symbol(f"R1_{i}", real=True) for i in range(6)]
    ro = [sp.Symbol(f"R2_{i}", real=True) for i in range(6)]
    want = {1: "q2", 4: "p2", 2: "q3", 5: "p3"}
    ok = len(calls) == 4 and len(rhs_calls) == 2 and list(rhs_calls[0]) == list(new) and list(rhs_calls[1]) == old
    seen = {}
    for c in calls:
        al, y0, y1, d0, d1, h = c
        k = next((i for i in want if y1 == new[i]), None)
        ok = ok and k is not None and al == sp.Symbol("ALPHA") and y0 == old[k] and d0 == ro[k] and d1 == rn[k] and h == dt
        seen[k] = True
    ok = ok and set(seen) == set(want)
    chk.check(ok, "C14.d", f"{CB}::_poincare_step[refinement pairing]",
              f"the four refined coordinates are not Hermite interpolants of (state_old[k], state_new[k], rhs_old[k], rhs_new[k], dt) for one and the same k each: {calls[:2]}",
              sample="q2,p2,q3,p3 <- _hermite_scalar(alpha, old[k], new[k], rhs_old[k], rhs_new[k], dt), k = 1,4,2,5")
    res_ok = isinstance(out, tuple) and len(out) == 6 and (out[0] == 1) and sp.simplify(S(out[5]) - sp.Symbol("ALPHA") * dt) == 0
    chk.check(res_ok, "C14.d", f"{CB}::_poincare_step[result]", f"step result {out}: expected (1, q2', p2', q3', p3', elapsed + alpha*dt)", sample="(1, q2', p2', q3', p3', t_cross)")
    chk.count("functions partially evaluated", 2)


# ------------------------------------------------------------------------------------------------ b, c
def _bc_interface(chk):
    mod, cls = ri.find_def(CI, "_CenterManifoldInterface")
    iface = SymObj(ClassRef(mod, cls), {}, "iface")
    states = to_obj_array([[sp.Symbol(f"z{r}_{k}", real=True) for k in range(4)] for r in range(2)])
    idx = {"q2": 0, "p2": 1, "q3": 2, "p3": 3}
    plane = {"q3": ("q2", "p2"), "p3": ("q2", "p2"), "q2": ("q3", "p3"), "p2": ("q3", "p3")}
    for sec in ("q3", "p3", "q2", "p2"):
        # the crossing refinement leaves residuals of 1e-9..1e-6 in the section coordinate: exactly those must become 0 (a "close enough" shortcut feeds a state that
        # is 1e-9 BELOW the section back as a seed, and the next integration step reports an immediate spurious return)
        resid = to_obj_array([[R(1, 3), R(-1, 5), R(2, 7), R(1, 9)], [R(-1, 4), R(1, 6), R(-3, 8), R(2, 5)]])
        for r_, eps_ in ((0, R(-1, 10 ** 9)), (1, R(3, 10 ** 10))):
            resid[r_, idx[sec]] = eps_
        ipc = Interp(decide=lambda c: None)
        outc = to_obj_array(ipc.apply(ipc.getattr(iface, "enforce_section_coordinate"), [resid.copy()], {"section_coord": sec}))
        okc = outc.shape == (2, 4) and all(S(outc[r, idx[sec]]) == 0 for r in range(2)) and all(S(outc[r, k]) == resid[r, k] for r in range(2) for k in range(4) if k != idx[sec])
        chk.check(okc, "C14.b", f"{CI}::_CenterManifoldInterface.enforce_section_coordinate[{sec},residual 1e-9]",
                  f"section {sec}: states with section-coordinate residuals -1e-9 / 3e-10 come back as {outc[:, idx[sec]].tolist()} in that column: not exactly on the section",
                  sample=f"{sec}: residuals of 1e-9 are set to exactly 0")
        ip = Interp(decide=lambda c: (False if ("allclose" in str(c) or "isclose" in str(c)) else None))
        out = to_obj_array(ip.apply(ip.getattr(iface, "enforce_section_coordinate"), [states.copy()], {"section_coord": sec}))
        ok = out.shape == (2, 4) and all(S(out[r, idx[sec]]) == 0 for r in range(2)) and all(out[r, k] == states[r, k] for r in range(2) for k in range(4) if k != idx[sec])
        chk.check(ok, "C14.b", f"{CI}::_CenterManifoldInterface.enforce_section_coordinate[{sec}]", f"section {sec}: enforcement zeroes the wrong column or alters others: {out.tolist()}",
                  sample=f"{sec}: column {idx[sec]} := 0, others untouched")
        # to_domain: points must be the projection on the plane coordinates that the labels name
        cap = {}
        ipd = Interp(overrides={"_from_mapping": lambda ip_, a, k: (cap.update(a[0]), SymObj(None, dict(a[0]), "payload"))[1]})
        outputs = SymObj(None, {"states": states.copy(), "times": to_obj_array([sp.Symbol("t0"), sp.Symbol("t1")])}, "outputs")
        problem = SymObj(None, {"section_coord": sec}, "problem")
        ipd.apply(ipd.getattr(iface, "to_domain"), [outputs], {"problem": problem})
        pts = to_obj_array(cap.get("points"))
        labels = tuple(cap.get("labels", ()))
        want_pts = [[states[r, idx[plane[sec][0]]], states[r, idx[plane[sec][1]]]] for r in range(2)]
        okp = labels == plane[sec] and pts.shape == (2, 2) and all(pts[r, c] == want_pts[r][c] for r in range(2) for c in range(2))
        chk.check(okp, "C14.c", f"{CI}::_CenterManifoldInterface.to_domain[{sec}]",
                  f"section {sec}: points are columns {[[str(pts[0, 0])[-1], str(pts[0, 1])[-1]]] if pts.size else None} of the states under labels {labels}; they must be the "
                  f"projection on {plane[sec]} (columns {idx[plane[sec][0]]},{idx[plane[sec][1]]}); for q2/p2 sections the map's points are (0, p2) mislabelled as (q3, p3)",
                  sample=f"{sec}: points = states[:, ({idx[plane[sec][0]]},{idx[plane[sec][1]]})], labels {plane[sec]}")
        pp = to_obj_array(ip.apply(ip.getattr(iface, "plane_points_from_states"), [states.copy()], {"section_coord": sec}))
        chk.check(pp.shape == (2, 2) and all(pp[r, c] == want_pts[r][c] for r in range(2) for c in range(2)), "C14.c", f"{CI}::_CenterManifoldInterface.plane_points_from_states[{sec}]",
                  f"plane projection for {sec} is wrong", sample=f"{sec}: columns of {plane[sec]}", nontrivial=False)
    chk.count("functions partially evaluated", 12)
