"""Effective Runge-Kutta tableaux extracted from hiten's stepping code by partial evaluation.

The right-hand side is replaced by a recorder that returns fresh symbols K[i,d] for the i-th
evaluation; stage arguments and outputs are then linear forms in those symbols whose coefficients
ARE the tableau the code applies (table literals and indexing included)."""
from __future__ import annotations

from fractions import Fraction

import numpy as np
import sympy as sp

from .core import AnalysisError
from .kpe import to_obj_array, S


class Recorder:
    """Stands for f(t, y): records its arguments, returns fresh stage symbols."""

    def __init__(self, dim, prefix="K"):
        self.dim = dim
        self.prefix = prefix
        self.calls = []   # (t_expr, y_array)
        self.syms = []    # list of arrays of symbols

    def __call__(self, t, y, *rest):
        y = to_obj_array(y).ravel().copy()
        if y.shape[0] != self.dim:
            raise AnalysisError(f"right-hand side called with a vector of length {y.shape[0]} (expected {self.dim})")
        i = len(self.calls)
        out = np.empty((self.dim,), dtype=object)
        for d in range(self.dim):
            out[d] = sp.Symbol(f"{self.prefix}{i}_{d}", real=True)
        self.calls.append((S(t), y))
        self.syms.append(out)
        return out.copy()


def frac(e):
    e = sp.sympify(e)
    if not isinstance(e, sp.Rational):
        e = sp.expand(e)
    if not isinstance(e, sp.Rational):
        raise AnalysisError(f"tableau coefficient is not a rational constant: {e}")
    return Fraction(int(e.p), int(e.q))


def linear_coeffs(expr_vec, base_vec, h, rec, what):
    """expr_vec[d] = base_vec[d] + h * sum_j a_j K[j,d]  ->  [a_j]; the same a_j for every d, no cross terms."""
    nst = len(rec.syms)
    rows = []
    for d in range(rec.dim):
        e = sp.expand((S(expr_vec[d]) - S(base_vec[d])) / h)
        coeffs = []
        rest = e
        for j in range(nst):
            c = e.coeff(rec.syms[j][d])
            coeffs.append(c)
            rest = rest - c * rec.syms[j][d]
        if sp.expand(rest) != 0:
            raise AnalysisError(f"{what}: component {d} is not y[{d}] + h*sum a_j K[j,{d}] (residual {sp.expand(rest)})")
        rows.append(coeffs)
    for d in range(1, rec.dim):
        if any(sp.expand(a - b) != 0 for a, b in zip(rows[0], rows[d])):
            raise AnalysisError(f"{what}: coefficients differ between components 0 and {d}")
    return rows[0]


def stage_tableau(rec, t, y, h, upto=None):
    """A_eff (list of rows of Fractions) and c_eff from the recorded stage arguments."""
    A, c = [], []
    n = len(rec.calls) if upto is None else upto
    for i in range(n):
        ti, yi = rec.calls[i]
        row = linear_coeffs(yi, y, h, _Trunc(rec, i), f"stage {i}")
        A.append([frac(a) for a in row] + [Fraction(0)] * (n - i))
        c.append(frac(sp.expand((ti - t) / h)))
    return [r[:n] for r in A], c


class _Trunc:
    """View of a recorder limited to the first i stage symbols (explicitness: stage i sees K_j, j<i)."""

    def __init__(self, rec, i):
        self.dim = rec.dim
        self.syms = rec.syms[:i]


def weights(expr_vec, base_vec, h, rec, what):
    return [frac(a) for a in linear_coeffs(expr_vec, base_vec, h, rec, what)]


def poly_weights(expr_vec, base_vec, h, rec, theta, what):
    """Continuous weights: returns list over stages of {power: Fraction} polynomials in theta."""
    row = linear_coeffs(expr_vec, base_vec, h, rec, what)
    out = []
    for a in row:
        P = sp.Poly(sp.expand(a), theta)
        out.append({int(m[0]): frac(cf) for m, cf in P.terms()})
    return out
