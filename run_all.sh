#!/bin/bash
# Runs every property's check (default tier quick) in parallel and prints exit codes and wall times.
TIER=${1:-quick}
cd /verif
for i in $(seq -w 1 20); do
  ( s=$(date +%s.%N); timeout 3000 python3-vt vcheck C$i --tier $TIER > /tmp/hv_C$i.$TIER.log 2>&1; rc=$?; e=$(date +%s.%N); printf "C%s rc=%s %.1fs known=%s\n" $i $rc $(echo "$e - $s" | bc) $(grep -c KNOWN-FINDING /tmp/hv_C$i.$TIER.log) ) &
done
wait
