"""C08 — the Lie-series normal form removes the right terms by a canonical transformation.

The Lie drivers (_lie_transform partial/full, _apply_poly_transform, _solve_homological_equation, the term selectors,
_lie_expansion, _apply_coord_transform) are interpreted on hiten's real packed layout at a bounded degree N with a
GENERIC symbolic Hamiltonian (symbolic lambda, omega1, omega2 and symbolic higher-order coefficients); only the list-level
Poisson bracket is replaced by its ring summary (justified by C06.c).  Decided, as polynomial identities in all symbols:
 a  the transformed Hamiltonian has no monomial with k_q1 != k_p1 (partial) / no non-resonant monomial (full), degrees 3..N
 b  H_new == H_old o Phi up to degree N with Phi = the library's own forward coordinate series
 c  Phi is canonical to degree N ({Phi_i, Phi_j} = J_ij) and forward o inverse == identity to degree N
 d  generating functions returned are the ones applied; truncation counts K suffice (integer grid)

b (added)  series weights: the k-th iterated bracket enters with 1/k! (formal blocks, N_max = 7), for the Hamiltonian and the coordinate series;
           the coordinate series examined are the ones HamiltonianPipeline.get_lie_expansions requests (its own keyword arguments)
d (added)  generating functions are stored under / read from the slot of their own transform (C18.b slot rule, re-filed)
d-source (round 4)  C09.d re-filed: the centre-manifold restriction never writes into the cached normal-form polynomial
d (round 5)  the facade's generating-function objects keep G_n at position n of a full-length block list
"""
from __future__ import annotations

import numpy as np
import sympy as sp

from ..core import Check, AnalysisError
from .. import repoindex as ri
from ..kpe import Interp, SymObj, ClassRef, to_obj_array, S, OutsideFragment
from ..regions import RegionDecider
from .. import polyref as pr
from ..polyref import X, monomial, poisson
from ..polymodel import trunc, homogeneous

LIE = "hiten.algorithms.hamiltonian.lie"
CL = "hiten.algorithms.hamiltonian.center._lie"
NL = "hiten.algorithms.hamiltonian.normal._lie"

FREQS = [(sp.Rational(21, 10), sp.Rational(13, 10), sp.Rational(7, 10)), (sp.Rational(5, 3), sp.Rational(9, 4), sp.Rational(11, 13))]
LAM, W1, W2 = FREQS[0]
HS = []


def P(expr):
    return sp.Poly(sp.sympify(expr), *X, *HS, domain=sp.QQ_I)


def ptrunc(poly, max_deg, min_deg=0):
    d = {m: c for m, c in poly.as_dict().items() if min_deg <= sum(m[:6]) <= max_deg}
    return sp.Poly.from_dict(d, *poly.gens, domain=poly.domain) if d else sp.Poly(0, *poly.gens, domain=poly.domain)


def tmul(p, q, N):
    """Product truncated at X-degree N (never forms the higher-degree terms)."""
    dp, dq = p.as_dict(native=True), q.as_dict(native=True)
    bydeg = {}
    for m2, c2 in dq.items():
        bydeg.setdefault(sum(m2[:6]), []).append((m2, c2))
    out = {}
    for m1, c1 in dp.items():
        d1 = sum(m1[:6])
        for d2, items in bydeg.items():
            if d1 + d2 > N:
                continue
            for m2, c2 in items:
                m = tuple(a + b for a, b in zip(m1, m2))
                v = c1 * c2
                if m in out:
                    out[m] = out[m] + v
                else:
                    out[m] = v
    out = {m: c for m, c in out.items() if c}
    return sp.Poly.from_dict(out, *p.gens, domain=p.domain) if out else sp.Poly(0, *p.gens, domain=p.domain)


def pbracket(p, q, N=None):
    r = sp.Poly(0, *p.gens, domain=p.domain)
    for m in range(3):
        if N is None:
            r = r + p.diff(X[m]) * q.diff(X[m + 3]) - p.diff(X[m + 3]) * q.diff(X[m])
        else:
            r = r + tmul(p.diff(X[m]), q.diff(X[m + 3]), N) - tmul(p.diff(X[m + 3]), q.diff(X[m]), N)
    return r



def expr_to_list(expr, N, clmo, enc):
    out = [np.array([sp.Integer(0)] * len(clmo[d]), dtype=object) for d in range(N + 1)]
    expr = sp.expand(expr)
    if expr == 0:
        return out
    for m, c in sp.Poly(expr, *X).terms():
        d = sum(m)
        if d > N:
            continue
        pos = enc[d][pr.ref_pack(m)]
        out[d][int(S(pos))] = sp.expand(c)
    return out


def _bridge(N, clmo, enc):
    def bracket(ip, a, k):
        p, q, md = a[0], a[1], int(S(a[2]))
        pe, qe = P(pr.list_to_expr(p, clmo)), P(pr.list_to_expr(q, clmo))
        return expr_to_list(pbracket(pe, qe, md).as_expr(), md, clmo, enc)

    def clean(ip, a, k):
        return [to_obj_array(x).copy() for x in a[0]]
    return {"_polynomial_poisson_bracket": bracket, "_polynomial_clean": clean}


def _a_sparse_input(chk, N, freq):
    """An input whose degree-4 block is empty: the degree-4 terms created by exp(L_G3) still have to be normalised
    (a guard that looks at the *input* block instead of the current transformed one would skip them)."""
    psi, clmo, enc = pr.tables(N)
    H, coeffs = _generic_H(N, freq)
    Hs = sp.expand(sum((t for t in sp.Add.make_args(H) if sp.Poly(t, *X).total_degree() != 4), sp.Integer(0)))
    rep = _rep(coeffs)
    H_list = expr_to_list(Hs, N, clmo, enc)
    point = SymObj(None, {"linear_modes": freq}, "point")
    for kind, modname in (("partial", CL), ("full", NL)):
        ip = Interp(overrides=_bridge(N, clmo, enc), decide=RegionDecider(rep), max_depth=40)
        out = ip.call_function(modname, "_lie_transform", [point, [a.copy() for a in H_list], psi, clmo, N])
        chk.count("functions partially evaluated")
        Hn = P(pr.list_to_expr(out[0], clmo))
        bad = []
        deg4 = 0
        for m, cf in Hn.as_dict().items():
            if sum(m[:6]) < 3:
                continue
            deg4 += sum(m[:6]) == 4
            if (m[0] != m[3]) if kind == "partial" else ((m[0], m[1], m[2]) != (m[3], m[4], m[5])):
                bad.append(m[:6])
        chk.check(not bad, "C08.a", f"{modname}::_lie_transform[{kind}:remaining terms, empty input degree]",
                  f"{kind} normal form of a Hamiltonian without degree-4 terms still contains {sorted(set(bad))[:5]}: terms created by earlier generators in an initially empty "
                  "degree are not normalised", sample=f"{kind}: H3 + H2 only; the degree-4 terms created by exp(L_G3) ({deg4} monomials remain, all admissible)")


def _generic_H(N, freq):
    """H2 in complex normal form + sparse generic terms of degree 3..N (both kinds: to eliminate and to keep)."""
    q1, q2, q3, p1, p2, p3 = X
    lam, w1, w2 = freq
    H = lam * q1 * p1 + sp.I * w1 * q2 * p2 + sp.I * w2 * q3 * p3
    monos = {
        3: [(3, 0, 0, 0, 0, 0), (1, 1, 0, 0, 1, 0), (0, 1, 0, 2, 0, 0), (1, 0, 0, 1, 0, 1), (0, 0, 2, 0, 1, 0), (0, 1, 1, 0, 0, 1), (2, 0, 0, 0, 0, 1)],
        4: [(1, 0, 0, 1, 1, 1)[:6], (2, 0, 0, 2, 0, 0), (0, 1, 1, 0, 1, 1), (1, 1, 0, 0, 2, 0), (0, 2, 0, 0, 2, 0), (3, 0, 0, 0, 0, 1), (1, 0, 1, 1, 0, 1), (0, 0, 1, 2, 1, 0)],
        5: [(2, 1, 0, 2, 0, 0), (1, 1, 1, 1, 1, 0), (3, 0, 0, 1, 1, 0), (0, 2, 1, 0, 2, 0)],
    }
    coeffs = {}
    for d in range(3, N + 1):
        for j, m in enumerate(monos.get(d, [])):
            if sum(m) != d:
                continue
            if j < {3: 3, 4: 2, 5: 1}.get(d, 0):
                c = sp.Symbol(f"h{d}_{j}")
                coeffs[c] = m
            else:
                c = sp.Rational(2 * j + 3, 7 + d + 3 * j) * (1 if (j % 2) else (1 + sp.I) / 2)
            H += c * monomial(m)
    return sp.expand(H), coeffs


def _rep(coeffs):
    rep = {}
    primes = [2, 3, 5, 7, 11, 13, 17, 19, 23, 29, 31, 37, 41, 43, 47, 53, 59, 61, 67, 71]
    for i, c in enumerate(sorted(coeffs, key=str)):
        rep[c] = sp.Rational(primes[i % len(primes)], 97)
    return rep


def _lie_series(F, G, N, sign=1):
    """exp(L_G) F = sum_k {..{F,G}..,G}/k! truncated at degree N (independent reference, Poly arithmetic)."""
    F, G = (F if isinstance(F, sp.Poly) else P(F)), (G if isinstance(G, sp.Poly) else P(G))
    res = F
    term = F
    for k in range(1, 2 * N + 2):
        term = pbracket(term, G * sign, N)
        if term.is_zero:
            break
        res = res + term * sp.Rational(1, sp.factorial(k))
    return ptrunc(res, N)


def run(tier):
    chk = Check("C08", tier, "other",
                "The Lie-series drivers are interpreted on hiten's real packed layout at degree N with a generic Hamiltonian: "
                "symbolic higher-order coefficients (polynomial ring over the Gaussian rationals) and two generic rational "
                "frequency vectors (lambda, omega1, omega2); the list-level Poisson bracket is replaced by its ring summary "
                "(C06.c). The property's own clauses - which monomials remain, H_new = H_old o Phi, canonicity, forward o "
                "inverse = id - are checked as exact polynomial identities in the coefficient symbols up to degree N.",
                trusted_base=["python ast", "hv.kpe", "C06.c (Poisson bracket summary)", "sympy Poly arithmetic over QQ_I"])
    N = 4 if tier == "quick" else 5
    for fi, freq in enumerate(FREQS if tier != "quick" else FREQS[:1]):
        _one_frequency(chk, N, freq, fi)
    _d_truncation_counts(chk)
    _a_sparse_input(chk, 4, FREQS[0])
    _b_series_weights(chk)
    # the generating functions handed out for a transform are the ones that transform produced (C18.b slot rule, re-filed)
    from . import c18
    from .common import Relabel
    c18.generating_function_slots(Relabel(chk, {"C18.b": "C08.d"}))
    # a conversion that follows the normal form (the centre-manifold restriction) never writes into the cached normal-form polynomial: H_new = H_old o Phi
    # must still hold for the partial normal form after the reduced form has been requested (C09.d re-filed)
    from . import c09 as _c09
    from .common import Relabel as _Relabel2
    _c09._d_restriction(_Relabel2(chk, {"C09.d": "C08.d-source"}))
    _d_facade_generators(chk)
    return chk


def _compose(F, subs_polys, N):
    """F(Phi(z)) truncated at X-degree N; F and Phi_i are Polys over the common generators."""
    gens = F.gens
    zero = sp.Poly(0, *gens, domain=F.domain)
    one = sp.Poly(1, *gens, domain=F.domain)
    # powers cache
    cache = {}

    def power(i, e):
        if e == 0:
            return one
        if (i, e) not in cache:
            cache[(i, e)] = tmul(power(i, e - 1), subs_polys[i], N)
        return cache[(i, e)]

    res = zero
    for m, c in F.as_dict().items():
        term = sp.Poly.from_dict({(0,) * 6 + tuple(m[6:]): c}, *gens, domain=F.domain)
        for i in range(6):
            if m[i]:
                term = tmul(term, power(i, m[i]), N)
        res = res + term
    return ptrunc(res, N)


def _one_frequency(chk, N, freq, fi, kinds=("partial", "full")):
    psi, clmo, enc = pr.tables(N)
    H, coeffs = _generic_H(N, freq)
    HS[:] = sorted(coeffs, key=str)
    rep = _rep(coeffs)
    HP = P(H)
    H_list = expr_to_list(H, N, clmo, enc)
    point = SymObj(None, {"linear_modes": freq}, "point")
    tagf = f"freq#{fi}"
    results = {}
    for kind, modname in [km for km in (("partial", CL), ("full", NL)) if km[0] in kinds]:
        ip = Interp(overrides=_bridge(N, clmo, enc), decide=RegionDecider(rep), max_depth=40)
        try:
            out = ip.call_function(modname, "_lie_transform", [point, [a.copy() for a in H_list], psi, clmo, N])
        except OutsideFragment as exc:
            raise AnalysisError(f"{modname}::_lie_transform left the analysable fragment: {exc}")
        chk.count("functions partially evaluated")
        poly_trans, poly_G, poly_elim = out
        Hn = P(pr.list_to_expr(poly_trans, clmo))
        G = {n: P(pr.arr_to_expr(poly_G[n], n, clmo)) for n in range(3, N + 1)}
        results[kind] = (Hn, G, poly_G)
        c0 = f"{modname}::_lie_transform"
        bad = []
        nterms = 0
        for m, cf in Hn.as_dict().items():
            if sum(m[:6]) < 3:
                continue
            nterms += 1
            if kind == "partial":
                if m[0] != m[3]:
                    bad.append(m[:6])
            elif (m[0], m[1], m[2]) != (m[3], m[4], m[5]):
                bad.append(m[:6])
        chk.check(not bad, "C08.a", c0 + f"[{kind}:remaining terms]",
                  f"{kind} normal form of a generic degree-{N} Hamiltonian still contains monomials (k_q1..k_p3) = {sorted(set(bad))[:5]} "
                  + ("with k_q1 != k_p1: q1 p1 is not a formal integral, the centre manifold is not invariant" if kind == "partial" else "that are not resonant"),
                  sample=f"{kind}, {tagf}: all {nterms} coefficient-monomials of degrees 3..{N} satisfy " + ("k_q1 = k_p1" if kind == "partial" else "k_q = k_p pairwise"))
        chk.check((ptrunc(Hn, 2) - ptrunc(HP, 2)).is_zero, "C08.a", c0 + f"[{kind}:H2]", "the quadratic part is changed by the normalisation", nontrivial=False)
        Href = HP
        for n in range(3, N + 1):
            Href = _lie_series(Href, G[n], N)
        diff = Hn - Href
        chk.check(diff.is_zero, "C08.b", c0 + f"[{kind}:lie series]",
                  f"transformed Hamiltonian is not exp(L_G_N)...exp(L_G_3) H truncated at degree {N} with the returned generating functions: {str(diff.as_expr())[:160]}",
                  sample=f"{kind}, {tagf}: H_new == composition of exp(L_G_n), n = 3..{N}, truncated at {N}")
        H2 = ptrunc(HP, 2)
        Hcur = HP
        okh, bad_n = True, None
        for n in range(3, N + 1):
            part = ptrunc(Hcur, n, n)
            sel = {m: cf for m, cf in part.as_dict().items() if ((m[0] != m[3]) if kind == "partial" else ((m[0], m[1], m[2]) != (m[3], m[4], m[5])))}
            selp = sp.Poly.from_dict(sel, *part.gens, domain=part.domain) if sel else sp.Poly(0, *part.gens, domain=part.domain)
            lhs = ptrunc(pbracket(H2, G[n], n), n, n) + selp
            if not lhs.is_zero:
                okh, bad_n = False, (n, str(lhs.as_expr())[:120])
                break
            Hcur = _lie_series(Hcur, G[n], N)
        chk.check(okh, "C08.a", f"{LIE}::_solve_homological_equation[{kind}]",
                  f"{{H2, G_n}} does not cancel the selected degree-n terms: {bad_n} (sign / exponent slot / divisor of the homological solve)",
                  sample=f"{kind}, {tagf}: {{H2, G_n}} + (selected terms of H_n) == 0 for n = 3..{N}")
    Hn, G, poly_G = results["partial"]
    c0 = f"{CL}::_lie_expansion"
    exps = {}
    for inverse in (False, True):
        kw = _pipeline_expansion_kwargs(chk, inverse)
        ip = Interp(overrides=_bridge(N, clmo, enc), decide=RegionDecider(rep), max_depth=40)
        out = ip.call_function(CL, "_lie_expansion", [[to_obj_array(a).copy() for a in poly_G], N, psi, clmo, sp.Integer(-1)], kw)
        chk.count("functions partially evaluated")
        exps[inverse] = [P(pr.list_to_expr(out[i], clmo)) for i in range(6)]
    Phi, Psi = exps[False], exps[True]
    comp = _compose(HP, Phi, N)
    diff = comp - Hn
    chk.check(diff.is_zero, "C08.b", c0 + "[H_new = H_old o Phi]",
              f"the transformed Hamiltonian is not the original composed with the library's forward coordinate series up to degree {N}: {str(diff.as_expr())[:160]}",
              sample=f"{tagf}: H_new(z) == H_old(Phi(z)) mod degree {N + 1} (forward series, generators applied ascending with +G_n)")
    bad = []
    for i in range(6):
        for j in range(i + 1, 6):
            want = 1 if j == i + 3 else 0
            pb = pbracket(Phi[i], Phi[j], N - 1) - want
            if not pb.is_zero:
                bad.append((i, j, str(pb.as_expr())[:80]))
    chk.check(not bad, "C08.c", c0 + "[canonical]", f"the forward coordinate change is not canonical to degree {N - 1} in the brackets: {bad[:3]}",
              sample=f"{tagf}: {{Phi_i, Phi_j}} == J_ij mod degree {N} for all 15 pairs")
    for name, A, B in (("inverse o forward", Psi, Phi), ("forward o inverse", Phi, Psi)):
        bad = []
        for i in range(6):
            d = _compose(A[i], B, N) - P(X[i])
            if not d.is_zero:
                bad.append((i, str(d.as_expr())[:80]))
        chk.check(not bad, "C08.c", c0 + f"[{name}]", f"{name} is not the identity up to degree {N}: {bad[:3]}", sample=f"{tagf}: {name} == id mod degree {N + 1}")
    ipz = Interp(decide=RegionDecider(rep), max_depth=40)
    fwd_lists = [expr_to_list(Phi[i].as_expr(), N, clmo, enc) for i in range(6)]
    z = ipz.call_function(CL, "_zero_q1p1", [fwd_lists, clmo, sp.Integer(-1)])
    ok = True
    for i in range(6):
        got = P(pr.list_to_expr(z[i], clmo))
        keep = {m: cf for m, cf in Phi[i].as_dict().items() if m[0] == 0 and m[3] == 0}
        want = sp.Poly.from_dict(keep, *got.gens, domain=got.domain) if keep else sp.Poly(0, *got.gens, domain=got.domain)
        ok = ok and (got - want).is_zero
    chk.check(ok, "C08.c", f"{CL}::_zero_q1p1", "restriction to the centre manifold does not zero exactly the monomials containing q1 or p1", sample="keep iff k_q1 = k_p1 = 0")


def _b_series_weights(chk):
    """exp(L_G) H = sum_k (1/k!) ad_G^k H: the k-th iterated bracket enters with weight 1/k! and is the bracket of the
    previous (unweighted) iterate with the single-degree generator.  _apply_poly_transform is interpreted with formal
    one-coefficient blocks and the Poisson bracket replaced by a tagging stub, for a truncation degree high enough that
    four iterated brackets contribute (at the degree the coefficient-level check runs, 1/k and 1/k! coincide for k <= 2)."""
    NMAX, DEG = 7, 3
    H = [to_obj_array([sp.Symbol(f"h{d}")]) for d in range(NMAX + 1)]
    G = to_obj_array([sp.Symbol("g3")])
    calls = []

    def bracket(ip_, a, k):
        kk = len(calls) + 1
        calls.append(([list(to_obj_array(x)) for x in a[0]], [list(to_obj_array(x)) for x in a[1]], a[2]))
        return [to_obj_array([sp.Symbol(f"B{kk}_{d}")]) for d in range(NMAX + 1)]

    ov = {"_polynomial_poisson_bracket": bracket, "_polynomial_clean": lambda ip_, a, k: a[0], "_make_poly": lambda ip_, a, k: to_obj_array([sp.Integer(0)]),
          "_polynomial_zero_list": lambda ip_, a, k: [to_obj_array([sp.Integer(0)]) for _ in range(int(S(a[0])) + 1)]}
    ip = Interp(overrides=ov, max_depth=20)
    out = ip.call_function(LIE, "_apply_poly_transform", [[x.copy() for x in H], G.copy(), DEG, NMAX, sp.Symbol("psi"), sp.Symbol("clmo"), sp.Symbol("enc"), sp.Integer(-1)])
    chk.count("functions partially evaluated")
    K = len(calls)
    bad = []
    for d in range(NMAX + 1):
        got = sp.expand(S(to_obj_array(out[d])[0]))
        want = H[d][0] + sum(sp.Rational(1, sp.factorial(k)) * sp.Symbol(f"B{k}_{d}") for k in range(1, K + 1))
        if sp.expand(got - want) != 0:
            bad.append((d, str(got)[:100]))
    chk.check(not bad and K >= 4, "C08.b", f"{LIE}::_apply_poly_transform[series weights]",
              f"the Lie series is not H + sum_k (1/k!) ad_G^k H with k = 1..K (K = {K}): degree blocks {bad[:2]}",
              sample=f"N_max={NMAX}, deg G={DEG}: result = H + sum_(k=1..{K}) B_k / k!")
    # each bracket is taken of the previous unweighted iterate with the generator placed at its own degree
    chain_ok = bool(calls) and calls[0][0] == [list(x) for x in H] and all(calls[k][0] == [[sp.Symbol(f"B{k}_{d}")] for d in range(NMAX + 1)] for k in range(1, K))
    gen_ok = all(c[1][DEG] == [sp.Symbol("g3")] and all(c[1][d] == [0] for d in range(NMAX + 1) if d != DEG) and c[2] == NMAX for c in calls)
    chk.check(chain_ok and gen_ok, "C08.b", f"{LIE}::_apply_poly_transform[iteration]",
              "the k-th term is not the bracket of the (k-1)-th unweighted iterate with the generator at its own degree, truncated at N_max",
              sample="B_k = {B_(k-1), G_n}, B_0 = H")
    # the coordinate series uses the same exponential
    Xp = [to_obj_array([sp.Symbol(f"x{d}")]) for d in range(2)]
    Gl = [to_obj_array([sp.Symbol("g3") if d == 3 else sp.Integer(0)]) for d in range(NMAX + 1)]
    calls2 = []

    def bracket2(ip_, a, k):
        kk = len(calls2) + 1
        calls2.append(([list(to_obj_array(x)) for x in a[0]], a[1], a[2]))
        return [to_obj_array([sp.Symbol(f"C{kk}_{d}")]) for d in range(NMAX + 1)]

    ov2 = dict(ov)
    ov2["_polynomial_poisson_bracket"] = bracket2
    ov2["_polynomial_total_degree"] = lambda ip_, a, k: 3
    ip2 = Interp(overrides=ov2, max_depth=20)
    out2 = ip2.call_function(CL, "_apply_coord_transform", [[x.copy() for x in Xp], Gl, NMAX, sp.Symbol("psi"), sp.Symbol("clmo"), sp.Symbol("enc"), sp.Integer(-1)])
    chk.count("functions partially evaluated")
    K2 = len(calls2)
    bad2 = []
    for d in range(NMAX + 1):
        got = sp.expand(S(to_obj_array(out2[d])[0]))
        want = (Xp[d][0] if d < 2 else 0) + sum(sp.Rational(1, sp.factorial(k)) * sp.Symbol(f"C{k}_{d}") for k in range(1, K2 + 1))
        if sp.expand(got - want) != 0:
            bad2.append((d, str(got)[:100]))
    chain2 = bool(calls2) and calls2[0][0] == [list(x) for x in Xp] and all(calls2[k][0] == [[sp.Symbol(f"C{k}_{d}")] for d in range(NMAX + 1)] for k in range(1, K2)) \
        and all(c[1] is Gl and c[2] == NMAX for c in calls2)
    chk.check(not bad2 and K2 >= 4 and chain2, "C08.c", f"{CL}::_apply_coord_transform[series weights]",
              f"the coordinate series is not X + sum_k (1/k!) ad_G^k X (K = {K2}): {bad2[:2]}", sample=f"X + sum_(k=1..{K2}) C_k / k!")


PIPE = "hiten.algorithms.hamiltonian.pipeline"
_KW_CACHE = {}


def _pipeline_expansion_kwargs(chk, inverse):
    """The keyword arguments with which HamiltonianPipeline.get_lie_expansions(inverse=...) calls _lie_expansion.

    The coordinate series examined by C08.b/c are the ones the pipeline hands to its clients (centre-manifold service,
    maps), so the direction flag, the generator sign and the restriction flag are taken from the pipeline's own call."""
    if inverse in _KW_CACHE:
        return dict(_KW_CACHE[inverse])
    rec = []
    PG, DEG, PSI, CLMO, TOL = (sp.Symbol(n) for n in ("POLY_G", "DEG", "PSI", "CLMO", "TOL"))

    def stub(ip, a, k):
        rec.append((list(a), dict(k)))
        return sp.Symbol("EXPANSIONS")

    gen = SymObj(None, {"poly_G": PG, "degree": DEG, "dynamics": SymObj(None, {"psi": PSI, "clmo": CLMO}, "dynamics")}, "gen_funcs")
    asked = []
    mod, cls = ri.find_def(PIPE, "HamiltonianPipeline")
    from ..kpe import ClassRef
    pipe = SymObj(ClassRef(mod, cls), {"get_generating_functions": lambda kind, **kw: (asked.append(kind), gen)[1]}, "pipeline")
    ip = Interp(overrides={"_lie_expansion": stub})
    out = ip.apply(ip.getattr(pipe, "get_lie_expansions"), [], {"inverse": inverse, "tol": TOL})
    chk.count("functions partially evaluated")
    c0 = f"{PIPE}::HamiltonianPipeline.get_lie_expansions[inverse={inverse}]"
    ok = len(rec) == 1 and out == sp.Symbol("EXPANSIONS") and asked == ["partial"]
    a, k = rec[0] if rec else ([], {})
    ok = ok and a[:4] == [PG, DEG, PSI, CLMO] and (a[4] if len(a) > 4 else k.get("tol")) == TOL
    chk.check(ok, "C08.d", c0 + "[forwarding]",
              f"get_lie_expansions does not hand the partial generating functions, their degree/tables and tol to _lie_expansion and return its result: asked {asked}, args {a}, kwargs {k}",
              sample="(poly_G, degree, psi, clmo, tol) of the 'partial' generating functions -> _lie_expansion -> returned")
    kw = {kk: vv for kk, vv in k.items() if kk != "tol"}
    _KW_CACHE[inverse] = kw
    return dict(kw)


def _d_truncation_counts(chk):
    """K in _apply_poly_transform / K_max in _apply_coord_transform suffice on the grid 3 <= n <= N <= 30."""
    import math
    bad1, bad2 = [], []
    cnt = 0
    captured = {}

    for fname, modname in (("_apply_poly_transform", LIE), ("_apply_coord_transform", CL)):
        mod, fn = ri.find_def(modname, fname)
        import ast
        kexpr = None
        for st in ast.walk(fn):
            if isinstance(st, ast.Assign) and isinstance(st.targets[0], ast.Name) and st.targets[0].id in ("K", "K_max") and isinstance(st.value, ast.Call):
                kexpr = st.value
        if kexpr is None:
            raise AnalysisError(f"anchor: truncation count in {fname} not found")
        captured[fname] = (mod, kexpr)
    from ..kpe import Env
    for N in range(3, 31):
        for n in range(3, N + 1):
            cnt += 1
            for fname, need in (("_apply_poly_transform", math.ceil((N - 2) / (n - 2))), ("_apply_coord_transform", math.ceil((N - 1) / (n - 2)))):
                mod, kexpr = captured[fname]
                env = Env(mod)
                env.vars.update({"N_max": N, "deg_G": n})
                K = int(S(Interp().eval(kexpr, env)))
                if K < need:
                    (bad1 if fname == "_apply_poly_transform" else bad2).append((N, n, K, need))
    chk.check(not bad1, "C08.d", f"{LIE}::_apply_poly_transform[K]", f"number of Lie-series terms too small for (N, n, K, needed) = {bad1[:3]}: degree-raising by n-2 per bracket needs ceil((N-2)/(n-2))",
              sample=f"K >= ceil((N-2)/(n-2)) on all {cnt} pairs 3<=n<=N<=30")
    chk.check(not bad2, "C08.d", f"{CL}::_apply_coord_transform[K_max]", f"number of coordinate-series terms too small for {bad2[:3]}: needs ceil((N-1)/(n-2))",
              sample=f"K_max >= ceil((N-1)/(n-2)) on all {cnt} pairs")


def _d_facade_generators(chk):
    """The generating functions the point's facade hands out are the G_n the transformation used: LibrationPoint.generating_functions(N) wraps each homogeneous
    block G_n in an object of its own; in that object's block list the block must sit at position n (the evaluator reads position d as the degree-d block) and every
    other position must be a zero block.  Interpreted on a model pipeline whose generating functions are five tagged blocks."""
    LS = "hiten.algorithms.types.services.libration"
    mod, cls = ri.find_def(LS, "_LibrationDynamicsService")
    sizes = [1, 6, 21, 56, 126]
    blocks = [to_obj_array([sp.Symbol(f"G{n}_{k}") for k in range(min(sizes[n], 3))]) for n in range(5)]
    built = []
    gen = SymObj(None, {"poly_G": [b.copy() for b in blocks], "poly_elim": [], "degree": 4}, "generating functions (partial)")
    pipeline = SymObj(None, {"get_generating_functions": lambda kind, **kw: gen}, "pipeline")
    cm = SymObj(None, {"compute": lambda *a, **k: None, "dynamics": SymObj(None, {"pipeline": pipeline}, "cm.dynamics")}, "centre manifold")
    dom = SymObj(None, {"idx": 1}, "point")
    svc = SymObj(ClassRef(mod, cls), {"domain_obj": dom, "_domain_obj": dom, "make_key": lambda *a: tuple(map(str, a)), "get_or_create": lambda k, f: f(), "center_manifold": lambda d: cm}, "service")
    ip = Interp(overrides={"LieGeneratingFunction": lambda ip_, a, k: (built.append(dict(k)), SymObj(None, dict(k), "LGF"))[1]})
    try:
        out = ip.apply(ip.getattr(svc, "generating_functions"), [4], {})
    except OutsideFragment as exc:
        raise AnalysisError(f"_LibrationDynamicsService.generating_functions outside fragment: {exc}")
    chk.count("functions partially evaluated")
    bad = []
    for n, kw in enumerate(built):
        pg = kw.get("poly_G")
        ok = isinstance(pg, list) and len(pg) == len(blocks) and list(to_obj_array(pg[n])) == list(blocks[n]) \
            and all(all(S(v) == 0 for v in to_obj_array(pg[d])) and to_obj_array(pg[d]).shape == blocks[d].shape for d in range(len(blocks)) if d != n)
        if not ok:
            bad.append((n, None if pg is None else [list(to_obj_array(b)) for b in pg][:3]))
    chk.check(len(built) == len(blocks) and not bad, "C08.d", f"{LS}::_LibrationDynamicsService.generating_functions",
              f"{len(built)} objects built for {len(blocks)} blocks; in {[b[0] for b in bad]} the degree-n block is not at position n of a full-length block list (e.g. n={bad[0][0]}: "
              f"{bad[0][1]}): evaluating the object reads G_n as the constant term" if bad else f"{len(built)} objects built for {len(blocks)} blocks",
              sample="object n: block list of full length, G_n at position n, zero blocks elsewhere")
