"""Abstract-machine harness for hiten's integration drivers.

A driver is interpreted by the partial evaluator with every callee that touches numerical data replaced by a
logging stub that returns fresh tagged symbols; branch outcomes that depend on such data are taken from *tapes*
(accept/reject of the error test, event-function values).  Time is concrete (rational), states are symbolic.
The result is a trace of abstract calls; rules compare traces with reference protocols and twins with each other.
"""
from __future__ import annotations

import ast

import numpy as np
import sympy as sp

from .core import AnalysisError
from . import repoindex as ri
from .kpe import Interp, SymObj, FuncRef, to_obj_array, S, OutsideFragment, KpeRaise

RK = "hiten.algorithms.integrators.rk"
SY = "hiten.algorithms.integrators.symplectic"
UT = "hiten.algorithms.integrators.utils"

DIM = 2
TABLE_PARAMS = ("A", "B_HIGH", "B_LOW", "C", "E", "E5", "E3", "P", "D", "A_full", "C_full", "n_stages_extended", "interpolator_power")
HAM_PARAMS = ("jac_H", "clmo_H", "n_dof")


def tagvec(prefix, n=DIM):
    return to_obj_array([sp.Symbol(f"{prefix}_{d}", real=True) for d in range(n)])


def vkey(v):
    """Hashable identity of a (symbolic) vector or scalar value."""
    if isinstance(v, np.ndarray):
        return tuple(str(sp.expand(S(x))) for x in v.ravel())
    if isinstance(v, (list, tuple)):
        return tuple(vkey(x) for x in v)
    if v is None or isinstance(v, (str, bool)):
        return v
    try:
        return str(S(v))
    except Exception:  # noqa: BLE001
        return str(v)


_DEFS = {}


def _defs(modname):
    if modname not in _DEFS:
        mod = ri.need_module(modname)
        _DEFS[modname] = {q.split(".")[-1]: fn for q, fn in ri.functions_in(mod)}
    return _DEFS[modname]


class Harness:
    def __init__(self, accept_tape=(), event_tape=(), direction=0, ham=False, h0=sp.Rational(1, 2), reject_factor=sp.Rational(1, 2),
                 refine_stub=True, dense_stub=True):
        self.accept_tape = list(accept_tape)
        self.event_tape = list(event_tape)
        self.direction = direction
        self.ham = ham
        self.h0 = h0
        self.reject_factor = reject_factor
        self.refine_stub = refine_stub
        self.dense_stub = dense_stub
        self.trace = []
        self.n = {"rhs": 0, "step": 0, "event": 0, "dense": 0, "cache": 0, "refine": 0, "errtest": 0}
        self.err_syms = {}
        self.err_conds = []      # (step index, comparison) of the accept/reject tests, for rules about the error norm itself
        shapes = {"A": (3, 3), "B_HIGH": (3,), "B_LOW": (3,), "C": (3,), "E": (4,), "E5": (4,), "E3": (4,), "P": (4, 2), "D": (2, 5),
                  "A_full": (5, 5), "C_full": (5,)}
        self.tables = {}
        for p_, shp in shapes.items():
            arr = np.empty(shp, dtype=object)
            for idx in np.ndindex(shp):
                arr[idx] = sp.Symbol(f"TAB_{p_}_" + "_".join(map(str, idx)))
            self.tables[p_] = arr
        self.tables["n_stages_extended"] = 5
        self.tables["interpolator_power"] = 4
        self.hamtags = {"jac_H": sp.Symbol("JAC_H"), "clmo_H": sp.Symbol("CLMO_H"), "n_dof": sp.Symbol("N_DOF")}
        self.problems = []

    # ------------------------------------------------------------------ stubs
    def rhs(self, t, y):
        k = self.n["rhs"]
        self.n["rhs"] += 1
        self.trace.append(("RHS", vkey(t), vkey(y)))
        return tagvec(f"F{k}")

    def ham_rhs(self, ip, args, kwargs):
        names = ["state", "jac_H", "clmo_H", "n_dof"]
        b = dict(zip(names, args))
        b.update(kwargs)
        for p, key in (("jac_H", "jac_H"), ("clmo_H", "clmo_H"), ("n_dof", "n_dof")):
            if b.get(p) != self.hamtags[key]:
                self.problems.append(f"_hamiltonian_rhs called with {p}={b.get(p)} instead of the system's {key}")
        k = self.n["rhs"]
        self.n["rhs"] += 1
        self.trace.append(("RHS", None, vkey(b["state"])))
        return tagvec(f"F{k}")

    def event(self, t, y):
        k = self.n["event"]
        self.n["event"] += 1
        g = self.event_tape[k] if k < len(self.event_tape) else (self.event_tape[-1] if self.event_tape else sp.Integer(-1))
        self.trace.append(("EVENT", vkey(t), vkey(y), str(g)))
        return sp.sympify(g)

    def _check_tables(self, fname, bound):
        for p, v in bound.items():
            if p in self.tables and p != "B_LOW" and v is not None:
                want = self.tables[p]
                same = (v is want) or (isinstance(v, np.ndarray) and isinstance(want, np.ndarray) and v.shape == want.shape and bool((v == want).all())) \
                    or (not isinstance(want, np.ndarray) and not isinstance(v, np.ndarray) and v == want)
                if not same:
                    self.problems.append(f"{fname} receives a different object for its table parameter {p}")
            if p in self.hamtags and v != self.hamtags[p]:
                self.problems.append(f"{fname} receives {v} for its parameter {p}")

    def step_stub(self, kind, fdef):
        params = [a.arg for a in fdef.args.args]

        def stub(ip, args, kwargs):
            b = dict(zip(params, args))
            b.update(kwargs)
            self._check_tables(fdef.name, b)
            if "f" in b and not callable(b["f"]):
                self.problems.append(f"{fdef.name} called with a non-callable right-hand side")
            k = self.n["step"]
            self.n["step"] += 1
            self.trace.append(("STEP", kind, vkey(b["t"]), vkey(b["y"]), vkey(b["h"])))
            yh, yl, ev = tagvec(f"Y{k}"), tagvec(f"YL{k}"), tagvec(f"E{k}")
            self.err_syms[k] = set(ev) | set(tagvec(f"E5_{k}")) | set(tagvec(f"E3_{k}"))
            K = sp.Symbol(f"K{k}")
            if kind == "embedded":
                return (yh, yl, ev)
            if kind == "rk45":
                return (yh, yl, ev, K)
            return (yh, yl, ev, tagvec(f"E5_{k}"), tagvec(f"E3_{k}"), K)
        return stub

    def error_scale_stub(self):
        """_error_scale(y, y_high, rtol, atol): the tolerances must arrive in their own slots (the formula itself is C02.e)."""
        _, fdef = ri.find_def(UT, "_error_scale")
        params = [a.arg for a in fdef.args.args]

        def stub(ip, args, kwargs):
            b = dict(zip(params, args))
            b.update(kwargs)
            for p in ("rtol", "atol"):
                if p in b and b[p] != sp.Symbol(p, positive=True):
                    self.problems.append(f"_error_scale receives {b[p]} for its parameter {p}")
            return to_obj_array([sp.Symbol("SC0", positive=True), sp.Symbol("SC1", positive=True)])
        return stub

    def simple(self, name, ret):
        def stub(ip, args, kwargs):
            self.trace.append((name,) + tuple(vkey(a) for a in args))
            return ret(args, kwargs) if callable(ret) else ret
        return stub

    def dense_eval(self, name):
        def stub(ip, args, kwargs):
            k = self.n["dense"]
            self.n["dense"] += 1
            self.trace.append((name,) + tuple(vkey(a) for a in list(args) + [kwargs[q] for q in sorted(kwargs)]))
            return tagvec(f"D{k}")
        return stub

    def cache_build(self, name, fdef):
        params = [a.arg for a in fdef.args.args]

        def stub(ip, args, kwargs):
            b = dict(zip(params, args))
            b.update(kwargs)
            self._check_tables(fdef.name, b)
            k = self.n["cache"]
            self.n["cache"] += 1
            keep = {p: vkey(v) for p, v in b.items() if p not in TABLE_PARAMS and p not in HAM_PARAMS and p not in ("f", "dim")}
            self.trace.append((name.replace("_ham", ""), tuple(sorted(keep.items()))))
            return sp.Symbol(f"CACHE{k}")
        return stub

    def refine(self, name, fdef):
        params = [a.arg for a in fdef.args.args]

        def stub(ip, args, kwargs):
            b = dict(zip(params, args))
            b.update(kwargs)
            self._check_tables(fdef.name, b)
            k = self.n["refine"]
            self.n["refine"] += 1
            keep = {p: vkey(v) for p, v in b.items() if p not in TABLE_PARAMS and p not in HAM_PARAMS and p not in ("f", "event_fn")}
            self.trace.append(("REFINE", name.replace("_ham", ""), tuple(sorted(keep.items()))))
            return (sp.Symbol(f"THIT{k}"), tagvec(f"YHIT{k}"))
        return stub

    # ------------------------------------------------------------------ decisions
    def decide(self, cond):
        syms = cond.free_symbols
        for k, es in self.err_syms.items():
            if syms & es:
                if isinstance(cond, (sp.And, sp.Or, sp.Eq)) or (isinstance(cond, sp.Eq)):
                    return False       # "both error estimates are exactly zero": generic data says no
                if isinstance(cond, (sp.Le, sp.Lt, sp.Ge, sp.Gt)):
                    self.err_conds.append((k, cond))
                    if k not in self._decided:
                        i = self.n["errtest"]
                        self.n["errtest"] += 1
                        self._decided[k] = self.accept_tape[i] if i < len(self.accept_tape) else True
                        self.trace.append(("ERRTEST", k, self._decided[k]))
                    acc = self._decided[k]
                    # cond is `err_norm <= 1` (accept) or its negation
                    return acc if isinstance(cond, (sp.Le, sp.Lt)) else (not acc)
                if isinstance(cond, sp.Ne):
                    return True
        if isinstance(cond, sp.Eq):
            return False
        if isinstance(cond, sp.Ne):
            return True
        return None

    # ------------------------------------------------------------------ running
    def overrides(self):
        ov = {}
        defs = _defs(RK)
        for name, kind in (("rk_embedded_step_jit_kernel", "embedded"), ("rk45_step_jit_kernel", "rk45"), ("dop853_step_jit_kernel", "dop853"),
                           ("rk_embedded_step_ham_jit_kernel", "embedded"), ("rk45_step_ham_jit_kernel", "rk45"), ("dop853_step_ham_jit_kernel", "dop853")):
            if name not in defs:
                raise AnalysisError(f"anchor: step kernel {name} not found")
            ov[name] = self.step_stub(kind, defs[name])
        ov["_hamiltonian_rhs"] = self.ham_rhs
        ov["_select_initial_step"] = self.simple("INIT_STEP", self.h0)
        ov["_clamp_step"] = lambda ip, a, k: a[0]
        ov["_pi_accept_factor"] = lambda ip, a, k: sp.Integer(1)
        ov["_pi_reject_factor"] = lambda ip, a, k: self.reject_factor
        ov["_error_scale"] = self.error_scale_stub()
        if self.dense_stub:
            for nm in ("_rk45_eval_dense", "_dop853_eval_dense", "_hermite_eval_dense", "_hermite_eval_dense_symplectic"):
                ov[nm] = self.dense_eval(nm)
            for nm in ("_rk45_build_Q_cache", "_dop853_build_dense_cache", "_dop853_build_dense_cache_ham"):
                if nm in defs:
                    ov[nm] = self.cache_build(nm, defs[nm])
        if self.refine_stub:
            for nm in ("_hermite_refine_in_step", "_rk45_refine_in_step", "_dop853_refine_in_step", "_dop853_refine_in_step_ham"):
                if nm in defs:
                    ov[nm] = self.refine(nm, defs[nm])
            sdefs = _defs(SY)
            if "_hermite_refine_event_symplectic" in sdefs:
                ov["_hermite_refine_event_symplectic"] = self.refine("_hermite_refine_event_symplectic", sdefs["_hermite_refine_event_symplectic"])
        return ov

    def run(self, modname, qualname, grid=None, t0=None, tmax=None, extra=None):
        self._decided = {}
        mod, fn = ri.find_def(modname, qualname)
        params = [a.arg for a in fn.args.args]
        y0 = tagvec("y0")
        vals = {"f": self.rhs, "y0": y0, "event_fn": self.event, "direction": self.direction, "terminal": 1,
                "xtol": sp.Rational(1, 10 ** 9), "gtol": sp.Rational(1, 10 ** 9), "rtol": sp.Symbol("rtol", positive=True), "atol": sp.Symbol("atol", positive=True),
                "max_step": sp.Symbol("max_step", positive=True), "min_step": sp.Symbol("min_step", positive=True), "order": sp.Symbol("ORDER", positive=True),
                "has_b_low": False}
        vals.update(self.tables)
        vals.update(self.hamtags)
        if grid is not None:
            g = to_obj_array([sp.Rational(x) for x in grid])
            vals["t_vals"] = g
            vals["t_eval"] = g
            vals["t_values"] = g
        if t0 is not None:
            vals["t0"], vals["tmax"] = sp.Rational(t0), sp.Rational(tmax)
        vals.update(extra or {})
        missing = [p for p in params if p not in vals]
        if missing:
            raise AnalysisError(f"{qualname}: harness has no binding for parameters {missing}")
        ip = Interp(overrides=self.overrides(), decide=self.decide, max_depth=20)
        try:
            out = ip.apply(FuncRef(mod, fn, qual=qualname), [], {p: vals[p] for p in params})
        except KpeRaise as exc:
            return ("raise", exc.text)
        return ("return", out)
