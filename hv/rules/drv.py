"""Reference protocols for the integration drivers, expressed as expected abstract-call traces.

Each reference is written from the property statements (C02/C10/C11/C17): where steps start, what is committed on
accept, what the event protocol is, how samples are produced.  Comparison is per step segment and order-insensitive
inside a segment, so independent calls may be reordered without a report."""
from __future__ import annotations

from collections import Counter

import numpy as np
import sympy as sp

from ..drivers import Harness, vkey, tagvec, RK, SY

R = sp.Rational


def ref_crossed(g_prev, g_new, direction):
    """Step test (C11.a reference): strict sign change compatible with the direction, or exact zero at the new sample."""
    if g_new == 0:
        return True
    if direction == 0:
        return (g_prev < 0 < g_new) or (g_prev > 0 > g_new)
    if direction > 0:
        return g_prev < 0 < g_new
    return g_prev > 0 > g_new


def _y(k):
    return vkey(tagvec(f"Y{k}"))


def _f(k):
    return vkey(tagvec(f"F{k}"))


Y0 = vkey(tagvec("y0"))


class Ref:
    def __init__(self):
        self.segs = [[]]
        self.nrhs = 0
        self.result = None

    def add(self, *entry):
        self.segs[-1].append(tuple(entry))

    def new_seg(self):
        self.segs.append([])

    def rhs(self, t, y):
        self.add("RHS", vkey(t), y)
        k = self.nrhs
        self.nrhs += 1
        return _f(k)


def ref_fixed(grid, event_tape=None, direction=0):
    grid = [R(x) for x in grid]
    r = Ref()
    f_prev = r.rhs(grid[0], Y0)
    ev = iter(event_tape or [])
    nev = 0
    g_prev = None
    if event_tape is not None:
        g_prev = sp.sympify(event_tape[0])
        r.add("EVENT", vkey(grid[0]), Y0, str(g_prev))
        nev = 1
    y = Y0
    states = [Y0]
    for i in range(len(grid) - 1):
        t, h = grid[i], grid[i + 1] - grid[i]
        r.new_seg()
        r.add("STEP", "embedded", vkey(t), y, vkey(h))
        yn = _y(i)
        f_new = r.rhs(t + h, yn)
        if event_tape is not None:
            g_new = sp.sympify(event_tape[nev] if nev < len(event_tape) else event_tape[-1])
            nev += 1
            r.add("EVENT", vkey(t + h), yn, str(g_new))
            if ref_crossed(g_prev, g_new, direction):
                r.add("REFINE", "_hermite_refine_in_step", tuple(sorted({"t0": vkey(t), "y0": y, "f0": f_prev, "t1": vkey(t + h), "y1": yn, "f1": f_new,
                                                                      "h": vkey(h), "direction": vkey(direction), "xtol": vkey(R(1, 10 ** 9)),
                                                                      "gtol": vkey(R(1, 10 ** 9))}.items())))
                r.result = ("hit", "THIT0", vkey(tagvec("YHIT0")), list(states))
                return r
            g_prev = g_new
        states.append(yn)
        y = yn
        f_prev = f_new
    if event_tape is not None:
        r.result = ("nohit", vkey(grid[-1]), y, list(states))
    else:
        r.result = ("plain", list(states))
    return r


def ref_adaptive(family, accept_tape, t0, tmax, h0, rf, grid=None, event_tape=None, direction=0):
    """family in {'rk45','dop853'}; plain (grid given) or event (event_tape given)."""
    t0, tmax, h = R(t0), R(tmax), R(h0)
    if grid is not None:
        grid = [R(x) for x in grid]
        t0, tmax = grid[0], grid[-1]
    r = Ref()
    f_curr = r.rhs(t0, Y0)
    nev = 0
    g_prev = None
    if event_tape is not None:
        g_prev = sp.sympify(event_tape[0])
        r.add("EVENT", vkey(t0), Y0, str(g_prev))
        nev = 1
    r.add("INIT_STEP",)
    t, y = t0, Y0
    nodes = [(t0, Y0, f_curr)]
    Ks = []
    k = 0
    acc = iter(list(accept_tape) + [True] * 64)
    while t < tmax:
        hs = h if t + h <= tmax else abs(tmax - t)
        r.new_seg()
        r.add("STEP", family, vkey(t), y, vkey(hs))
        a = next(acc)
        r.add("ERRTEST", k, a)
        if a:
            tn, yn = t + hs, _y(k)
            if event_tape is not None:
                if family == "dop853":
                    f_new = r.rhs(tn, yn)
                g_new = sp.sympify(event_tape[nev] if nev < len(event_tape) else event_tape[-1])
                nev += 1
                r.add("EVENT", vkey(tn), yn, str(g_new))
                if ref_crossed(g_prev, g_new, direction):
                    base = {"t0": vkey(t), "y0": y, "t1": vkey(tn), "y1": yn, "h": vkey(hs), "Kseg": f"K{k}", "direction": vkey(direction),
                            "xtol": vkey(R(1, 10 ** 9)), "gtol": vkey(R(1, 10 ** 9))}
                    if family == "dop853":
                        base.update({"f0": f_curr, "f1": f_new})
                        name = "_dop853_refine_in_step"
                    else:
                        name = "_rk45_refine_in_step"
                    r.add("REFINE", name, tuple(sorted(base.items())))
                    r.result = ("hit", "THIT0", vkey(tagvec("YHIT0")), yn)
                    return r
                if family == "rk45":
                    f_new = r.rhs(tn, yn)
                g_prev = g_new
            else:
                f_new = r.rhs(tn, yn)
            t, y, f_curr = tn, yn, f_new
            nodes.append((t, y, f_curr))
            Ks.append(f"K{k}")
            h = hs  # accept factor 1: the (possibly end-adjusted) step is kept
        else:
            h = hs * R(rf)
        k += 1
    if event_tape is not None:
        r.result = ("nohit", vkey(t), y, y)
        return r
    # sampling phase
    r.new_seg()
    last_j = -1
    ncache = 0
    outs = []
    for i, tq in enumerate(grid):
        j = max(0, min(len(nodes) - 2, sum(1 for n in nodes if n[0] <= tq) - 1))
        ta, tb = nodes[j][0], nodes[j + 1][0]
        hseg = tb - ta
        x = (tq - ta) / hseg
        if j != last_j:
            if family == "rk45":
                r.add("_rk45_build_Q_cache", tuple(sorted({"Kseg": Ks[j]}.items())))
            else:
                r.add("_dop853_build_dense_cache", tuple(sorted({"t_old": vkey(ta), "y_old": nodes[j][1], "f_old": nodes[j][2], "y_new": nodes[j + 1][1],
                                                                "f_new": nodes[j + 1][2], "hseg": vkey(hseg), "Kseg": Ks[j]}.items())))
            cache = f"CACHE{ncache}"
            ncache += 1
            last_j = j
        if family == "rk45":
            r.add("_rk45_eval_dense", nodes[j][1], cache, "P", vkey(x), vkey(hseg))
        else:
            r.add("_dop853_eval_dense", nodes[j][1], cache, vkey(4), vkey(x))
        outs.append(vkey(tagvec(f"D{i}")))
    for i, tq in enumerate(grid):
        r.rhs(tq, outs[i])
    r.result = ("plain", outs)
    return r


# ------------------------------------------------------------------------------------------------ comparison
def split(trace):
    segs = [[]]
    for e in trace:
        if e[0] == "STEP":
            segs.append([])
        segs[-1].append(e)
    # sampling phase: starts at the first cache/dense entry after the last step
    last = segs[-1]
    for i, e in enumerate(last):
        if e[0] in ("_rk45_build_Q_cache", "_dop853_build_dense_cache", "_rk45_eval_dense", "_dop853_eval_dense"):
            segs[-1] = last[:i]
            segs.append(last[i:])
            break
    return segs


def norm_entry(e, drop_time):
    if e[0] == "RHS":
        return ("RHS", None if drop_time else e[1], e[2])
    if e[0] == "INIT_STEP":
        return ("INIT_STEP",)
    if e[0] == "_rk45_eval_dense":
        return (e[0], e[1], e[2], "P", e[4], e[5])
    return tuple(e)


def compare(trace, ref, drop_time):
    """None if equal, else a description of the first differing segment."""
    got = split(trace)
    want = ref.segs
    for i in range(max(len(got), len(want))):
        g = Counter(norm_entry(e, drop_time) for e in (got[i] if i < len(got) else []))
        w = Counter(norm_entry(e, drop_time) for e in (want[i] if i < len(want) else []))
        if g != w:
            extra = list((g - w).elements())[:2]
            missing = list((w - g).elements())[:2]
            return f"step segment {i}: unexpected {extra}, missing {missing}"
    return None
