"""Hand-rolled memoisation sites: key completeness.

A *memo site* is a function that both looks a key up in a dict-like container and stores a value under that key
(`c.get(k)` / `k in c` / `c[k]` ... `c[k] = v`).  The value may depend on inputs of the function (parameters, attributes of
self, variables captured by a nested function that is compiled and cached); a later call with different inputs but an
equal key returns the value built for the earlier inputs.  Rule (necessary for "the cached value is the value a fresh
computation would give"):

  every input the stored value is built from reaches the key, and not only through a lossy projection
  (round / type / len / abs / sign / % / //); a key built from a function's __code__ also carries its __closure__ and
  __defaults__ (numba freezes both at compile time).

For containers that live on the instance (assigned in __init__ / a method through self) the instance's own attributes are
implicitly part of the key; their staleness is the invalidation rule's business (C20.e), not this rule's.

The analysis is a flow-insensitive backward slice over the function's own assignments (nested defs contribute their free
variables and default expressions).  It reports, per site, the inputs of the value and how each reaches the key.
"""
from __future__ import annotations

import ast
from dataclasses import dataclass, field

from . import repoindex as ri

LOSSY_CALLS = {"round", "type", "len", "abs", "bool", "floor", "ceil", "sign", "trunc", "around", "rint", "isfinite", "isnan", "any", "all", "min", "max", "sum"}
LOSSY_BINOPS = (ast.Mod, ast.FloorDiv)
FUNC_IDENTITY = {"__code__": ("__closure__", "__defaults__")}


@dataclass
class Site:
    mod: object
    fn: ast.AST
    qual: str
    container: str          # source text of the container expression
    shared: bool            # module-level or class-level container (shared between instances)
    key_expr: ast.AST
    val_expr: ast.AST
    value_roots: dict = field(default_factory=dict)   # path -> True
    key_roots: dict = field(default_factory=dict)     # path -> "whole" | "lossy"
    problems: list = field(default_factory=list)
    notes: list = field(default_factory=list)


def _path(node):
    """Access path 'a.b.c' of a Name/Attribute chain, else None."""
    parts = []
    while isinstance(node, ast.Attribute):
        parts.append(node.attr)
        node = node.value
    if isinstance(node, ast.Name):
        parts.append(node.id)
        return ".".join(reversed(parts))
    return None


class _FnInfo:
    def __init__(self, fn):
        self.fn = fn
        self.params = {a.arg for a in list(fn.args.args) + list(fn.args.kwonlyargs) + list(fn.args.posonlyargs)}
        if fn.args.vararg:
            self.params.add(fn.args.vararg.arg)
        if fn.args.kwarg:
            self.params.add(fn.args.kwarg.arg)
        self.varkw = fn.args.kwarg.arg if fn.args.kwarg else None
        self.assigns = {}      # local name -> [value expr]
        self.nested = {}       # nested def name -> node
        for node in self._own_nodes(fn):
            if isinstance(node, ast.Assign):
                for t in node.targets:
                    self._bind(t, node.value)
            elif isinstance(node, ast.AnnAssign) and node.value is not None:
                self._bind(node.target, node.value)
            elif isinstance(node, ast.AugAssign):
                self._bind(node.target, node.value)
            elif isinstance(node, (ast.For, ast.AsyncFor)):
                self._bind(node.target, node.iter)
            elif isinstance(node, ast.NamedExpr):
                self._bind(node.target, node.value)
            elif isinstance(node, (ast.With, ast.AsyncWith)):
                for it in node.items:
                    if it.optional_vars is not None:
                        self._bind(it.optional_vars, it.context_expr)
            elif isinstance(node, (ast.FunctionDef, ast.AsyncFunctionDef, ast.Lambda)) and node is not fn:
                if hasattr(node, "name"):
                    self.nested[node.name] = node

    def _bind(self, target, value):
        if isinstance(target, ast.Name):
            self.assigns.setdefault(target.id, []).append(value)
        elif isinstance(target, (ast.Tuple, ast.List)):
            for e in target.elts:
                self._bind(e, value)

    @staticmethod
    def _own_nodes(fn):
        """Nodes of fn's body, not descending into nested function bodies (they are visited through `nested`)."""
        stack = list(fn.body)
        while stack:
            n = stack.pop()
            yield n
            if isinstance(n, (ast.FunctionDef, ast.AsyncFunctionDef, ast.Lambda, ast.ClassDef)):
                continue
            stack.extend(ast.iter_child_nodes(n))


def _free_names_of_def(d):
    """Expressions a nested def's behaviour depends on from the enclosing scope: default expressions + free Load names."""
    local = {a.arg for a in list(d.args.args) + list(d.args.kwonlyargs) + list(d.args.posonlyargs)}
    if d.args.vararg:
        local.add(d.args.vararg.arg)
    if d.args.kwarg:
        local.add(d.args.kwarg.arg)
    body = d.body if isinstance(d.body, list) else [d.body]
    for n in ast.walk(ast.Module(body=body, type_ignores=[])) if isinstance(d.body, list) else ast.walk(d.body):
        if isinstance(n, ast.Name) and isinstance(n.ctx, ast.Store):
            local.add(n.id)
    exprs = list(d.args.defaults) + [x for x in d.args.kw_defaults if x is not None]
    frees = []
    nodes = ast.walk(ast.Module(body=body, type_ignores=[])) if isinstance(d.body, list) else ast.walk(d.body)
    for n in nodes:
        if isinstance(n, ast.Name) and isinstance(n.ctx, ast.Load) and n.id not in local:
            frees.append(n)
    return exprs, frees


class _Subst(ast.NodeTransformer):
    def __init__(self, mapping):
        self.mapping = mapping

    def visit_Name(self, node):
        if isinstance(node.ctx, ast.Load) and node.id in self.mapping:
            return self.mapping[node.id]
        return node


def _inline_helper(call, info):
    """`self.m(args)` / `Class.m(args)` where m is a one-expression helper of the enclosing class: the returned expression with
    the arguments substituted (so that a key built through a helper is analysed like the expression it stands for)."""
    f = call.func
    if not (isinstance(f, ast.Attribute) and isinstance(f.value, ast.Name)):
        return None
    cls = getattr(info.fn, "_parent", None)
    while cls is not None and not isinstance(cls, ast.ClassDef):
        cls = getattr(cls, "_parent", None)
    if cls is None or f.value.id not in ("self", "cls", cls.name):
        return None
    m = next((x for x in cls.body if isinstance(x, ast.FunctionDef) and x.name == f.attr), None)
    if m is None:
        return None
    body = [st for st in m.body if not (isinstance(st, ast.Expr) and isinstance(st.value, ast.Constant) and isinstance(st.value.value, str))]
    if len(body) != 1 or not isinstance(body[0], ast.Return) or body[0].value is None:
        return None
    params = [a.arg for a in m.args.args]
    decos = [ast.unparse(d) for d in m.decorator_list]
    if "staticmethod" not in decos and params and params[0] in ("self", "cls"):
        params = params[1:]
    if len(call.args) != len(params) or call.keywords:
        return None
    from .sites import _clone
    return _Subst({k: _clone(v) for k, v in zip(params, call.args)}).visit(_clone(body[0].value))


_CONST_PROPS = {}


def class_constant_attr(attr):
    """True when every concrete definition of a property `attr` in the package returns a literal (e.g. LibrationPoint.idx):
    such a projection says which class an object belongs to, nothing about the instance."""
    if attr not in _CONST_PROPS:
        defs = []
        for m in ri.all_modules():
            if attr not in m.source:
                continue
            for q, fn in ri.functions_in(m):
                if fn.name == attr and "property" in ri.decorators(fn) and not any("abstractmethod" in d for d in ri.decorators(fn)):
                    rets = [r.value for r in ast.walk(fn) if isinstance(r, ast.Return)]
                    defs.append(bool(rets) and all(isinstance(r, ast.Constant) for r in rets))
        _CONST_PROPS[attr] = bool(defs) and all(defs)
    return _CONST_PROPS[attr]


def _roots(expr, info: _FnInfo, mode="whole", out=None, seen=None, depth=0):
    """Backward slice of `expr` to the function's inputs.  out: path -> mode ('whole' dominates 'lossy')."""
    out = {} if out is None else out
    seen = set() if seen is None else seen
    called = info.__dict__.setdefault("called", set())
    if expr is None or depth > 40:
        return out

    def add(path, m):
        if out.get(path) != "whole":
            out[path] = m

    def visit(e, m):
        if isinstance(e, ast.Call):
            fname = ast.unparse(e.func).split(".")[-1]
            if fname == "getattr" and len(e.args) >= 2 and isinstance(e.args[1], ast.Constant) and isinstance(e.args[1].value, str):
                p = _path(e.args[0])
                if p is not None:
                    visit(ast.Attribute(value=e.args[0], attr=e.args[1].value, ctx=ast.Load()), m)
                    return
            inl = _inline_helper(e, info)
            if inl is not None:
                visit(inl, m)
                return
            m2 = "lossy" if fname in LOSSY_CALLS else m
            if fname in ("repr", "str", "format") and e.args:
                # the text of an object is whatever its __repr__/__str__ prints (7 digits of mu, say): lossy unless the
                # argument is declared to be a string already
                a0 = e.args[0]
                ann = None
                if isinstance(a0, ast.Name):
                    ann = next((ast.unparse(p_.annotation) for p_ in info.fn.args.args + info.fn.args.kwonlyargs if p_.arg == a0.id and p_.annotation is not None), None)
                if ann not in ("str", "'str'"):
                    m2 = "lossy"
            for a in e.args:
                visit(a.value if isinstance(a, ast.Starred) else a, m2)
            for k in e.keywords:
                visit(k.value, m2)
            # a method call on an object depends on the object
            if isinstance(e.func, ast.Attribute):
                visit(e.func.value, m2)
            elif isinstance(e.func, ast.Name) and e.func.id in info.params:
                # a parameter that is *called* to produce the value is the computation being memoised (factory idiom),
                # not data the value is built from; what it closes over is the caller's business (C20.b/c)
                called.add(e.func.id)
            elif isinstance(e.func, ast.Name) and (e.func.id in info.assigns or e.func.id in info.nested):
                visit(e.func, m2)
            elif isinstance(e.func, ast.Call):
                visit(e.func, m2)
            return
        if isinstance(e, ast.BinOp) and isinstance(e.op, LOSSY_BINOPS):
            visit(e.left, "lossy")
            visit(e.right, "lossy")
            return
        p = _path(e) if isinstance(e, (ast.Name, ast.Attribute)) else None
        if p is not None:
            head = p.split(".")[0]
            if head in info.params:
                add(p, "lossy" if (m == "whole" and "." in p and class_constant_attr(p.split(".")[-1])) else m)
                return
            if head in info.nested and (head, m) not in seen:
                seen.add((head, m))
                exprs, frees = _free_names_of_def(info.nested[head])
                for x in exprs + frees:
                    visit(x, m)
                return
            if head in info.assigns:
                if (p, m) in seen:
                    return
                seen.add((p, m))
                rest = p.split(".")[1:]
                for v in info.assigns[head]:
                    if rest:
                        # attribute of a local alias: x = self._flip ; x.start  ->  self._flip.start
                        vp = _path(v) if isinstance(v, (ast.Name, ast.Attribute)) else None
                        if vp is not None:
                            node = v
                            for r in rest:
                                node = ast.Attribute(value=node, attr=r, ctx=ast.Load())
                            visit(node, m)
                            continue
                    visit(v, m)
                return
            return  # module-level name / builtin / import: a constant of the program
        if isinstance(e, ast.JoinedStr):
            for v in e.values:
                if isinstance(v, ast.FormattedValue):
                    ann = None
                    if isinstance(v.value, ast.Name):
                        ann = next((ast.unparse(p_.annotation) for p_ in info.fn.args.args + info.fn.args.kwonlyargs if p_.arg == v.value.id and p_.annotation is not None), None)
                    plain = v.format_spec is None and (isinstance(v.value, ast.Constant) or ann in ("str", "'str'", "int", "'int'"))
                    visit(v.value, m if plain else "lossy")
            return
        if isinstance(e, ast.Lambda):
            exprs, frees = _free_names_of_def(e)
            for x in exprs + frees:
                visit(x, m)
            return
        for c in ast.iter_child_nodes(e):
            if isinstance(c, (ast.expr, ast.comprehension, ast.keyword, ast.Starred)):
                visit(c, m)

    visit(expr, mode)
    return out


def _container_kind(mod, fn, cont):
    """('module'|'class'|'instance'|None, text) for a container expression."""
    text = ast.unparse(cont)
    if isinstance(cont, ast.Name):
        for st in mod.tree.body:
            tg = st.targets[0] if isinstance(st, ast.Assign) else (st.target if isinstance(st, ast.AnnAssign) else None)
            if isinstance(tg, ast.Name) and tg.id == cont.id:
                return "module", text
        return None, text
    if isinstance(cont, ast.Attribute) and isinstance(cont.value, ast.Name) and cont.value.id not in ("self", "cls"):
        # ClassName.attr: a class-level container named through its class
        for st in mod.tree.body:
            if isinstance(st, ast.ClassDef) and st.name == cont.value.id:
                return "class", text
        return None, text
    if isinstance(cont, ast.Attribute) and isinstance(cont.value, ast.Name) and cont.value.id in ("self", "cls"):
        cls = getattr(fn, "_parent", None)
        while cls is not None and not isinstance(cls, ast.ClassDef):
            cls = getattr(cls, "_parent", None)
        if cls is not None:
            for c in [cls] + [b[1] for b in _bases(mod, cls)]:
                for st in c.body:
                    tg = st.targets[0] if isinstance(st, ast.Assign) else (st.target if isinstance(st, ast.AnnAssign) else None)
                    if isinstance(tg, ast.Name) and tg.id == cont.attr:
                        return "class", text
        return "instance", text
    return None, text


def _bases(mod, cls):
    try:
        return [(m, c) for m, c in ri.mro(mod, cls)[1:]]
    except Exception:  # noqa: BLE001
        return []


def _alias_of_container(fn, name):
    """`name = <container>.setdefault(k, {})` / `<container>[k]` / `<container>.get(k, ...)`: (container expr, outer key) or None."""
    for n in _FnInfo._own_nodes(fn):
        if isinstance(n, ast.Assign) and len(n.targets) == 1 and isinstance(n.targets[0], ast.Name) and n.targets[0].id == name:
            v = n.value
            if isinstance(v, ast.Call) and isinstance(v.func, ast.Attribute) and v.func.attr in ("setdefault", "get") and v.args:
                return v.func.value, v.args[0]
            if isinstance(v, ast.Subscript):
                return v.value, v.slice
    return None


def find_sites(mod):
    sites = []
    for qual, fn in ri.functions_in(mod):
        stores, lookups = [], []
        for n in _FnInfo._own_nodes(fn):
            if isinstance(n, ast.Assign) and len(n.targets) == 1 and isinstance(n.targets[0], ast.Subscript):
                stores.append((n.targets[0].value, n.targets[0].slice, n.value))
            if isinstance(n, ast.Call) and isinstance(n.func, ast.Attribute) and n.func.attr in ("get", "setdefault") and n.args:
                lookups.append((n.func.value, n.args[0]))
            if isinstance(n, ast.Compare) and len(n.ops) == 1 and isinstance(n.ops[0], (ast.In, ast.NotIn)):
                lookups.append((n.comparators[0], n.left))
            if isinstance(n, ast.Subscript) and isinstance(n.ctx, ast.Load):
                lookups.append((n.value, n.slice))
        if not stores or not lookups:
            continue
        info = None
        for cont, key, val in stores:
            ctext = ast.unparse(cont)
            ktext = ast.unparse(key)
            if not any(ast.unparse(c) == ctext and ast.unparse(k) == ktext for c, k in lookups):
                continue
            kind, text = _container_kind(mod, fn, cont)
            if kind is None and isinstance(cont, ast.Name):
                al = _alias_of_container(fn, cont.id)
                if al is not None:
                    kind, text = _container_kind(mod, fn, al[0])
                    if kind is not None:
                        key = ast.Tuple(elts=[al[1], key], ctx=ast.Load())     # two-level cache: effective key = (outer, inner)
                        text = f"{text}[...]"
            if kind is None:
                continue
            # local dict literals / arrays are not caches: the container must outlive the call
            info = info or _FnInfo(fn)
            sites.append(Site(mod=mod, fn=fn, qual=qual, container=text, shared=kind in ("module", "class"), key_expr=key, val_expr=val))
    return sites


def find_slot_sites(mod):
    """Single-slot memos: `if <param> is self._last_a and ...: return <... self._last_v ...>` ... `self._last_v = value`.
    The key is the tuple of compared parameters, the value what is stored in the slot the early return hands back."""
    sites = []
    for qual, fn in ri.functions_in(mod):
        if not (fn.args.args and fn.args.args[0].arg == "self"):
            continue
        params = {a.arg for a in fn.args.args[1:] + fn.args.kwonlyargs}
        for node in _FnInfo._own_nodes(fn):
            if not isinstance(node, ast.If):
                continue
            rets = [r for st in node.body for r in ast.walk(st) if isinstance(r, ast.Return) and r.value is not None]
            if not rets:
                continue
            slots = {a.attr for r in rets for a in ast.walk(r.value) if isinstance(a, ast.Attribute) and isinstance(a.value, ast.Name) and a.value.id == "self"}
            compared = []
            for c in ast.walk(node.test):
                if isinstance(c, ast.Compare) and len(c.ops) == 1 and isinstance(c.ops[0], (ast.Is, ast.Eq)):
                    sides = [c.left, c.comparators[0]]
                    attr = next((x for x in sides if isinstance(x, ast.Attribute) and isinstance(x.value, ast.Name) and x.value.id == "self"), None)
                    other = next((x for x in sides if x is not attr), None)
                    if attr is not None and other is not None and any(isinstance(n, ast.Name) and n.id in params for n in ast.walk(other)):
                        compared.append(other)
            if not compared or not slots:
                continue
            for st in _FnInfo._own_nodes(fn):
                if isinstance(st, ast.Assign) and len(st.targets) == 1 and isinstance(st.targets[0], ast.Attribute) and isinstance(st.targets[0].value, ast.Name) \
                        and st.targets[0].value.id == "self" and st.targets[0].attr in slots and st.lineno > node.lineno:
                    key = ast.Tuple(elts=list(compared), ctx=ast.Load())
                    sites.append(Site(mod=mod, fn=fn, qual=qual, container=f"self.{st.targets[0].attr} (single slot)", shared=False, key_expr=key, val_expr=st.value))
    return sites


def analyse(site: Site):
    info = _FnInfo(site.fn)
    site.value_roots = _roots(site.val_expr, info)
    site.key_roots = _roots(site.key_expr, info)
    probs = []
    for vr in sorted(site.value_roots):
        head = vr.split(".")[0]
        if head in ("self", "cls") and not site.shared:
            continue          # instance container: the instance's attributes are implicit in the key
        if vr == info.varkw:
            site.notes.append(f"catch-all **{vr} is forwarded to the computation but is not part of the key")
            continue
        if vr in ("self", "cls"):
            if site.shared and not any(k == vr or k.startswith(vr + ".") for k in site.key_roots):
                probs.append((vr, "the value is built by a method of the instance but no attribute of the instance reaches the key of a container shared between instances"))
            continue
        related = {k: m for k, m in site.key_roots.items() if k == vr or vr.startswith(k + ".") or k.startswith(vr + ".")}
        if not related:
            probs.append((vr, "does not reach the key"))
            continue
        if all(m == "lossy" for m in related.values()):
            probs.append((vr, "reaches the key only through a lossy projection (" + ", ".join(sorted(related)) + ")"))
            continue
        # function identity through dunder projections
        for k in related:
            last = k.split(".")[-1]
            if last in FUNC_IDENTITY and k.startswith(vr + "."):
                missing = [d for d in FUNC_IDENTITY[last] if vr + "." + d not in site.key_roots]
                if missing and vr not in site.key_roots:
                    probs.append((vr, f"is identified by {last} without {', '.join(missing)} (values numba freezes into the compiled function)"))
    site.problems = probs
    return site


def check_modules(chk, rule, modnames, floor=None, what=None):
    """Apply the key-completeness rule to every memo site of the given modules; returns the sites."""
    found = []
    for mn in modnames:
        mod = ri.need_module(mn)
        for s in find_sites(mod) + find_slot_sites(mod):
            analyse(s)
            found.append(s)
            construct = f"{mn}::{s.qual}[memo {s.container}]"
            msg = "; ".join(f"input `{r}` {why}" for r, why in s.problems)
            for nt in s.notes:
                chk.note(f"{construct}: {nt}")
            chk.check(not s.problems, rule, construct,
                      f"cached value does not depend only on its key: {msg}. key = {ast.unparse(s.key_expr)[:120]} (inputs of the key: {sorted(s.key_roots)})",
                      sample=f"{s.qual}: value inputs {sorted(s.value_roots)} all reach key {ast.unparse(s.key_expr)[:60]}")
    if floor is not None:
        chk.floor(what or f"hand-rolled memo sites in {', '.join(m.split('.')[-1] for m in modnames)}", len(found), floor)
    return found
