"""C20 — cached and reloaded objects always reflect their current logical state.

The quantifier is over operation histories; a stale / aliased value can only come from a short list of static causes,
each a rule over the memoisation sites (get_or_create / make_key) of the service classes:
 a  make_key is injective on what it is built from (dict-valued components must keep their values)
 b  keys are complete w.r.t. the enclosing method's parameters that the factory reads
 c  memoised factories are pure (no attribute of self / the domain object written, directly or through self-methods)
 d  memo values are not shared mutable singletons (factory returns an attribute it has just mutated)
 e  every method that assigns an attribute read by a memoised factory invalidates the cache (reset) alongside
 f  tags separate quantities: key expressions of one cache are pairwise non-unifiable
 g  identity-keyed hand-rolled caches keep their referent alive
 h  reload rebuilds services: every concrete _HitenBase subclass's __setstate__ calls _setup_services
Save/load round trip (reflective pickling): not decidable as a whole; two structural necessary conditions are (round 3):
 h  the save filter accepts every state slot of every dynamics service; services of a bundle that are not the saved source hold no settable state

b (added)  sibling rule: an attribute other keys of the class contain must be keyed / invalidated wherever a factory reads it
e (added)  keyed (partial) resets must cover every dependent tag; recorded slots (self.x = get_or_create(...)) are cleared with the cache
h (added)  reset() overrides write nothing but the cache (the load path calls reset() after restoring state)
i  hand-rolled caches anywhere in the package: key completeness (hv.memo)
b (round 3)  a parameter enters the key whole: no lossy projection (round, //, len, ...), no selection of fields of an object the factory hands on whole
h (round 5)  __setstate__ hooks leave the parked computed state (_computed_properties_to_restore) alone
d (round 4)  create_* methods of the services never memoise the object they create
f (round 4)  no `numeric_parameter or default` (0 is a value); facade -> service argument binding over the whole facade (rules/common.py)
h (round 4)  load_*_inplace adopts the loaded object's whole attribute dictionary or rebuilds the services
e (round 3)  what a factory reads is followed through properties (lazy helpers built from configuration): a setter that replaces the configuration
   drops the results computed with the old one; an `if` guarding the invalidation in a setter compares exactly (no tolerance)
"""
from __future__ import annotations

import ast
import itertools

import sympy as sp

from ..core import Check, AnalysisError
from .. import repoindex as ri
from ..kpe import Interp, SymObj, ClassRef, FuncRef, OutsideFragment, KpeRaise, Opaque, to_obj_array

SB = "hiten.algorithms.types.services.base"
SERVICE_PKG = "hiten.algorithms.types.services"

# parameters that legitimately do not enter a key (confirmed by reading; one line of reason each)
KEY_EXEMPT_PARAMS = {
    ("manifold", "compute_manifold", "show_progress"): "display only: a progress bar does not change the computed manifold",
}


def run(tier):
    chk = Check("C20", tier, "other",
                "make_key/_make_hashable is interpreted on nested option dictionaries (keys must differ when a nested value "
                "differs); every get_or_create site of the service classes is enumerated from the syntax tree and checked by "
                "who-reads / who-writes rules (key completeness, factory purity, aliasing, invalidation next to every assignment "
                "of a factory-read attribute, pairwise non-unifiable key tags); identity-keyed caches and __setstate__ hooks are "
                "checked structurally. Holds for every operation history because each rule is history-independent.",
                trusted_base=["python ast", "hv.kpe", "frozen exemption table KEY_EXEMPT_PARAMS"])
    sites = _sites()
    chk.floor("get_or_create sites", len(sites), 30)
    _a_hashable(chk, sites)
    _b_key_params(chk, sites)
    _b_keyed_state(chk, sites)
    _b_identity_keys(chk, sites)
    _c_purity(chk, sites)
    _d_aliasing(chk, sites)
    _d_callers_mutate(chk, sites)
    _d_create_is_fresh(chk)
    _e_invalidation(chk, sites)
    _e_lazy_slots(chk)
    _e_setter_guards(chk)
    # ... decided semantically for the one float-valued slot with a setter: an orbit's period changed by 1e-7 drops the cache
    from . import c05
    from .common import Relabel
    c05._d_period_setter(Relabel(chk, {"C05.d": "C20.e"}))
    _f_tags(chk, sites)
    _f_falsy_defaults(chk)
    _g_identity(chk)
    _h_reload(chk)
    _i_hand_rolled(chk)
    # the public facade binds every argument to the service parameter it is meant for (nominal swap rule, rules/common.py)
    from . import common as _common
    _common.facade_bindings(chk, "C20.f-facade", ['hiten.system'], floor=50)
    return chk


def _i_hand_rolled(chk):
    """Hand-rolled caches (dicts looked up and filled in one function) anywhere in the package: key completeness (hv.memo)."""
    from .. import memo
    mods = [m.name for m in ri.all_modules() if "_tests" not in m.name and ".tests" not in m.name]
    memo.check_modules(chk, "C20.i", mods, floor=6, what="hand-rolled memo sites in the package")


# ------------------------------------------------------------------------------------------------ site enumeration
class Site:
    def __init__(self, mod, cls, method, call, key_expr, factory):
        self.mod, self.cls, self.method, self.call, self.key_expr, self.factory = mod, cls, method, call, key_expr, factory

    @property
    def name(self):
        return f"{self.mod.name}::{self.cls.name}.{self.method.name}"


def _all_service_modules():
    return [m for m in ri.all_modules() if m.name.startswith(SERVICE_PKG + ".")]


def _service_modules():
    return [m for m in ri.all_modules() if m.name.startswith(SERVICE_PKG + ".") and "get_or_create" in m.source]


def _sites():
    out = []
    for m in _service_modules():
        for cls in [c for c in m.tree.body if isinstance(c, ast.ClassDef)]:
            for meth in [f for f in cls.body if isinstance(f, ast.FunctionDef)]:
                for call in [c for c in ast.walk(meth) if isinstance(c, ast.Call) and isinstance(c.func, ast.Attribute) and c.func.attr == "get_or_create"
                             and isinstance(c.func.value, ast.Name) and c.func.value.id == "self"]:
                    if len(call.args) < 2:
                        continue
                    key, fac = call.args[0], call.args[1]
                    key_expr = key
                    if isinstance(key, ast.Name):
                        for st in ast.walk(meth):
                            if isinstance(st, ast.Assign) and any(isinstance(t, ast.Name) and t.id == key.id for t in st.targets):
                                key_expr = st.value
                    factory = fac
                    if isinstance(fac, ast.Name):
                        factory = next((f for f in ast.walk(meth) if isinstance(f, ast.FunctionDef) and f.name == fac.id), None)
                    if factory is None:
                        raise AnalysisError(f"factory of {m.name}::{cls.name}.{meth.name} not resolvable")
                    out.append(Site(m, cls, meth, call, key_expr, factory))
    return out


def _key_args(site):
    ke = site.key_expr
    if isinstance(ke, ast.Call) and isinstance(ke.func, ast.Attribute) and ke.func.attr == "make_key":
        return list(ke.args)
    return None


# ------------------------------------------------------------------------------------------------ a
def _a_hashable(chk, sites):
    mod, cls = ri.find_def(SB, "_CacheServiceBase")
    cache = SymObj(ClassRef(mod, cls), {"_cache": {}}, "cache")

    def make(*args):
        ip = Interp()
        # hash() of an unhashable value raises TypeError
        return ip.apply(ip.getattr(cache, "make_key"), list(args), {})

    def strip(k):
        return tuple(x for x in k if not isinstance(x, Opaque))

    base = {"tol": sp.Rational(1, 10 ** 12), "max_attempts": 50}
    d1 = {"base": {"convergence": dict(base), "integration": {"order": 8}}, "forward": 1}
    d2 = {"base": {"convergence": dict(base, tol=sp.Rational(1, 1000)), "integration": {"order": 8}}, "forward": 1}
    d3 = {"base": {"convergence": dict(base), "integration": {"order": 4}}, "forward": 1}
    try:
        k1 = strip(make("correct", tuple(sorted(d1.items()))))
        k2 = strip(make("correct", tuple(sorted(d2.items()))))
        k3 = strip(make("correct", tuple(sorted(d3.items()))))
        k4 = strip(make("propagate", 100, {"rtol": sp.Rational(1, 10 ** 9)}))
        k5 = strip(make("propagate", 100, {"rtol": sp.Rational(1, 10 ** 3)}))
    except OutsideFragment as exc:
        raise AnalysisError(f"make_key left the analysable fragment: {exc}")
    chk.count("functions partially evaluated", 5)
    dict_sites = []
    for s in sites:
        args = _key_args(s) or []
        txt = " ".join(ast.unparse(a) for a in args)
        if "to_dict()" in txt or "kwargs" in txt:
            dict_sites.append(s.name)
    # arrays (states, grids) that differ in one entry below printing precision, and long arrays that differ in the middle
    try:
        a1 = to_obj_array([sp.Rational(1, 3), sp.Rational(2, 1)])
        a2 = to_obj_array([sp.Rational(1, 3), sp.Rational(2, 1) + sp.Rational(1, 10 ** 12)])
        ka1, ka2 = strip(make("propagate", a1, 5)), strip(make("propagate", a2, 5))
        n_long = 1200
        b1 = to_obj_array([sp.Integer(i) for i in range(n_long)])
        b2 = b1.copy()
        b2[n_long // 2] = sp.Integer(-1)
        kb1, kb2 = strip(make("propagate", b1)), strip(make("propagate", b2))
    except OutsideFragment as exc:
        raise AnalysisError(f"make_key left the analysable fragment on array arguments: {exc}")
    chk.check(ka1 != ka2 and kb1 != kb2, "C20.a", f"{SB}::_CacheServiceBase.make_key[array argument]",
              "two arrays that differ in one entry (by 1e-12, or in the middle of a 1200-element array) produce the same cache key: arrays must enter the key element by element, "
              "not through a text rendering (numpy prints 8 digits and elides long arrays)", sample="keys differ for arrays differing in one entry")
    chk.check(k1 != k2 and k1 != k3, "C20.a", f"{SB}::_CacheServiceBase.make_key[nested options]",
              f"two option sets that differ only in a nested value (tol 1e-12 vs 1e-3; order 8 vs 4) produce the same cache key {k1}: _make_hashable reduces a dict to the "
              f"tuple of its keys, so the second request is served the first result. Sites whose keys carry option dictionaries: {dict_sites}",
              sample=f"keys differ for nested option values; {len(dict_sites)} sites rely on it")
    chk.check(k4 != k5, "C20.a", f"{SB}::_CacheServiceBase.make_key[dict argument]",
              f"a dict-valued key component loses its values: {k4} == {k5} (e.g. System.propagate extra_kwargs)", sample="dict components keep their values")
    chk.floor("sites whose keys carry option dictionaries", len(dict_sites), 6)


# ------------------------------------------------------------------------------------------------ helpers on factories
def _names_loaded(node):
    return {n.id for n in ast.walk(node) if isinstance(n, ast.Name) and isinstance(n.ctx, ast.Load)}


def _self_attr_stores(node):
    out = []
    for n in ast.walk(node):
        tg = []
        if isinstance(n, ast.Assign):
            tg = n.targets
        elif isinstance(n, (ast.AugAssign, ast.AnnAssign)):
            tg = [n.target]
        for t in tg:
            for tt in (t.elts if isinstance(t, ast.Tuple) else [t]):
                b = tt
                while isinstance(b, ast.Subscript):
                    b = b.value
                if isinstance(b, ast.Attribute):
                    root = b
                    chain = []
                    while isinstance(root, ast.Attribute):
                        chain.append(root.attr)
                        root = root.value
                    if isinstance(root, ast.Name) and root.id == "self":
                        out.append(".".join(reversed(chain)))
    return out


def _self_method_calls(node):
    out = []
    for n in ast.walk(node):
        if isinstance(n, ast.Call) and isinstance(n.func, ast.Attribute) and isinstance(n.func.value, ast.Name) and n.func.value.id == "self":
            out.append(n.func.attr)
    return out


def _effects(site, node, depth=0, seen=None):
    """Attributes of self written by `node` directly or through self.method() calls (depth-bounded)."""
    seen = seen if seen is not None else set()
    eff = set(_self_attr_stores(node))
    if depth >= 3:
        return eff
    for name in _self_method_calls(node):
        if name in ("get_or_create", "make_key", "reset") or (name, depth) in seen:
            continue
        seen.add((name, depth))
        hit = ri.class_member(site.mod, site.cls, name)
        if hit is not None and isinstance(hit[2], ast.FunctionDef):
            # a nested memoised call is itself a cache lookup: its factory's effects are that site's business
            body = hit[2]
            inner = set(_self_attr_stores(body))
            # stores inside nested factories of that method are excluded (they are other sites)
            nested = [f for f in ast.walk(body) if isinstance(f, ast.FunctionDef) and f is not body]
            for f in nested:
                inner -= set(_self_attr_stores(f))
            eff |= {f"{name}(): {a}" for a in inner}
            eff |= {e for e in _effects(site, ast.Module(body=[s for s in body.body if not isinstance(s, ast.FunctionDef)], type_ignores=[]), depth + 1, seen)}
        # setters used as `self.prop = value` are attribute stores already counted
    return eff


# ------------------------------------------------------------------------------------------------ b
def _b_key_params(chk, sites):
    for s in sites:
        args = _key_args(s)
        if args is None:
            chk.note(f"{s.name}: key is not built with make_key ({ast.unparse(s.key_expr)[:60]})")
            continue
        params = [a.arg for a in s.method.args.args + s.method.args.kwonlyargs if a.arg not in ("self", "cls")]
        key_names = set()
        for a in args:
            key_names |= _names_loaded(a)
        read = _names_loaded(s.factory) if not isinstance(s.factory, ast.Lambda) else _names_loaded(s.factory.body)
        # names rebound inside the method before the factory (e.g. options = options or default) still denote the parameter
        missing = []
        for p in params:
            if p in read and p not in key_names:
                short_mod = s.mod.name.split(".")[-1]
                if (short_mod, s.method.name, p) in KEY_EXEMPT_PARAMS:
                    continue
                missing.append(p)
        # a parameter that enters the key only through a lossy projection (round, int division, len, type, ...) does not
        # determine the cached value: two calls with different values share the entry (hv.memo's slice, on the key expression)
        from .. import memo
        info = memo._FnInfo(s.method)
        modes = {}
        for a in args:
            memo._roots(a, info, out=modes)
        lossy = [p for p in params if p in read and p not in missing and any(k.split(".")[0] == p for k in modes)
                 and not any(m == "whole" for k, m in modes.items() if k.split(".")[0] == p)]
        # a parameter object the factory hands on whole (or whose field it reads) must enter the key whole (p, p.to_dict(), ...)
        # or with that field: a key assembled from selected fields forgets the others
        fnode = s.factory if not isinstance(s.factory, ast.Lambda) else s.factory.body
        partial = []
        for p in params:
            if p in missing or p in lossy or p not in read:
                continue
            kpaths = {k for k, m in modes.items() if k.split(".")[0] == p and m == "whole"}
            if p in kpaths:
                continue
            used = set()
            for n_ in ast.walk(fnode):
                if isinstance(n_, ast.Name) and n_.id == p and isinstance(n_.ctx, ast.Load):
                    par = getattr(n_, "_parent", None)
                    used.add(f"{p}.{par.attr}" if isinstance(par, ast.Attribute) and par.value is n_ else p)
            lack = sorted(u for u in used if u != p and not any(u == k or u.startswith(k + ".") for k in kpaths))
            if p in used and kpaths:
                partial.append(f"{p} (whole object used, key has only {sorted(kpaths)[:4]}{'...' if len(kpaths) > 4 else ''})")
            elif lack and kpaths:
                partial.append(f"{','.join(lack)}")
        if partial:
            chk.fail("C20.b", f"{s.name}[key covers part of {','.join(x.split(' ')[0] for x in partial)}]",
                     f"the memoised factory of {s.method.name}() depends on {partial} but the cache key {ast.unparse(s.key_expr)[:120]} is assembled from selected fields only: "
                     f"two calls that differ in a field left out share one entry")
        if lossy:
            chk.fail("C20.b", f"{s.name}[key quantises {','.join(lossy)}]",
                     f"parameter(s) {lossy} of {s.method.name}() enter the cache key {ast.unparse(s.key_expr)[:100]} only through a lossy projection while the factory "
                     f"reads them whole: calls with different values share one entry")
        chk.check(not missing, "C20.b", f"{s.name}[key params]" if not missing else f"{s.name}[key lacks {','.join(missing)}]",
                  f"the memoised factory reads parameter(s) {missing} of {s.method.name}() that do not enter the cache key {ast.unparse(s.key_expr)[:100]}: a later call with different "
                  f"values is served the first result", sample=f"{s.method.name}: every parameter the factory reads ({[p for p in params if p in read]}) occurs in the key",
                  nontrivial=bool([p for p in params if p in read]))


def _prop_reads(mod, cls, attr, seen=None, depth=0):
    """Attributes of self reached by reading self.<attr>: the attribute itself and, when it is a property, what its getter
    reads (transitively through properties only; method calls are not followed)."""
    seen = set() if seen is None else seen
    if attr in seen or depth > 6:
        return seen
    seen.add(attr)
    hit = ri.class_member(mod, cls, attr)
    if hit is not None and isinstance(hit[2], ast.FunctionDef) and "property" in ri.decorators(hit[2]):
        inner = [f for f in ast.walk(hit[2]) if isinstance(f, (ast.FunctionDef, ast.Lambda)) and f is not hit[2]]
        for a in ast.walk(hit[2]):
            if isinstance(a, ast.Attribute) and isinstance(a.value, ast.Name) and a.value.id == "self" and isinstance(a.ctx, ast.Load):
                _prop_reads(hit[0], hit[1], a.attr, seen, depth + 1)
    return seen


def _b_keyed_state(chk, sites, rule="C20.b", only_classes=None):
    """Sibling rule: an attribute that one memo site of a class puts into its key is varying logical state; every other
    site of the class whose factory reads that attribute (directly or through properties) must key on it too, unless the
    attribute's setter drops that site's entries."""
    by_cls = {}
    for s in sites:
        by_cls.setdefault((s.mod.name, s.cls.name), []).append(s)
    n = 0
    for (mname, cname), ss in by_cls.items():
        if only_classes is not None and cname not in only_classes:
            continue
        mod, cls = ss[0].mod, ss[0].cls
        key_attrs = {}
        for s in ss:
            attrs = set()
            for a in (_key_args(s) or []):
                for x in ast.walk(a):
                    if isinstance(x, ast.Attribute) and isinstance(x.value, ast.Name) and x.value.id == "self":
                        attrs |= _prop_reads(mod, cls, x.attr)
            key_attrs[id(s)] = attrs
        keyed = set().union(*key_attrs.values()) if key_attrs else set()
        # only plain data attributes count as state (not helper objects such as domain_obj / services)
        state = {a for a in keyed if a.startswith("_") and any(isinstance(t, ast.Attribute) and t.attr == a and isinstance(t.ctx, ast.Store)
                                                                 for m in cls.body if isinstance(m, ast.FunctionDef) and m.name != "__init__" for t in ast.walk(m))}
        for s in ss:
            node = s.factory if not isinstance(s.factory, ast.Lambda) else s.factory.body
            reads = set()
            for a in ast.walk(node):
                if isinstance(a, ast.Attribute) and isinstance(a.value, ast.Name) and a.value.id == "self" and isinstance(a.ctx, ast.Load):
                    reads |= _prop_reads(mod, cls, a.attr)
            for attr in sorted(state & reads - key_attrs[id(s)]):
                # dropped by the setter?
                tag = _site_tag(s) or s.method.name
                dropped = False
                for meth in [f for f in cls.body if isinstance(f, ast.FunctionDef)]:
                    assigns = [t for st in ast.walk(meth) if isinstance(st, (ast.Assign, ast.AugAssign)) for t in (st.targets if isinstance(st, ast.Assign) else [st.target])
                               if isinstance(t, ast.Attribute) and isinstance(t.value, ast.Name) and t.value.id == "self" and t.attr == attr]
                    if not assigns or meth.name == "__init__":
                        continue
                    resets = [c for c in ast.walk(meth) if isinstance(c, ast.Call) and isinstance(c.func, ast.Attribute) and c.func.attr in ("reset", "clear_caches")]
                    if any(not c.args and not c.keywords for c in resets) or tag in {k.value for c in resets for k in ast.walk(c) if isinstance(k, ast.Constant) and isinstance(k.value, str)}:
                        dropped = True
                n += 1
                chk.check(dropped, rule, f"{s.name}[state {attr}]",
                          f"the memoised factory of {s.method.name}() depends on self.{attr} (which other cache keys of {cname} include) but its key {ast.unparse(s.key_expr)[:80]} does not, "
                          f"and assigning {attr} does not drop these entries: after {attr} changes the old value is served",
                          sample=f"{s.method.name}: depends on {attr}; keyed or invalidated")
    return n


_SETTERS = {}


def _has_setter(attr):
    """True when some class of the package defines a property setter named `attr` (the attribute can change after construction)."""
    if attr not in _SETTERS:
        found = False
        for m in ri.all_modules():
            if "_tests" in m.name or f"{attr}.setter" not in m.source:
                continue
            for q, fn in ri.functions_in(m):
                if fn.name == attr and any(ast.unparse(d) == f"{attr}.setter" for d in fn.decorator_list):
                    found = True
        _SETTERS[attr] = found
    return _SETTERS[attr]


def _b_identity_keys(chk, sites):
    """A key component id(x) identifies the object, not its state: if the memoised computation reads attributes of x that can be
    assigned after construction (there is a setter of that name), changing them leaves the key - and the served value - as it was."""
    n = 0
    for s in sites:
        for a in (_key_args(s) or []):
            if not (isinstance(a, ast.Call) and isinstance(a.func, ast.Name) and a.func.id == "id" and a.args):
                continue
            path = ast.unparse(a.args[0])
            bodies = [s.factory if not isinstance(s.factory, ast.Lambda) else s.factory.body]
            # one level of the instance's own methods called by the factory
            for c in ast.walk(bodies[0]):
                if isinstance(c, ast.Call) and isinstance(c.func, ast.Attribute) and isinstance(c.func.value, ast.Name) and c.func.value.id == "self":
                    hit = ri.class_member(s.mod, s.cls, c.func.attr)
                    if hit is not None and isinstance(hit[2], ast.FunctionDef):
                        bodies.append(hit[2])
            # ... and of the instance's own properties it reads
            for b in list(bodies):
                for x in ast.walk(b):
                    if isinstance(x, ast.Attribute) and isinstance(x.value, ast.Name) and x.value.id == "self" and isinstance(x.ctx, ast.Load):
                        hit = ri.class_member(s.mod, s.cls, x.attr)
                        if hit is not None and isinstance(hit[2], ast.FunctionDef) and "property" in ri.decorators(hit[2]) and hit[2] not in bodies:
                            bodies.append(hit[2])
            reads = set()
            for b in bodies:
                aliases = {path}
                for st in ast.walk(b):
                    if isinstance(st, ast.Assign) and len(st.targets) == 1 and isinstance(st.targets[0], ast.Name) and ast.unparse(st.value) == path:
                        aliases.add(st.targets[0].id)
                for x in ast.walk(b):
                    if isinstance(x, ast.Attribute) and isinstance(x.ctx, ast.Load) and ast.unparse(x.value) in aliases:
                        reads.add(x.attr)
            mutable = sorted(r for r in reads if _has_setter(r))
            n += 1
            chk.check(not mutable, "C20.b", f"{s.name}[identity key {path}]",
                      f"the key contains id({path}) but the memoised computation reads {path}.{{{', '.join(mutable)}}}, which can be assigned later: after such an assignment the "
                      f"old value is still served", sample=f"{s.method.name}: id({path}) with no settable attribute of it read", nontrivial=bool(reads))
    return n


# ------------------------------------------------------------------------------------------------ c
def _c_purity(chk, sites):
    for s in sites:
        node = s.factory if not isinstance(s.factory, ast.Lambda) else s.factory.body
        eff = sorted(_effects(s, node))
        chk.check(not eff, "C20.c", f"{s.name}[factory effects]" if not eff else f"{s.name}[factory writes {'; '.join(eff)}]",
                  f"the memoised factory of {s.method.name}() writes {eff[:6]}: on a cache hit the side effect is skipped, so the object's state depends on whether the value had "
                  f"been computed before (history dependence)", sample=f"{s.method.name}: factory writes no attribute of self")


# ------------------------------------------------------------------------------------------------ d
def _d_aliasing(chk, sites):
    for s in sites:
        if isinstance(s.factory, ast.Lambda):
            continue
        rets = [r.value for r in ast.walk(s.factory) if isinstance(r, ast.Return) and r.value is not None]
        shared = []
        for r in rets:
            if isinstance(r, ast.Attribute) and isinstance(r.value, ast.Name) and r.value.id == "self":
                attr = r.attr
                # mutated through a method call in the same factory?
                mutated = any(isinstance(c, ast.Call) and isinstance(c.func, ast.Attribute) and isinstance(c.func.value, ast.Attribute)
                              and isinstance(c.func.value.value, ast.Name) and c.func.value.value.id == "self" and c.func.value.attr == attr
                              for c in ast.walk(s.factory))
                if mutated:
                    shared.append(attr)
        chk.check(not shared, "C20.d", f"{s.name}[aliasing]" if not shared else f"{s.name}[returns mutated self.{shared[0]}]",
                  f"the factory mutates self.{shared[0] if shared else ''} and returns that same shared object: every key of this cache aliases one object, a later computation "
                  f"overwrites what earlier callers hold", sample=f"{s.method.name}: returned value is not a shared attribute mutated by the factory", nontrivial=False)


def _d_callers_mutate(chk, sites, rule="C20.d", members=None):
    """Values handed out by memoised accessors are shared with every later reader: code that takes such a value through an
    attribute (`p = point.position`) and then writes into it (`p[...] = ...`, `p[...] += ...`) changes what the cache serves."""
    M = {s.method.name for s in sites}
    if members is not None:
        M &= set(members)
    n = 0
    for m in ri.all_modules():
        if "_tests" in m.name or ".tests" in m.name:
            continue
        for q, fn in ri.functions_in(m):
            al = {}
            for st in ast.walk(fn):
                if isinstance(st, ast.Assign) and len(st.targets) == 1 and isinstance(st.targets[0], ast.Name) and isinstance(st.value, ast.Attribute) and st.value.attr in M:
                    al[st.targets[0].id] = ast.unparse(st.value)
            if not al:
                continue
            n += 1
            bad = []
            for st in ast.walk(fn):
                tg = st.target if isinstance(st, ast.AugAssign) else (st.targets[0] if isinstance(st, ast.Assign) and isinstance(st.targets[0], ast.Subscript) else None)
                if not isinstance(tg, ast.Subscript):
                    continue
                base = tg
                while isinstance(base, ast.Subscript):
                    base = base.value
                if isinstance(base, ast.Name) and base.id in al:
                    bad.append(f"{ri.norm_stmt(st)[:60]} (alias of {al[base.id]})")
            chk.check(not bad, rule, f"{m.name}::{q}[writes into a cached value]",
                      f"{q} writes into an object it obtained from a memoised accessor: {bad[:2]}; every later reader of that accessor sees the modified value",
                      sample=f"{q}: reads {sorted(set(al.values()))[:3]} without writing into them", nontrivial=False)
    return n


# ------------------------------------------------------------------------------------------------ e
def _factory_reads(site):
    """Attributes of self a memoised factory reads: self._x directly, or through a property returning self._x."""
    mod, cls = site.mod, site.cls
    out = set()
    node = site.factory if not isinstance(site.factory, ast.Lambda) else site.factory.body
    for a in ast.walk(node):
        if isinstance(a, ast.Attribute) and isinstance(a.value, ast.Name) and a.value.id == "self" and isinstance(a.ctx, ast.Load):
            out.add(a.attr)
            # ... and, through properties of the class (lazy helpers built from configuration: self.generator ->
            # self._generator, self.continuation_config -> self._continuation_config), what those read
            out |= _prop_reads(mod, cls, a.attr)
    return out


def _site_tag(site):
    args = _key_args(site) or []
    for a in args:
        if isinstance(a, ast.Constant) and isinstance(a.value, str):
            return a.value
    return None


def _e_invalidation(chk, sites, rule="C20.e", only_classes=None):
    by_cls = {}
    for s in sites:
        by_cls.setdefault((s.mod.name, s.cls.name), []).append(s)
    n = 0
    for (mname, cname), ss in by_cls.items():
        if only_classes is not None and cname not in only_classes:
            continue
        mod, cls = ss[0].mod, ss[0].cls
        reads = {id(s): _factory_reads(s) for s in ss}
        read_attrs = set().union(*reads.values()) if reads else set()
        for meth in [f for f in cls.body if isinstance(f, ast.FunctionDef)]:
            if meth.name in ("__init__", "__setstate__", "__getstate__"):
                continue
            factories = [f for f in ast.walk(meth) if isinstance(f, ast.FunctionDef) and f is not meth]
            in_factory = {id(x) for f in factories for x in ast.walk(f)}
            for st in ast.walk(meth):
                if id(st) in in_factory or not isinstance(st, (ast.Assign, ast.AugAssign)):
                    continue
                tg = st.targets if isinstance(st, ast.Assign) else [st.target]
                for t in tg:
                    if isinstance(t, ast.Attribute) and isinstance(t.value, ast.Name) and t.value.id == "self" and t.attr in read_attrs:
                        # hand-rolled cache slots set to None are themselves invalidations
                        if isinstance(st, ast.Assign) and isinstance(st.value, ast.Constant) and st.value.value is None:
                            continue
                        # lazy initialisation `if self.x is None: self.x = ...` creates a helper, it does not change logical state
                        if _under_none_guard(meth, st, t.attr):
                            continue
                        # assignment through a property that has its own setter: the setter is examined on its own
                        hitp = ri.class_member(mod, cls, t.attr, kind="setter")
                        if hitp is not None:
                            continue
                        # recording the memoised value itself (`self.x = self.get_or_create(...)`) is not a state change
                        if isinstance(st, ast.Assign) and isinstance(st.value, ast.Call) and isinstance(st.value.func, ast.Attribute) and st.value.func.attr == "get_or_create":
                            continue
                        n += 1
                        blk = _with_helpers(mod, cls, _enclosing_block(meth, st))
                        resets = [(b, c) for b in blk for c in ast.walk(b) if isinstance(c, ast.Call) and isinstance(c.func, ast.Attribute) and c.func.attr in ("reset", "clear_caches")]
                        full = [c for b, c in resets if not c.args and not c.keywords]
                        construct = f"{mname}::{cname}.{meth.name}[self.{t.attr}]"
                        if full or not resets:
                            chk.check(bool(full), rule, construct,
                                      f"{meth.name}() assigns self.{t.attr}, which memoised factories of {cname} read, without invalidating the cache in the same block: values computed "
                                      f"from the old {t.attr} stay cached", sample=f"{meth.name}: self.{t.attr} = ...; self.reset(...) alongside")
                            continue
                        # only keyed (partial) invalidation: every cached quantity whose factory reads the attribute must be among the dropped tags
                        tags = {k.value for b, c in resets for k in ast.walk(b) if isinstance(k, ast.Constant) and isinstance(k.value, str)}
                        needed = {(_site_tag(s) or s.method.name) for s in ss if t.attr in reads[id(s)]}
                        missing = sorted(needed - tags)
                        chk.check(not missing, rule, construct,
                                  f"{meth.name}() assigns self.{t.attr} and drops only the cache entries tagged {sorted(tags)}; entries tagged {missing} are also computed from "
                                  f"{t.attr} and stay cached with the old value", sample=f"{meth.name}: partial reset covers {sorted(needed)}")
    # recorded slots: `self.R = self.get_or_create(key, factory)` keeps the last value outside the cache; whoever changes an
    # attribute that factory reads and drops the cache must also clear R (or R keeps showing the value of the old state)
    for (mname, cname), ss in by_cls.items():
        if only_classes is not None and cname not in only_classes:
            continue
        mod, cls = ss[0].mod, ss[0].cls
        slots = {}
        for s_ in ss:
            par = getattr(s_.call, "_parent", None)
            if isinstance(par, ast.Assign) and len(par.targets) == 1 and isinstance(par.targets[0], ast.Attribute) and isinstance(par.targets[0].value, ast.Name) \
                    and par.targets[0].value.id == "self":
                slots[par.targets[0].attr] = s_
        for R, s_ in slots.items():
            reads = _factory_reads(s_)
            for meth in [f for f in cls.body if isinstance(f, ast.FunctionDef) and f.name not in ("__init__", "__setstate__", "__getstate__") and f is not s_.method]:
                changed = sorted({t.attr for st in ast.walk(meth) if isinstance(st, (ast.Assign, ast.AugAssign)) for t in (st.targets if isinstance(st, ast.Assign) else [st.target])
                                  if isinstance(t, ast.Attribute) and isinstance(t.value, ast.Name) and t.value.id == "self" and t.attr in reads and t.attr != R
                                  and not (isinstance(st, ast.Assign) and isinstance(st.value, ast.Constant) and st.value.value is None)
                                  and not _under_none_guard(meth, st, t.attr)})
                eff = _with_helpers(mod, cls, meth.body)
                has_reset = any(isinstance(c, ast.Call) and isinstance(c.func, ast.Attribute) and c.func.attr in ("reset", "clear_caches") for b in eff for c in ast.walk(b))
                if not changed or not has_reset:
                    continue
                clears = any(isinstance(st, ast.Assign) and any(isinstance(t, ast.Attribute) and t.attr == R and isinstance(t.value, ast.Name) and t.value.id == "self" for t in st.targets)
                             for b in eff for st in ast.walk(b))
                chk.check(clears, rule, f"{mname}::{cname}.{meth.name}[slot self.{R}]",
                          f"{meth.name}() changes {changed} and drops the cache but leaves self.{R}, which records the last value computed from them by {s_.method.name}(): "
                          f"readers of {R} keep seeing the value of the old state", sample=f"{meth.name}: self.{R} cleared together with the cache")
    if only_classes is None:
        chk.floor("assignments of factory-read attributes examined", n, 2)
    return n


def _e_lazy_slots(chk, rule="C20.e", only_classes=None):
    """Lazily built helpers (`if self._x is None: self._x = <expr>`): whoever assigns an attribute that <expr> reads (directly or
    through properties) must also clear the slot, or the helper built from the old state keeps being used."""
    n = 0
    for m in _all_service_modules():
        for cls in [c for c in m.tree.body if isinstance(c, ast.ClassDef)]:
            if only_classes is not None and cls.name not in only_classes:
                continue
            slots = {}
            for meth in [f for f in cls.body if isinstance(f, ast.FunctionDef)]:
                for node in ast.walk(meth):
                    if isinstance(node, ast.If) and isinstance(node.test, ast.Compare) and len(node.test.ops) == 1 and isinstance(node.test.ops[0], ast.Is) \
                            and isinstance(node.test.comparators[0], ast.Constant) and node.test.comparators[0].value is None \
                            and isinstance(node.test.left, ast.Attribute) and isinstance(node.test.left.value, ast.Name) and node.test.left.value.id == "self":
                        slot = node.test.left.attr
                        for st in node.body:
                            if isinstance(st, ast.Assign) and any(isinstance(t, ast.Attribute) and t.attr == slot for t in st.targets):
                                reads = set()
                                for a in ast.walk(st.value):
                                    if isinstance(a, ast.Attribute) and isinstance(a.value, ast.Name) and a.value.id == "self" and isinstance(a.ctx, ast.Load):
                                        reads |= _prop_reads(m, cls, a.attr)
                                slots.setdefault(slot, set()).update(reads - {slot})
            for slot, reads in slots.items():
                state = {a for a in reads if a.startswith("_")}
                for meth in [f for f in cls.body if isinstance(f, ast.FunctionDef) and f.name not in ("__init__", "__setstate__", "__getstate__")]:
                    eff = _with_helpers(m, cls, meth.body)
                    changed = sorted({t.attr for b in eff for st in ast.walk(b) if isinstance(st, (ast.Assign, ast.AugAssign)) for t in (st.targets if isinstance(st, ast.Assign) else [st.target])
                                      if isinstance(t, ast.Attribute) and isinstance(t.value, ast.Name) and t.value.id == "self" and t.attr in state
                                      and not (isinstance(st, ast.Assign) and isinstance(st.value, ast.Constant) and st.value.value is None)
                                      and not _under_none_guard(meth, st, t.attr)})
                    if not changed:
                        continue
                    n += 1
                    # cleared (= None) or rebuilt on the spot: any assignment to the slot alongside counts
                    clears = any(isinstance(st, ast.Assign) and
                                 any(isinstance(t, ast.Attribute) and t.attr == slot and isinstance(t.value, ast.Name) and t.value.id == "self" for t in st.targets)
                                 for b in eff for st in ast.walk(b))
                    chk.check(clears, rule, f"{m.name}::{cls.name}.{meth.name}[lazy slot self.{slot}]",
                              f"{meth.name}() assigns {changed}, from which the lazily built self.{slot} is computed, without clearing the slot: the helper built for the old "
                              f"{changed[0]} keeps being used", sample=f"{meth.name}: self.{slot} = None alongside {changed}")
    return n


def _with_helpers(mod, cls, stmts, depth=0):
    """The statements of a block plus the bodies of the instance's own methods it calls (invalidation through a helper)."""
    out = list(stmts)
    if depth >= 2:
        return out
    for b in stmts:
        for c in ast.walk(b):
            if isinstance(c, ast.Call) and isinstance(c.func, ast.Attribute) and isinstance(c.func.value, ast.Name) and c.func.value.id == "self" \
                    and c.func.attr not in ("reset", "clear_caches", "get_or_create", "make_key"):
                hit = ri.class_member(mod, cls, c.func.attr)
                if hit is not None and isinstance(hit[2], ast.FunctionDef) and "property" not in ri.decorators(hit[2]):
                    out += _with_helpers(hit[0], hit[1], hit[2].body, depth + 1)
    return out


def _under_none_guard(fn, stmt, attr):
    p = getattr(stmt, "_parent", None)
    while p is not None and p is not fn:
        if isinstance(p, ast.If):
            t = ast.unparse(p.test)
            if t in (f"self.{attr} is None", f"not self.{attr}", f"self.{attr} == None"):
                return True
        p = getattr(p, "_parent", None)
    return False


def _enclosing_block(fn, stmt):
    for node in ast.walk(fn):
        for fld in ("body", "orelse", "finalbody"):
            blk = getattr(node, fld, None)
            if isinstance(blk, list) and stmt in blk:
                return blk
    return fn.body


# ------------------------------------------------------------------------------------------------ f
def _kind(a):
    if isinstance(a, ast.Constant):
        return ("lit", a.value)
    if isinstance(a, ast.Call) and isinstance(a.func, ast.Name) and a.func.id == "id":
        return ("int", None)
    if isinstance(a, ast.Call) and isinstance(a.func, ast.Name) and a.func.id == "tuple":
        return ("tuple", None)
    if isinstance(a, ast.Tuple):
        return ("tuple", None)
    return ("any", None)


def _unifiable(k1, k2):
    if len(k1) != len(k2):
        return False
    for a, b in zip(k1, k2):
        ka, kb = _kind(a), _kind(b)
        if ka[0] == "lit" and kb[0] == "lit":
            if ka[1] != kb[1]:
                return False
            continue
        ta = "str" if ka[0] == "lit" and isinstance(ka[1], str) else ("int" if ka[0] in ("int",) or (ka[0] == "lit" and isinstance(ka[1], int)) else ka[0])
        tb = "str" if kb[0] == "lit" and isinstance(kb[1], str) else ("int" if kb[0] in ("int",) or (kb[0] == "lit" and isinstance(kb[1], int)) else kb[0])
        known = {"str", "int", "tuple"}
        if ta in known and tb in known and ta != tb:
            return False
    return True


def _f_tags(chk, sites):
    by_cls = {}
    for s in sites:
        args = _key_args(s)
        if args is not None:
            by_cls.setdefault((s.mod.name, s.cls.name), []).append((s, args))
    # subclasses share the cache object with their bases: group by MRO root having get_or_create users
    pairs = 0
    for (mname, cname), lst in by_cls.items():
        mod, cls = lst[0][0].mod, lst[0][0].cls
        group = list(lst)
        for bm, bc in ri.mro(mod, cls)[1:]:
            group += by_cls.get((bm.name, bc.name), [])
        for (s1, a1), (s2, a2) in itertools.combinations(group, 2):
            if s1.method.name == s2.method.name and s1.cls.name != s2.cls.name:
                continue  # an override replaces the base method: same quantity
            if s1.method is s2.method:
                continue
            pairs += 1
            clash = _unifiable(a1, a2)
            chk.check(not clash, "C20.f", f"{mname}::{cname}[{s1.method.name}~{s2.method.name}]",
                      f"keys {ast.unparse(s1.key_expr)[:80]} ({s1.method.name}) and {ast.unparse(s2.key_expr)[:80]} ({s2.method.name}) can coincide: two quantities would share one "
                      f"cache entry (make_key prefixes every key with the same frame name, so only the hand-written tags separate them)",
                      sample=f"{s1.method.name} / {s2.method.name}: keys differ in a literal tag, arity or component kind", nontrivial=False)
    chk.count("key pairs compared", pairs)
    chk.floor("key pairs compared", pairs, 60)


# ------------------------------------------------------------------------------------------------ g
def _g_identity(chk):
    # _DirectedSystem._rhs_cache keyed by id(base_rhs): the cached closure must hold base_rhs
    mod, cls = ri.find_def("hiten.algorithms.dynamics.base", "_DirectedSystem")
    fn = next(f for f in cls.body if isinstance(f, ast.FunctionDef) and f.name == "_build_rhs_impl")
    key_has_id = any(isinstance(c, ast.Call) and isinstance(c.func, ast.Name) and c.func.id == "id" and c.args and ast.unparse(c.args[0]) == "base_rhs" for c in ast.walk(fn))
    inner = [f for f in ast.walk(fn) if isinstance(f, ast.FunctionDef) and f is not fn]
    holds = any(any(isinstance(d, ast.Name) and d.id == "base_rhs" for d in f.args.defaults) or "base_rhs" in {n.id for n in ast.walk(f) if isinstance(n, ast.Name)} for f in inner)
    chk.check((not key_has_id) or holds, "C20.g", "hiten.algorithms.dynamics.base::_DirectedSystem._build_rhs_impl[_rhs_cache]",
              "the wrapper cache is keyed by id(base_rhs) but the cached value does not keep base_rhs alive: the id can be reused by another function", sample="cached closure binds base_rhs as a default argument")
    # pipelines keyed by id(point): the pipeline holds the point
    pmod, pcls = ri.find_def("hiten.algorithms.hamiltonian.pipeline", "HamiltonianPipeline")
    init = next(f for f in pcls.body if isinstance(f, ast.FunctionDef) and f.name == "__init__")
    holds = any(isinstance(st, ast.Assign) and ast.unparse(st.value) == "point" and any(isinstance(t, ast.Attribute) for t in st.targets) for st in ast.walk(init))
    chk.check(holds, "C20.g", "hiten.algorithms.types.services.hamiltonian::_HamiltonianPipelineService[_pipelines]",
              "pipelines are cached by id(point) but the pipeline does not hold the point", sample="HamiltonianPipeline stores its point")


# ------------------------------------------------------------------------------------------------ h
PLUMBING_SLOTS = {
    "_cache": "the memo store itself; rebuilt empty on load",
    "_generator": "lazily rebuilt pipeline/engine objects holding compiled functions (reset to None by _reconstruct_generators)",
    "_domain_obj": "back-reference to the owner, re-established by _setup_services",
    "_services": "service bundle, rebuilt by _setup_services",
}


def _e_setter_guards(chk):
    """A setter may skip the invalidation only when the new value IS the old one: an `if` that guards reset() in a property
    setter compares exactly (==, !=, is, is not); a tolerance (isclose / allclose / abs(...) < eps / round) leaves values
    computed from the old state in the cache after a small but real change."""
    n = 0
    for m in _all_service_modules():
        for cls in [c for c in m.tree.body if isinstance(c, ast.ClassDef)]:
            for f in [f for f in cls.body if isinstance(f, ast.FunctionDef) and any(d.endswith(".setter") for d in ri.decorators(f))]:
                for call in [c for c in ast.walk(f) if isinstance(c, ast.Call) and isinstance(c.func, ast.Attribute) and c.func.attr in ("reset", "clear", "pop")]:
                    n += 1
                    guards = []
                    cur = getattr(call, "_parent", None)
                    child = call
                    while cur is not None and cur is not f:
                        if isinstance(cur, ast.If) and any(child is x or any(child is y for y in ast.walk(x)) for x in cur.body + cur.orelse):
                            guards.append(cur.test)
                        child, cur = cur, getattr(cur, "_parent", None)
                    bad = []
                    from .. import sites as _sites_mod
                    for g in guards:
                        # look through flag variables: unchanged = isclose(...); if not unchanged: reset()
                        exprs = [g] + [r for nm in ast.walk(g) if isinstance(nm, ast.Name) for r in [_sites_mod.resolve_local(f, nm)] if r is not nm]
                        g_all = ast.Tuple(elts=exprs, ctx=ast.Load())
                        calls = {ast.unparse(c.func).split(".")[-1] for c in ast.walk(g_all) if isinstance(c, ast.Call)}
                        g = g_all
                        inexact = calls & {"isclose", "allclose", "abs", "fabs", "round", "norm"}
                        ordered = [c for c in ast.walk(g) if isinstance(c, ast.Compare) and any(isinstance(o, (ast.Lt, ast.LtE, ast.Gt, ast.GtE)) for o in c.ops)]
                        if inexact or ordered:
                            bad.append(ast.unparse(g)[:80])
                    chk.check(not bad, "C20.e", f"{m.name}::{cls.name}.{f.name}[setter guard]",
                              f"the invalidation in the setter of {f.name} is skipped under the tolerance test {bad}: a small but real change keeps results computed from the old value",
                              sample=f"{cls.name}.{f.name} setter: invalidation unguarded or guarded by an exact comparison", nontrivial=False)
    chk.floor("invalidating calls inside property setters", n, 3)


def _d_create_is_fresh(chk):
    """`create_*` methods of the services hand out NEW domain objects (an orbit the caller will correct, re-period, propagate): memoising
    them makes two requests with equal arguments return one object, so operations on the 'second' orbit change the first.  No
    create_* method may route its result through get_or_create or store it in a cache attribute."""
    n = 0
    for m in _all_service_modules():
        for cls in [c for c in m.tree.body if isinstance(c, ast.ClassDef)]:
            for f in [f for f in cls.body if isinstance(f, ast.FunctionDef) and f.name.startswith("create_")]:
                n += 1
                memo = [ast.unparse(c.func) for c in ast.walk(f) if isinstance(c, ast.Call) and isinstance(c.func, ast.Attribute) and c.func.attr in ("get_or_create", "setdefault")]
                stores = [ast.unparse(t)[:40] for st in ast.walk(f) if isinstance(st, ast.Assign) for t in st.targets if isinstance(t, ast.Subscript) and "cache" in ast.unparse(t.value).lower()]
                chk.check(not memo and not stores, "C20.d", f"{m.name}::{cls.name}.{f.name}[fresh object]",
                          f"{cls.name}.{f.name} memoises the object it creates ({memo + stores}): a second request with equal arguments returns the first object, with whatever "
                          f"state it has acquired since", sample=f"{cls.name}.{f.name}: a new object per call", nontrivial=False)
    chk.floor("create_* methods in the service package", n, 1)


def _f_falsy_defaults(chk):
    """`value or default` on a NUMERIC parameter treats the legitimate value 0 as "not given": the quantity computed for 0 is then
    filed (or computed) under the default's identity.  Every `p or <expr>` in the package whose first operand is a parameter
    annotated float (Optional included; pure counts are left alone: 0 workers / 0 steps is no value) must be written `p if p is not None else <expr>`.  (Strings, tuples and payload
    objects, for which emptiness means absence, are not concerned.)"""
    n = 0
    for m in ri.all_modules():
        if "._tests" in m.name or ".tests" in m.name:
            continue
        for q, fn in ri.functions_in(m):
            ann = {a.arg: ast.unparse(a.annotation) for a in fn.args.args + fn.args.kwonlyargs if a.annotation is not None}
            for b in ast.walk(fn):
                if isinstance(b, ast.BoolOp) and isinstance(b.op, ast.Or) and isinstance(b.values[0], ast.Name) and b.values[0].id in ann:
                    n += 1
                    a = ann[b.values[0].id].replace("Optional[", "").replace("]", "").replace("'", "").replace('"', "")
                    kinds = {t.strip() for t in a.replace("|", ",").split(",")}
                    # real-valued parameters only: for a count (`n_workers or cpu_count()`, `steps or 1000`) zero is usually no value at all and the idiom is harmless
                    numeric = bool(kinds & {"float", "np.floating", "complex"}) and not (kinds - {"float", "int", "None", "np.floating", "np.integer", "complex"})
                    chk.check(not numeric, "C20.f", f"{m.name}::{q}[{b.values[0].id} or ...]",
                              f"`{ast.unparse(b)[:80]}`: {b.values[0].id} is a numeric parameter ({ann[b.values[0].id]}), so the value 0 is replaced by the default: the result for 0 "
                              f"is computed / stored as if the default had been asked for", sample=f"{q}: `{ast.unparse(b)[:60]}` on a non-numeric parameter", nontrivial=numeric)
    chk.floor("`parameter or default` expressions examined", n, 5)


def _h_save_filter(chk):
    """The decidable part of the save/load clause: the filter that selects what is written (_HitenBase._is_computed_property,
    applied to every attribute of the dynamics service) accepts every STATE SLOT of every dynamics service - an underscore
    attribute that some method other than __init__ assigns (a setter, a compute step): logical state that can differ from
    what the constructor would rebuild.  The filter is interpreted for each slot name with an int, an array and a string value."""
    import numpy as np
    cmod, ccls = ri.find_def("hiten.algorithms.types.core", "_HitenBase")
    obj = SymObj(ClassRef(cmod, ccls), {}, "domain object")
    n = 0
    for m in _all_service_modules():
        for cls in [c for c in m.tree.body if isinstance(c, ast.ClassDef)]:
            if not any(bc.name == "_DynamicsServiceBase" for _, bc in ri.mro(m, cls)[1:]):
                continue
            slots = {}
            for f in [f for f in cls.body if isinstance(f, ast.FunctionDef) and f.name not in ("__init__", "__setstate__", "__getstate__", "reset")]:
                for st in ast.walk(f):
                    if isinstance(st, (ast.Assign, ast.AugAssign, ast.AnnAssign)):
                        for t in (st.targets if isinstance(st, ast.Assign) else [st.target]):
                            for x in ([t] if not isinstance(t, ast.Tuple) else t.elts):
                                if isinstance(x, ast.Attribute) and isinstance(x.value, ast.Name) and x.value.id == "self" and x.attr.startswith("_") \
                                        and not x.attr.startswith("__") and x.attr not in PLUMBING_SLOTS:
                                    # assigning None only (invalidation of a lazy slot) is not state
                                    v = getattr(st, "value", None)
                                    if isinstance(v, ast.Constant) and v.value is None:
                                        continue
                                    slots.setdefault(x.attr, f.name)
            for slot, where in sorted(slots.items()):
                n += 1
                verdicts = {}
                for label, val in (("int", sp.Integer(3)), ("array", np.array([1, 2], dtype=object)), ("str", "text")):
                    ip = Interp()
                    try:
                        verdicts[label] = ip.apply(ip.getattr(obj, "_is_computed_property"), [slot, val], {})
                    except (OutsideFragment, KpeRaise) as exc:
                        raise AnalysisError(f"_is_computed_property outside fragment: {exc}")
                bad = [k for k, v in verdicts.items() if v is not True]
                chk.check(not bad, "C20.h", f"{m.name}::{cls.name}[save filter {slot}]",
                          f"{cls.name}.{slot} is assigned by {where}() (logical state) but the save filter drops it for {bad} values: a reloaded object silently reverts to "
                          f"what its constructor rebuilds", sample=f"{cls.name}.{slot} (set in {where}) is written by save", nontrivial=False)
    chk.floor("state slots of dynamics services examined", n, 10)


def _h_save_sources(chk):
    """The other decidable part of the save/load clause: WHERE the saved state is taken from.  _HitenBase.__getstate__ writes
    the object's own __dict__ plus the filtered attributes of ONE source (_get_computed_properties_source: the dynamics
    service).  A service of the bundle that is not that source and holds user-settable state (a property setter storing its
    argument) is rebuilt from defaults on load: what the user set is silently lost."""
    cmod, ccls = ri.find_def("hiten.algorithms.types.core", "_HitenBase")
    src = next((f for f in ccls.body if isinstance(f, ast.FunctionDef) and f.name == "_get_computed_properties_source"), None)
    if src is None:
        raise AnalysisError("anchor: _HitenBase._get_computed_properties_source not found")
    names = {c.value for c in ast.walk(src) if isinstance(c, ast.Constant) and isinstance(c.value, str) and not c.value.strip().count(" ")}
    overrides = [(m.name, c.name) for m in ri.all_modules() for c in m.tree.body if isinstance(c, ast.ClassDef) and c is not ccls
                 and any(isinstance(f, ast.FunctionDef) and f.name == "_get_computed_properties_source" for f in c.body)]
    n = 0
    for m in _all_service_modules():
        for bundle in [c for c in m.tree.body if isinstance(c, ast.ClassDef) and any(bc.name == "_ServiceBundleBase" for _, bc in ri.mro(m, c)[1:])]:
            init = next((f for f in bundle.body if isinstance(f, ast.FunctionDef) and f.name == "__init__"), None)
            if init is None:
                continue
            for a in init.args.args[1:]:
                if a.annotation is None or a.arg in names or a.arg in ("domain_obj", "persistence"):
                    continue
                tname = ast.unparse(a.annotation).strip("'\"").split("[")[0].split(".")[-1]
                r = ri.resolve(m, tname)
                if not (r and r[0] == "def" and isinstance(r[2], ast.ClassDef)):
                    continue
                smod, scls = r[1], r[2]
                n += 1
                slots = []
                for bm, bc in ri.mro(smod, scls):
                    for f in [f for f in bc.body if isinstance(f, ast.FunctionDef) and any(d.endswith(".setter") for d in ri.decorators(f))]:
                        par = f.args.args[1].arg if len(f.args.args) > 1 else None
                        if any(isinstance(st, ast.Assign) and isinstance(st.value, ast.Name) and st.value.id == par and any(isinstance(t, ast.Attribute) and isinstance(t.value, ast.Name)
                               and t.value.id == "self" for t in st.targets) for st in ast.walk(f)):
                            slots.append(f.name)
                slots = sorted(set(slots))
                chk.check(not slots or bool(overrides), "C20.h", f"{smod.name}::{scls.name}[save source]" if not slots else f"{smod.name}::{scls.name}[save source: {','.join(slots)}]",
                          f"{bundle.name}.{a.arg} ({scls.name}) holds user-settable state {slots} but the save path reads only the {sorted(names)} service: after save/load these "
                          f"revert to their defaults", sample=f"{bundle.name}.{a.arg}: no settable state outside the saved source", nontrivial=bool(slots))
    chk.floor("non-source services of service bundles examined", n, 3)


def _h_inplace_loaders(chk):
    """load_*_inplace(obj, path) makes `obj` the loaded object: the loaded instance's whole attribute dictionary is adopted - data AND the
    services that were rebuilt for that data (they hold their own copies of bodies, mass ratio, caches).  Adopting a filtered subset keeps
    services wired to the PREVIOUS data next to the new data; that is only sound if the services are rebuilt for `obj` afterwards
    (_setup_services / __setstate__).  One obligation per in-place loader of hiten.utils.io."""
    n = 0
    for m in ri.all_modules():
        if not m.name.startswith("hiten.utils.io"):
            continue
        for f in [f for f in m.tree.body if isinstance(f, ast.FunctionDef) and f.name.startswith("load_") and f.name.endswith("_inplace")]:
            n += 1
            target = f.args.args[0].arg
            ups = [c for c in ast.walk(f) if isinstance(c, ast.Call) and isinstance(c.func, ast.Attribute) and c.func.attr == "update"
                   and ast.unparse(c.func.value) == f"{target}.__dict__"]
            from .. import sites as _s
            whole = any(len(c.args) == 1 and isinstance(_s.resolve_local(f, c.args[0]), ast.Attribute) and _s.resolve_local(f, c.args[0]).attr == "__dict__" for c in ups)
            rebuilt = any(isinstance(c, ast.Call) and isinstance(c.func, ast.Attribute) and c.func.attr in ("_setup_services", "__setstate__") and ast.unparse(c.func.value) == target
                          for c in ast.walk(f))
            setattrs = any(isinstance(c, ast.Call) and isinstance(c.func, ast.Name) and c.func.id == "setattr" for c in ast.walk(f))
            chk.check(whole or rebuilt or (not ups and not setattrs), "C20.h", f"{m.name}::{f.name}[adopts the loaded object]",
                      f"{f.name} copies a filtered part of the loaded object's attributes into `{target}` and does not rebuild {target}'s services: services bound to the old "
                      f"data (bodies, mu, distance, caches) stay next to the new data", sample=f"{f.name}: {target}.__dict__.update(<loaded>.__dict__) whole, or services rebuilt",
                      nontrivial=False)
    chk.floor("in-place loaders in hiten.utils.io", n, 8)


def _h_reload(chk):
    _h_save_filter(chk)
    _h_save_sources(chk)
    _h_inplace_loaders(chk)
    n = 0
    for m in ri.all_modules():
        if not m.name.startswith("hiten.system"):
            continue
        for cls in [c for c in m.tree.body if isinstance(c, ast.ClassDef)]:
            chain = ri.mro(m, cls)
            if not any(c.name == "_HitenBase" for _, c in chain[1:]):
                continue
            if any(isinstance(f, ast.FunctionDef) and any("abstractmethod" in d for d in ri.decorators(f)) for f in cls.body):
                pass  # abstract classes may still define the hook for their subclasses
            hook = None
            for bm, bc in chain:
                if bc.name == "_HitenBase":
                    break
                f = next((f for f in bc.body if isinstance(f, ast.FunctionDef) and f.name == "__setstate__"), None)
                if f is not None:
                    hook = (bm, bc, f)
                    break
            concrete = not any(isinstance(f, ast.FunctionDef) and any("abstractmethod" in d for d in ri.decorators(f)) for f in cls.body)
            if not concrete and hook is None:
                continue
            n += 1
            ok = hook is not None and any(isinstance(c, ast.Call) and isinstance(c.func, ast.Attribute) and c.func.attr == "_setup_services" for c in ast.walk(hook[2]))
            # ... and the hook leaves the pickled computed state alone: _HitenBase.__setstate__ parks it in _computed_properties_to_restore and
            # _setup_services puts it back onto the rebuilt services; a hook that empties / replaces it reloads the object in its constructor state
            if hook is not None:
                wipes = [ast.unparse(st)[:70] for st in ast.walk(hook[2]) if isinstance(st, (ast.Assign, ast.AugAssign, ast.Delete))
                         for t in (st.targets if isinstance(st, (ast.Assign, ast.Delete)) else [st.target])
                         if isinstance(t, ast.Attribute) and t.attr == "_computed_properties_to_restore"]
                wipes += [ast.unparse(c)[:70] for c in ast.walk(hook[2]) if isinstance(c, ast.Call) and isinstance(c.func, ast.Attribute) and c.func.attr in ("clear", "pop", "popitem")
                          and "_computed_properties_to_restore" in ast.unparse(c.func.value)]
                chk.check(not wipes, "C20.h", f"{m.name}::{cls.name}.__setstate__[restored state]",
                          f"{hook[1].name}.__setstate__ discards the pickled computed state before the services are rebuilt ({wipes}): whatever differed from the constructor "
                          f"arguments (a changed degree, a corrected state) is lost on load", sample=f"{cls.name}: __setstate__ does not touch _computed_properties_to_restore", nontrivial=False)
            chk.check(ok, "C20.h", f"{m.name}::{cls.name}.__setstate__",
                      f"{cls.name} can be unpickled without rebuilding its services (no __setstate__ calling _setup_services in its hierarchy below _HitenBase): a reloaded "
                      f"object would carry no / stale services", sample=f"{cls.name}: __setstate__ -> _setup_services(...)", nontrivial=False)
    chk.floor("_HitenBase subclasses examined", n, 8)
    # _setup_services restores the pickled computed state onto the services and THEN may call dynamics.reset(): a reset that
    # writes anything but the cache would wipe what was just restored (part of the save/load clause that is decidable)
    cmod, ccls = ri.find_def("hiten.algorithms.types.core", "_HitenBase")
    setup = next((f for f in ccls.body if isinstance(f, ast.FunctionDef) and f.name == "_setup_services"), None)
    if setup is None:
        raise AnalysisError("anchor: _HitenBase._setup_services not found")
    # every pickled computed value the target has an attribute for is put back: the restore loop filters on nothing but the
    # attribute's existence (a filter on the value's type / the current value silently drops restorable state)
    for loop in [n for n in ast.walk(setup) if isinstance(n, ast.For)]:
        calls = [c for c in ast.walk(loop) if isinstance(c, ast.Call) and isinstance(c.func, ast.Name) and c.func.id == "setattr"]
        if not calls or not isinstance(loop.target, ast.Tuple) or len(loop.target.elts) != 2:
            continue
        vname = loop.target.elts[1].id if isinstance(loop.target.elts[1], ast.Name) else None
        locals_from_target = {t.id for st in ast.walk(loop) if isinstance(st, ast.Assign) for t in st.targets if isinstance(t, ast.Name)
                              and any(isinstance(c, ast.Call) and isinstance(c.func, ast.Name) and c.func.id == "getattr" for c in ast.walk(st.value))}
        filters = []
        for test in [n.test for n in ast.walk(loop) if isinstance(n, ast.If)]:
            names = {x.id for x in ast.walk(test) if isinstance(x, ast.Name)}
            if (vname and vname in names) or (names & locals_from_target) or any(isinstance(c, ast.Call) and isinstance(c.func, ast.Name) and c.func.id in ("getattr", "isinstance", "type")
                                                                                  for c in ast.walk(test)):
                filters.append(ast.unparse(test)[:80])
        chk.check(not filters, "C20.h", "hiten.algorithms.types.core::_HitenBase._setup_services[restore loop]",
                  f"the loop that restores pickled computed properties skips values depending on {filters}: state that was saved is silently not restored",
                  sample="restore: for every saved (name, value) the target has an attribute for: setattr(target, name, value)", nontrivial=False)
    restore = [c for c in ast.walk(setup) if isinstance(c, ast.Call) and isinstance(c.func, ast.Name) and c.func.id == "setattr"]
    resets = [c for c in ast.walk(setup) if isinstance(c, ast.Call) and isinstance(c.func, ast.Attribute) and c.func.attr == "reset"]
    if restore and resets and min(c.lineno for c in resets) > max(c.lineno for c in restore):
        k = 0
        for m in _all_service_modules():
            for cls in [c for c in m.tree.body if isinstance(c, ast.ClassDef)]:
                for f in [f for f in cls.body if isinstance(f, ast.FunctionDef) and f.name == "reset"]:
                    k += 1
                    writes = sorted({t.attr for st in ast.walk(f) if isinstance(st, (ast.Assign, ast.AugAssign, ast.Delete))
                                     for t in (st.targets if isinstance(st, (ast.Assign, ast.Delete)) else [st.target])
                                     if isinstance(t, ast.Attribute) and isinstance(t.value, ast.Name) and t.value.id == "self" and t.attr not in ("_cache",)})
                    chk.check(not writes, "C20.h", f"{m.name}::{cls.name}.reset[writes]",
                              f"{cls.name}.reset() also writes {writes}; _setup_services calls reset() after it has restored the pickled state, so a reloaded object loses these values",
                              sample=f"{cls.name}.reset touches only the cache", nontrivial=False)
        chk.floor("reset() definitions in the service package", k, 2)
    else:
        chk.note("_setup_services no longer restores state before calling reset(): reset-override rule not applicable")
