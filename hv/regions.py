"""Order-abstract evaluation: a kernel that touches some inputs only through comparisons is evaluated
once per region of the induced partition, conditions being decided by a region representative.
Exactness is checked by using two representatives per open region and requiring equal outcomes."""
from __future__ import annotations

import sympy as sp


class RegionDecider:
    def __init__(self, assignment):
        self.assignment = dict(assignment)
        self.asked = []
        self.asked_raw = []     # (condition, answer) pairs, for rules that require a particular guard on the path taken

    def __call__(self, cond):
        try:
            v = cond.subs(self.assignment)
            v = sp.simplify(v) if not isinstance(v, (sp.logic.boolalg.BooleanTrue, sp.logic.boolalg.BooleanFalse)) else v
        except Exception:  # noqa: BLE001
            return None
        self.asked.append(sp.sstr(cond))
        ans = True if (v is sp.true or v == True) else (False if (v is sp.false or v == False) else None)  # noqa: E712
        self.asked_raw.append((cond, ans))
        return ans


def sign_regions():
    """Representatives of {-,0,+} with two points per open region."""
    return {"-": [sp.Rational(-3, 7), sp.Integer(-5)], "0": [sp.Integer(0)], "+": [sp.Rational(2, 9), sp.Integer(11)]}


def select_minmax(expr, rep):
    """Replace every Min/Max (and Abs) by the branch that is active at the representative point `rep`.
    Valid on the open region around rep on which the same branches stay active."""
    expr = sp.sympify(expr)

    def rec(e):
        if e.is_Atom:
            return e
        args = [rec(a) for a in e.args]
        if isinstance(e, (sp.Min, sp.Max)):
            vals = [sp.N(a.subs(rep)) for a in args]
            pick = min if isinstance(e, sp.Min) else max
            return args[vals.index(pick(vals))]
        if isinstance(e, sp.Abs):
            v = sp.N(args[0].subs(rep))
            return args[0] if v >= 0 else -args[0]
        if isinstance(e, sp.Piecewise):
            for val, cond in e.args:
                c = cond.subs(rep) if cond is not sp.true else sp.true
                if c is sp.true or c == True:  # noqa: E712
                    return rec(val)
            return e
        return e.func(*args)

    return rec(expr)
