"""Term normalisation: deciding `expr == 0` in a commutative ring modulo radical relations.

No solver, no path search: square roots (and other fixed rational powers) are replaced by
fresh symbols with their defining polynomial relation and the numerator is reduced modulo
those relations.  This is polynomial identity testing, complete for the fragment.
"""
from __future__ import annotations

import random

import sympy as sp


class Radicals:
    """Collects radical symbols rho with rho**q = base (q in {2,3,...})."""

    def __init__(self):
        self.by_key = {}   # (expanded base, q) -> symbol
        self.rel = {}      # symbol -> (base_expr_in_symbols, q)

    def sym(self, base, q):
        key = (sp.expand(base), q)
        if key not in self.by_key:
            s = sp.Symbol(f"rho{len(self.by_key)}_{q}", positive=True)
            self.by_key[key] = s
            self.rel[s] = (key[0], q)
        return self.by_key[key]

    def rewrite(self, expr):
        expr = sp.sympify(expr)

        def rec(e):
            if e.is_Atom:
                return e
            args = [rec(a) for a in e.args]
            if isinstance(e, sp.Pow):
                b, ex = args
                if ex.is_Rational and not ex.is_Integer and not b.is_number:
                    q = ex.q
                    s = self.sym(b, q)
                    return s ** ex.p
                if ex.is_Rational and not ex.is_Integer and b.is_number and b.is_Rational and b > 0:
                    q = ex.q
                    s = self.sym(b, q)
                    return s ** ex.p
                return sp.Pow(b, ex)
            return e.func(*args)

        return rec(expr)

    def reduce(self, poly_expr):
        """Reduce an expanded polynomial expression modulo rho**q = base."""
        e = sp.expand(poly_expr)
        syms = [s for s in self.rel if e.has(s)]
        guard = 0
        while syms and guard < 12:
            guard += 1
            changed = False
            for s in syms:
                base, q = self.rel[s]
                P = sp.Poly(e, s)
                if P.degree() >= q:
                    new = sp.Integer(0)
                    for (k,), c in P.terms():
                        new += c * s ** (k % q) * base ** (k // q)
                    e = sp.expand(new)
                    changed = True
            syms = [s for s in self.rel if e.has(s)]
            if not changed:
                break
        return e


def residual(expr, radicals=None, extra_relations=()):
    """Return the normal-form numerator of expr (0 iff expr is identically zero)."""
    R = radicals or Radicals()
    e = R.rewrite(sp.sympify(expr))
    if e == 0:
        return sp.Integer(0)
    e = sp.together(e)
    num, _den = sp.fraction(e)
    num = R.reduce(num)
    for lhs, rhs in extra_relations:
        num = sp.expand(num.subs(lhs, rhs))
    return num


def _piecewise_cases(expr, limit=64):
    """[(condition, expression)] of a term containing Piecewise nodes (if-converted branches of the analysed code): the
    term is identically zero iff every case whose condition has interior points is.  Cases guarded by an equality are
    dropped (no interior); the conditions are relational terms and are not simplified."""
    e = sp.piecewise_fold(expr)
    if not isinstance(e, sp.Piecewise):
        if e.has(sp.Piecewise):
            return None
        return [(sp.true, e)]
    out = []
    neg = []
    for val, cond in e.args:
        c = sp.And(cond, *[sp.Not(n) for n in neg]) if cond is not sp.true else (sp.And(*[sp.Not(n) for n in neg]) if neg else sp.true)
        neg.append(cond)
        if isinstance(cond, sp.Eq):
            continue
        sub = _piecewise_cases(val, limit)
        if sub is None:
            return None
        out.extend((sp.And(c, c2), v) for c2, v in sub)
        if len(out) > limit:
            return None
    return out


def is_zero(expr, radicals=None, extra_relations=()):
    expr = sp.sympify(expr)
    if expr.has(sp.Piecewise):
        cases = _piecewise_cases(expr)
        if cases is not None:
            for cond, val in cases:
                z, r = is_zero(val, radicals, extra_relations)
                if not z:
                    return False, sp.Piecewise((r, cond), (0, True), evaluate=False)
            return True, sp.Integer(0)
    try:
        r = residual(expr, radicals, extra_relations)
    except (sp.PolynomialError, sp.CoercionFailed, ValueError, NotImplementedError):
        r = None
    if r == 0:
        return True, sp.Integer(0)
    # a term that evaluates to a non-zero number at one point is not identically zero: no simplification needed (and
    # simplify() of a large non-zero residual can take minutes)
    base = r if r is not None else expr
    if not expr.has(sp.Piecewise) and not extra_relations and not (radicals is not None and _has_radical_symbols(expr, radicals)):
        pt, _v = witness(expr, tries=2)
        if pt is not None:
            return False, base
    r2 = sp.simplify(base)
    if r2 == 0:
        return True, sp.Integer(0)
    return False, r2


def _has_radical_symbols(expr, radicals):
    try:
        return any(expr.has(s) for s in radicals.rel)
    except Exception:  # noqa: BLE001
        return True


def witness(expr, seed=0, tries=5):
    """A rational point at which expr evaluates to a non-zero number (for violation reports)."""
    rng = random.Random(seed)
    syms = sorted(expr.free_symbols, key=lambda s: s.name)
    for _ in range(tries):
        pt = {s: sp.Rational(rng.randint(1, 97), rng.randint(101, 199)) for s in syms}
        try:
            v = sp.N(expr.subs(pt), 30)
        except Exception:  # noqa: BLE001
            continue
        if v.is_number and abs(v) > 1e-20:
            return {str(k): str(v_) for k, v_ in pt.items()}, str(v)
    return None, None


def short(expr, n=300):
    s = sp.sstr(expr)
    return s if len(s) <= n else s[:n] + "…"
