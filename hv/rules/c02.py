"""C02 — integrators deliver their declared order and requested tolerance.

a  order conditions (all rooted trees up to the declared order) of the tableau the code actually applies
b  dense output: continuous order conditions on the weights extracted from the dense evaluators
c  the stepping code applies the table (effective tableau == table, row-sum condition, error estimate)
d  factories map every public order key to a scheme of that declared order
e  step-control arithmetic: error scale, clamps, endpoint adjustment, reject factor < 1

c-driver  the drivers apply the kernels faithfully on every grid (driver protocol of C10.d, re-filed); tolerances reach _error_scale in their own slots
e (added)  the accept test's error norm carries the factor h exactly once (kernel estimate is already h*sum e_i k_i)
c-propagate (round 4)  C10's propagation rules re-filed (the requested span is integrated however short it is compared with |t|)
"""
from __future__ import annotations

import ast
from fractions import Fraction

import numpy as np
import sympy as sp

from ..core import Check, AnalysisError
from .. import repoindex as ri
from .. import sites
from .. import trees
from ..kpe import Interp, SymObj, ClassRef, FuncRef, to_obj_array, S, OutsideFragment
from ..rk_extract import Recorder, stage_tableau, weights, poly_weights, frac
from ..regions import RegionDecider

RK = "hiten.algorithms.integrators.rk"
UT = "hiten.algorithms.integrators.utils"
CMB = "hiten.algorithms.poincare.centermanifold.backend"
TOL = Fraction(1, 10 ** 15)


def _sym_state(dim):
    return to_obj_array([sp.Symbol(f"y{d}", real=True) for d in range(dim)])


def _stub_integrator(obj, rec):
    obj.attrs["validate_inputs"] = lambda *a, **k: None
    obj.attrs["_maybe_constant_solution"] = lambda *a, **k: None
    obj.attrs["_build_rhs_wrapper"] = lambda system: rec


def _solution_override(ip, args, kwargs):
    names = ["times", "states", "derivatives"]
    d = dict(zip(names, args))
    d.update(kwargs)
    return SymObj(None, d, "solution")


def _order_check(chk, name, construct, A, b, p, exact):
    res = trees.order_residuals(A, b, p)
    worst = max(res, key=lambda tr: abs(tr[1]))
    thr = Fraction(0) if exact else TOL
    bad = [(trees.show(t), trees.order(t), float(r)) for t, r in res if abs(r) > thr]
    chk.count("order conditions evaluated", len(res))
    chk.check(not bad, "C02.a", construct,
              f"{name}: {len(bad)} of {len(res)} order conditions up to order {p} fail; worst tree {trees.show(worst[0])} "
              f"(order {trees.order(worst[0])}) residual {float(worst[1]):.3e}",
              sample=f"{name}: {len(res)} trees up to order {p}, max |residual| = {float(abs(worst[1])):.2e} "
                     f"({'exact rationals' if exact else 'digits as written'})",
              failing=str(bad[:6]))
    return not bad


def _rowsum_check(chk, name, construct, A, c, exact):
    thr = Fraction(0) if exact else TOL
    bad = [(i, float(sum(A[i]) - c[i])) for i in range(len(c)) if abs(sum(A[i]) - c[i]) > thr]
    chk.check(not bad, "C02.c", construct + "[c=rowsum]",
              f"{name}: abscissae used for the time argument differ from the row sums of A: {bad[:5]}",
              sample=f"{name}: c_i == sum_j a_ij for {len(c)} stages")


def _table(modname, name):
    v = Interp().module_value(modname, name)
    return to_obj_array(v)


def _tab_rows(Aarr, n=None):
    Aarr = to_obj_array(Aarr)
    n = Aarr.shape[0] if n is None else n
    return [[frac(Aarr[i, j]) for j in range(n)] for i in range(n)]


def run(tier):
    chk = Check("C02", tier, "proof",
                "For every scheme reachable from the public factories the tableau the stepping code actually applies is "
                "extracted by partial evaluation (right-hand side replaced by a recorder of fresh stage symbols) and all "
                "rooted-tree order conditions up to the declared order are evaluated in exact rational arithmetic on the "
                "digits written in the source; dense-output weights are extracted the same way and must satisfy the "
                "continuous order conditions as polynomial identities in theta.",
                trusted_base=["python ast", "Butcher's order-condition theorem (rooted trees)", "hv.kpe", "fractions.Fraction"])
    dim = 2
    t, h = sp.Symbol("t", real=True), sp.Symbol("h", positive=True)
    ip0 = Interp()
    # ------------------------------------------------------------------ fixed-step schemes through the public factory
    rk_cls = ip0.module_value(RK, "RungeKutta")
    fixed_map = ip0.getattr(ip0.module_value(RK, "FixedRK"), "_map")
    adaptive_map = ip0.getattr(ip0.module_value(RK, "AdaptiveRK"), "_map")
    public_map = ip0.getattr(rk_cls, "_map")
    chk.floor("fixed-step orders", len(fixed_map), 3)
    chk.floor("adaptive orders", len(adaptive_map), 2)
    eff = {}
    for key in sorted(public_map):
        want_order = {45: 5, 853: 8}.get(key, key)
        ip = Interp(overrides={"_Solution": _solution_override})
        try:
            obj = ip.apply(rk_cls, [], {"order": key})
        except OutsideFragment as exc:
            raise AnalysisError(f"RungeKutta(order={key}) could not be constructed statically: {exc}")
        if not isinstance(obj, SymObj) or obj.cls is None:
            raise AnalysisError(f"RungeKutta(order={key}) did not produce an integrator instance")
        cname = obj.cls.node.name
        declared = ip.getattr(obj, "order")
        chk.check(declared == want_order, "C02.d", f"{RK}::RungeKutta._map[{key}]",
                  f"RungeKutta(order={key}) builds {cname} whose declared order is {declared}, expected {want_order}",
                  sample=f"RungeKutta(order={key}) -> {cname} (declared order {declared})")
        family = "fixed" if key in fixed_map else "adaptive"
        if family == "fixed":
            rec = Recorder(dim)
            _stub_integrator(obj, rec)
            y0 = _sym_state(dim)
            system = SymObj(None, {"rhs": rec, "dim": dim}, "system")
            sol = ip.apply(ip.getattr(obj, "integrate"), [system, y0.copy(), to_obj_array([t, t + h])], {})
            chk.count("functions partially evaluated", 3)
            states = to_obj_array(sol.attrs["states"])
            times = to_obj_array(sol.attrs["times"])
            c0 = f"{RK}::{cname}"
            chk.check(states.shape == (2, dim) and all(S(states[0, d]) == y0[d] for d in range(dim)), "C02.c", c0 + "[first sample]",
                      "first returned sample is not the initial state", sample="states[0] == y0")
            chk.check(list(times) == [t, t + h], "C02.c", c0 + "[times]", f"returned times are not the requested grid: {list(times)}",
                      sample="times == t_vals")
            # stage evaluations: call 0 is derivs[0]=f(t0,y0), then s stages, then derivs[1]
            ncall = len(rec.calls)
            s = to_obj_array(ip.getattr(obj, "_B_HIGH")).shape[0]
            if ncall != s + 2:
                raise AnalysisError(f"{cname}: expected {s}+2 right-hand-side evaluations for one step, saw {ncall}")
            sub = Recorder(dim)
            sub.calls = rec.calls[1:1 + s]
            sub.syms = rec.syms[1:1 + s]
            A, c = stage_tableau(sub, t, y0, h)
            b = weights(states[1], y0, h, sub, f"{cname} update")
            # the derivative sample after the step is f at the new time/state
            tl, yl = rec.calls[-1]
            chk.check(sp.expand(tl - (t + h)) == 0 and all(sp.expand(S(yl[d]) - S(states[1, d])) == 0 for d in range(dim)),
                      "C02.c", c0 + "[derivative sample]", "derivative sample is not f(t+h, y_new)")
            exact = True
            eff[key] = (A, b, c)
            _order_check(chk, f"{cname} (RungeKutta(order={key}))", c0 + f"[order {declared}]", A, b, int(declared), exact=(key != 8))
            _rowsum_check(chk, cname, c0, A, c, exact=(key != 8))
            # table agreement
            Atab = _tab_rows(ip.getattr(obj, "_A"), s)
            btab = [frac(x) for x in to_obj_array(ip.getattr(obj, "_B_HIGH"))]
            ok = all(A[i][j] == Atab[i][j] for i in range(s) for j in range(i)) and b == btab
            chk.check(ok, "C02.c", c0 + "[applies table]", f"{cname}: effective tableau differs from the table it was constructed with",
                      sample=f"{cname}: k_i = f(t+c_i h, y+h*sum_(j<i) a_ij k_j), y+ = y+h*sum b_j k_j for s={s}")
            upper = [(i, j) for i in range(s) for j in range(i, s) if Atab[i][j] != 0]
            chk.check(not upper, "C02.a", c0 + "[explicit]", f"{cname}: table has non-zero entries on/above the diagonal {upper[:4]} "
                      f"which the explicit kernels never read")
    _rk45(chk, tier, dim, t, h)
    _dop853(chk, tier, dim, t, h)
    _cm_copy(chk, dim, t, h)
    _generic_kernel_symbolic(chk, tier, t, h)
    _controller(chk)
    _error_norm_scaling(chk)
    _forwarding(chk)
    # the drivers apply the step kernels faithfully on every output grid (step = distance to the next node, dense output
    # evaluated on the accepted segment with that segment's start time): the driver protocol of C10.d, re-filed here
    from . import c10, c20
    from .common import Relabel
    c10._d_plain_drivers(Relabel(chk, {"C10.d": "C02.c-driver"}), tier)
    c10._a_propagate_options(Relabel(chk, {"C10.d": "C02.e-forward"}))
    # a cached propagation is the one computed with the requested method and order
    c20._b_key_params(Relabel(chk, {"C20.b": "C02.d-cache"}), [x for x in c20._sites() if x.mod.name.endswith("services.system")])
    # the requested span is integrated, however short it is compared with |t| (only exactly coinciding end points are a zero-length span), by
    # the direction-wrapped system, on the requested grid: C10's propagation rules re-filed
    c10._a_propagate(Relabel(chk, {"C10.a": "C02.c-propagate", "C10.b": "C02.c-propagate", "C10.d": "C02.c-propagate"}))
    return chk


# ---------------------------------------------------------------------------------------- RK45
def _rk45(chk, tier, dim, t, h):
    ip = Interp()
    cls = ip.module_value(RK, "_RK45")
    A, B, C, E = (to_obj_array(ip.getattr(cls, n)) for n in ("_A", "_B_HIGH", "_C", "_E"))
    p = ip.getattr(cls, "_p")
    P = _table(RK, "RK45_P")
    rec = Recorder(dim)
    y = _sym_state(dim)
    out = ip.call_function(RK, "rk45_step_jit_kernel", [rec, t, y.copy(), h, A, B, C, E])
    chk.count("functions partially evaluated")
    y_high, y_low, err, k = out
    s = len(rec.calls)  # 7 including FSAL
    Ae, ce = stage_tableau(rec, t, y, h)
    b = weights(y_high, y, h, rec, "rk45 y_high")
    c0 = f"{RK}::rk45_step_jit_kernel"
    _order_check(chk, "RK45 high-order solution", c0 + f"[order {p}]", Ae, b, int(p), exact=True)
    _rowsum_check(chk, "RK45", c0, Ae, ce, exact=True)
    chk.check(Ae[s - 1][: s - 1] == b[: s - 1] and ce[s - 1] == 1, "C02.c", c0 + "[FSAL]",
              "the extra stage is not f(t+h, y_high) (first-same-as-last)", sample="k[6] = f(t+h, y_high)")
    # k rows are the recorded stage symbols in order
    karr = to_obj_array(k)
    chk.check(karr.shape == (s, dim) and all(karr[i, d] == rec.syms[i][d] for i in range(s) for d in range(dim)), "C02.c",
              c0 + "[k layout]", "returned stage matrix rows are not the stage derivatives in order")
    e = weights(err, to_obj_array([0] * dim), h, rec, "rk45 err_vec")
    W = trees.Weights(Ae, s)
    bad = []
    n_tr = 0
    for n in range(1, int(p)):
        for tr in trees.trees_of_order(n):
            n_tr += 1
            r = W.weight(e, tr)
            if r != 0:
                bad.append((trees.show(tr), float(r)))
    chk.count("order conditions evaluated", n_tr)
    chk.check(not bad and any(x != 0 for x in e), "C02.c", c0 + "[error estimate]",
              f"err_vec is not the difference to an embedded order-{int(p) - 1} solution: {bad[:4]}",
              sample=f"sum_i E_i Phi_i(t) = 0 for all {n_tr} trees of order <= {int(p) - 1}; E != 0")
    chk.check(all(sp.expand(S(y_low[d]) - (S(y_high[d]) - S(err[d]))) == 0 for d in range(dim)), "C02.c", c0 + "[y_low]",
              "y_low is not y_high - err_vec")
    # ---- dense output (C02.b)
    theta = sp.Symbol("theta", real=True)
    Q = ip.call_function(RK, "_rk45_build_Q_cache", [karr.copy(), P, dim])
    yv = to_obj_array(ip.call_function(RK, "_rk45_eval_dense", [y.copy(), Q, P, theta, h]))
    chk.count("functions partially evaluated", 2)
    w = poly_weights(yv, y, h, rec, theta, "rk45 dense")
    _dense_check(chk, "RK45 dense output", f"{RK}::_rk45_eval_dense", Ae, w, b, s, 4)


def _dense_check(chk, name, construct, A, w, b, s, q):
    """sum_i w_i(theta) Phi_i(t) == theta^|t| / gamma(t) for |t| <= q; w(1) = b; w(0) = 0."""
    W = trees.Weights(A, s)
    bad = []
    n_tr = 0
    worst = Fraction(0)
    for n in range(1, q + 1):
        for tr in trees.trees_of_order(n):
            n_tr += 1
            phi = W.phi(tr)
            poly = {}
            for i in range(s):
                for pw, cf in w[i].items():
                    poly[pw] = poly.get(pw, Fraction(0)) + cf * phi[i]
            poly[n] = poly.get(n, Fraction(0)) - Fraction(1, trees.gamma(tr))
            m = max((abs(v) for v in poly.values()), default=Fraction(0))
            worst = max(worst, m)
            if m > TOL:
                bad.append((trees.show(tr), n, float(m)))
    chk.count("order conditions evaluated", n_tr)
    chk.check(not bad, "C02.b", construct + f"[continuous order {q}]",
              f"{name}: {len(bad)} of {n_tr} continuous order conditions (order <= {q}) fail: {bad[:4]}",
              sample=f"{name}: sum_i w_i(theta) Phi_i(t) = theta^|t|/gamma(t) for {n_tr} trees, max coefficient residual {float(worst):.2e}")
    at1 = [sum(w[i].values(), Fraction(0)) for i in range(s)]
    at0 = [w[i].get(0, Fraction(0)) for i in range(s)]
    bb = list(b) + [Fraction(0)] * (s - len(b))
    chk.check(all(abs(x - y) <= TOL for x, y in zip(at1, bb)), "C02.b", construct + "[theta=1]",
              f"{name}: weights at theta=1 are not the step weights b: {[float(x - y) for x, y in zip(at1, bb)]}",
              sample="w_i(1) == b_i")
    chk.check(all(x == 0 for x in at0), "C02.b", construct + "[theta=0]", f"{name}: dense output at theta=0 is not the left node",
              sample="w_i(0) == 0 (first sample is exactly the node value)")


# ---------------------------------------------------------------------------------------- DOP853
def _dop853(chk, tier, dim, t, h):
    ip = Interp()
    cls = ip.module_value(RK, "_DOP853")
    A, B, C, E5, E3 = (to_obj_array(ip.getattr(cls, n)) for n in ("_A", "_B_HIGH", "_C", "_E5", "_E3"))
    p = int(ip.getattr(cls, "_p"))
    rec = Recorder(dim)
    y = _sym_state(dim)
    dec = lambda cond: True  # denom[i] > 0: generic (non-zero) error estimate  # noqa: E731
    ipk = Interp(decide=dec)
    out = ipk.call_function(RK, "dop853_step_jit_kernel", [rec, t, y.copy(), h, A, B, C, E5, E3])
    chk.count("functions partially evaluated")
    y_high, y_low, err_vec, err5, err3, k = out
    s = len(rec.calls)  # 13 incl. FSAL
    Ae, ce = stage_tableau(rec, t, y, h)
    b = weights(y_high, y, h, rec, "dop853 y_high")
    c0 = f"{RK}::dop853_step_jit_kernel"
    _order_check(chk, "DOP853 high-order solution", c0 + f"[order {p}]", Ae, b, p, exact=False)
    _rowsum_check(chk, "DOP853", c0, Ae, ce, exact=False)
    chk.check(Ae[s - 1][: s - 1] == b[: s - 1] and ce[s - 1] == 1, "C02.c", c0 + "[FSAL]",
              "the extra stage is not f(t+h, y_high)", sample="k[12] = f(t+h, y_high)")
    W = trees.Weights(Ae, s)
    zero = to_obj_array([0] * dim)
    for nm, vec, q in (("err5", err5, 5), ("err3", err3, 3)):
        e = weights(vec, zero, h, rec, f"dop853 {nm}")
        bad, n_tr = [], 0
        for n in range(1, q + 1):
            for tr in trees.trees_of_order(n):
                n_tr += 1
                r = W.weight(e, tr)
                if abs(r) > TOL:
                    bad.append((trees.show(tr), float(r)))
        chk.count("order conditions evaluated", n_tr)
        chk.check(not bad and any(x != 0 for x in e), "C02.c", c0 + f"[{nm}]",
                  f"{nm} is not h*sum E_i k_i with weights annihilating all trees of order <= {q}: {bad[:4]}",
                  sample=f"{nm}: sum_i E_i Phi_i(t) = 0 for {n_tr} trees of order <= {q}")
    # err_vec = err5*|err5|/hypot(|err5|, 0.1|err3|)
    R_ok = True
    for d in range(dim):
        want = S(err5[d]) * sp.Abs(S(err5[d])) / sp.sqrt(sp.Abs(S(err5[d])) ** 2 + (sp.Rational(1, 10) * sp.Abs(S(err3[d]))) ** 2)
        diff = sp.simplify(S(err_vec[d]) - want)
        R_ok = R_ok and diff == 0
    chk.check(R_ok, "C02.c", c0 + "[err_vec]", "combined error is not err5*|err5|/sqrt(err5^2 + 0.01 err3^2)",
              sample="err = err5*|err5|/hypot(|err5|, 0.1|err3|)")
    # ---- dense output
    theta = sp.Symbol("theta", real=True)
    D = _table(RK, "DOP853_D")
    A_full, C_full = _table(RK, "DOP853_A"), _table(RK, "DOP853_C")
    n_ext = int(Interp().module_value(RK, "DOP853_N_STAGES_EXTENDED"))
    ipow = int(Interp().module_value(RK, "DOP853_INTERPOLATOR_POWER"))
    karr = to_obj_array(k)
    f_old, f_new = karr[0].copy(), karr[s - 1].copy()
    y_new = to_obj_array(y_high).copy()
    Fc = ip.call_function(RK, "_dop853_build_dense_cache", [rec, t, y.copy(), f_old, y_new, f_new, h, karr.copy(), A_full, C_full, D, n_ext, ipow])
    yv = to_obj_array(ip.call_function(RK, "_dop853_eval_dense", [y.copy(), Fc, ipow, theta]))
    chk.count("functions partially evaluated", 2)
    s_ext = len(rec.calls)
    if s_ext != n_ext:
        raise AnalysisError(f"dense cache evaluated {s_ext - s} extra stages, expected {n_ext - s}")
    Aext, cext = stage_tableau(rec, t, y, h)
    _rowsum_check(chk, "DOP853 extended stages", f"{RK}::_dop853_build_dense_cache", Aext, cext, exact=False)
    # extended rows equal the table rows
    Afull_rows = _tab_rows(A_full, n_ext)
    ok = all(Aext[i][j] == Afull_rows[i][j] for i in range(s, n_ext) for j in range(i))
    chk.check(ok, "C02.c", f"{RK}::_dop853_build_dense_cache[applies table]", "extra dense stages do not apply rows 13..15 of the extended table",
              sample="k_r = f(t + C_r h, y + h sum_(j<r) A[r,j] k_j), r = 13..15")
    w = poly_weights(yv, y, h, rec, theta, "dop853 dense")
    _dense_check(chk, "DOP853 dense output", f"{RK}::_dop853_eval_dense", Aext, w, b, n_ext, 7 if True else 6)


# ---------------------------------------------------------------------------------------- CM backend copy
def _cm_copy(chk, dim_unused, t, h):
    """poincare/centermanifold/backend.py::_integrate_rk_ham with the coefficient table it selects."""
    n_dof = 2
    dim = 2 * n_dof
    for order in (4, 6, 8):
        ip = Interp()
        A, B, C = ip.call_function(CMB, "_get_rk_coefficients", [order])
        calls = []
        syms = []

        def dHdP(ipx, args, kwargs, _c=calls, _s=syms):
            Q, P = to_obj_array(args[0]).copy(), to_obj_array(args[1]).copy()
            i = len(_c)
            out = to_obj_array([sp.Symbol(f"K{i}_{d}", real=True) for d in range(n_dof)])
            _c.append((Q, P))
            _s.append([out, None])
            return out.copy()

        def dHdQ(ipx, args, kwargs, _c=calls, _s=syms):
            i = len(_c) - 1
            Q, P = to_obj_array(args[0]), to_obj_array(args[1])
            Q0, P0 = _c[i]
            if any(sp.expand(S(a) - S(b)) != 0 for a, b in zip(list(Q) + list(P), list(Q0) + list(P0))):
                raise AnalysisError("CM stepper evaluates dH/dQ and dH/dP at different stage points")
            out = to_obj_array([-sp.Symbol(f"K{i}_{n_dof + d}", real=True) for d in range(n_dof)])
            _s[i][1] = out
            return out.copy()

        ip = Interp(overrides={"_eval_dH_dP": dHdP, "_eval_dH_dQ": dHdQ})
        y0 = _sym_state(dim)
        traj = to_obj_array(ip.call_function(CMB, "_integrate_rk_ham", [y0.copy(), to_obj_array([t, t + h]), A, B, C, sp.Symbol("jac"), sp.Symbol("clmo")]))
        chk.count("functions partially evaluated", 2)
        rec = Recorder(dim)
        for i, (Q, P) in enumerate(calls):
            rec.calls.append((t, np.concatenate([Q, P])))
            rec.syms.append(to_obj_array([sp.Symbol(f"K{i}_{d}", real=True) for d in range(dim)]))
        # (k = (dH/dP, -dH/dQ): the sign is part of C17; here k's are the stage symbols by construction)
        Ae, _ = stage_tableau(rec, t, y0, h)
        b = weights(traj[1], y0, h, rec, "cm update")
        c0 = f"{CMB}::_integrate_rk_ham[order={order}]"
        chk.check(all(S(traj[0, d]) == y0[d] for d in range(dim)), "C02.c", c0 + "[first sample]", "first sample is not the initial state")
        ok = _order_check(chk, f"CM-map fixed stepper with order key {order}", c0, Ae, b, order, exact=(order != 8))
    # default branch of the selector must not hand a lower-order table to a higher order key
    chk.count("schemes analysed", 3)


# ---------------------------------------------------------------------------------------- generic kernel, symbolic table
def _generic_kernel_symbolic(chk, tier, t, h):
    """rk_embedded_step_jit_kernel with symbolic A,B,C (zero-skip guards recognised): defining recurrence."""
    for s in ((3,) if tier == "quick" else (2, 3, 4, 5)):
        dim = 2
        A = np.empty((s, s), dtype=object)
        for i in range(s):
            for j in range(s):
                A[i, j] = sp.Symbol(f"a{i}{j}", real=True)
        B = to_obj_array([sp.Symbol(f"b{j}", real=True) for j in range(s)])
        BL = to_obj_array([sp.Symbol(f"bl{j}", real=True) for j in range(s)])
        C = to_obj_array([sp.Symbol(f"c{j}", real=True) for j in range(s)])
        rec = Recorder(dim)
        y = _sym_state(dim)
        ip = Interp()
        y_high, y_low, err = ip.call_function(RK, "rk_embedded_step_jit_kernel", [rec, t, y.copy(), h, A, B, BL, C, True])
        chk.count("functions partially evaluated")
        ok = len(rec.calls) == s
        detail = ""
        for i in range(min(s, len(rec.calls))):
            ti, yi = rec.calls[i]
            want_t = t + (C[i] * h if i > 0 else 0)
            if sp.expand(ti - want_t) != 0:
                ok, detail = False, f"stage {i} time {ti}"
            for d in range(dim):
                want = y[d] + h * sum((A[i, j] * rec.syms[j][d] for j in range(i)), sp.Integer(0))
                if sp.expand(sp.piecewise_fold(S(yi[d])) - want) != 0:
                    ok, detail = False, f"stage {i} argument {yi[d]}"
        for d in range(dim):
            if sp.expand(S(y_high[d]) - (y[d] + h * sum((B[j] * rec.syms[j][d] for j in range(s)), sp.Integer(0)))) != 0:
                ok, detail = False, f"y_high[{d}] = {y_high[d]}"
            if sp.expand(S(y_low[d]) - (y[d] + h * sum((BL[j] * rec.syms[j][d] for j in range(s)), sp.Integer(0)))) != 0:
                ok, detail = False, f"y_low[{d}] = {y_low[d]}"
            if sp.expand(S(err[d]) - (S(y_high[d]) - S(y_low[d]))) != 0:
                ok, detail = False, "err_vec"
        chk.check(ok, "C02.c", f"{RK}::rk_embedded_step_jit_kernel[symbolic s={s}]",
                  f"generic embedded step is not the defining recurrence for an arbitrary {s}-stage table: {detail}",
                  sample=f"s={s}: k_i=f(t+c_i h, y+h sum_(j<i) a_ij k_j); y_high=y+h sum b_j k_j; y_low with b_low; err=y_high-y_low")


# ---------------------------------------------------------------------------------------- controller arithmetic
def _error_norm_scaling(chk):
    """The quantity compared with 1 in the accept test is the norm of the local error estimate h*sum_i e_i k_i / scale.
    The step kernels already return err (err5, err3) = h * sum e_i k_i (C02.c); the drivers therefore may not multiply by |h|
    again: an estimate low by the factor |h| lets the true error exceed the tolerance by 1/|h| (growing as the tolerance,
    and with it h, shrinks).  Each adaptive driver is run twice in the harness with the same abstract step results and two
    different step sizes; the accept-test expression must not change."""
    from ..drivers import Harness, RK as RKM
    from . import c10, c11
    drivers = [(f, q, hm, False) for f, q, hm in c10.PLAIN if f != "fixed"] + [(f, q, hm, True) for f, q, hm in c11.DRIVERS if f != "fixed"]
    for fam, q, ham, ev in drivers:
        exprs = []
        for h0 in (sp.Rational(1, 2), sp.Rational(1, 4)):
            hns = Harness(accept_tape=(True,), ham=ham, h0=h0, event_tape=(sp.Integer(-1),) * 6)
            if ev:
                hns.run(RKM, q, t0=0, tmax=1)
            else:
                hns.run(RKM, q, grid=["0", "1"])
            if not hns.err_conds:
                raise AnalysisError(f"{q}: no accept/reject test on the error estimate was reached")
            k, cond = hns.err_conds[0]
            lhs, rhs = (cond.lhs, cond.rhs) if isinstance(cond, (sp.Le, sp.Lt)) else (cond.rhs, cond.lhs)
            exprs.append(sp.simplify(lhs - rhs + 1) if rhs != 1 else lhs)
        ratio = sp.simplify(exprs[0] / exprs[1])
        chk.check(ratio == 1, "C02.e", f"{RKM}::{q}[error norm]",
                  f"the accept test's error norm changes by the factor {ratio} when only the step size is halved (same kernel error estimates): the estimate h*sum e_i k_i returned "
                  f"by the kernel is multiplied by |h| a second time, so errors up to 1/|h| times the tolerance are accepted", sample=f"{q}: err_norm = ||kernel estimate / scale||, no further factor h")
    chk.count("driver tapes unrolled", 2 * len(drivers))


def _controller(chk):
    ip = Interp()
    rt, at = sp.Symbol("rtol", positive=True), sp.Symbol("atol", positive=True)
    y = to_obj_array([sp.Symbol("u0", real=True), sp.Symbol("u1", real=True)])
    yh = to_obj_array([sp.Symbol("v0", real=True), sp.Symbol("v1", real=True)])
    sc = to_obj_array(ip.call_function(UT, "_error_scale", [y, yh, rt, at]))
    ok = all(sp.simplify(sc[d] - (at + rt * sp.Max(sp.Abs(y[d]), sp.Abs(yh[d])))) == 0 for d in range(2))
    chk.check(ok, "C02.e", f"{UT}::_error_scale", f"error scale is not atol + rtol*max(|y|,|y_new|): {list(sc)}",
              sample="scale = atol + rtol*max(|y|, |y_high|)")
    # clamp / endpoint: order-abstract regions
    hh, mx, mn = sp.symbols("h_ max_ min_", real=True)
    for rep, want in (({hh: 5, mx: 3, mn: 1}, 3), ({hh: 2, mx: 3, mn: 1}, 2), ({hh: sp.Rational(1, 2), mx: 3, mn: 1}, 1),
                      ({hh: 7, mx: 4, mn: 2}, 4), ({hh: 3, mx: 3, mn: 1}, 3), ({hh: 1, mx: 3, mn: 1}, 1)):
        got = Interp(decide=RegionDecider(rep)).call_function(UT, "_clamp_step", [hh, mx, mn])
        chk.check(S(got).subs(rep) == want, "C02.e", f"{UT}::_clamp_step[{sorted((str(k), str(v)) for k, v in rep.items())}]",
                  f"clamp(h={rep[hh]}, max={rep[mx]}, min={rep[mn]}) -> {S(got).subs(rep)} expected {want}", sample=f"{rep} -> {want}")
    tt, te = sp.symbols("t_ tend_", real=True)
    for rep, want in (({tt: 0, hh: 2, te: 1}, 1), ({tt: 0, hh: sp.Rational(1, 2), te: 1}, sp.Rational(1, 2)), ({tt: 0, hh: 1, te: 1}, 1),
                      ({tt: 3, hh: 5, te: 4}, 1)):
        got = Interp(decide=RegionDecider(rep)).call_function(UT, "_adjust_step_to_endpoint", [tt, hh, te])
        chk.check(S(got).subs(rep) == want, "C02.e", f"{UT}::_adjust_step_to_endpoint[{sorted((str(k), str(v)) for k, v in rep.items())}]",
                  f"endpoint adjustment t={rep[tt]}, h={rep[hh]}, t_end={rep[te]} -> {S(got).subs(rep)} expected {want}",
                  sample=f"{rep} -> {want} (never steps past t_end)")
    # reject factor: in [MIN_FACTOR, MAX_FACTOR] and < 1 whenever err_norm > 1
    en, od = sp.Symbol("err", positive=True), sp.Symbol("p", positive=True)
    mnf, mxf, saf = (S(ip.module_value(UT, n)) for n in ("_MIN_FACTOR", "_MAX_FACTOR", "_SAFETY"))
    chk.check(0 < mnf < 1 and mxf > 1 and 0 < saf < 1, "C02.e", f"{UT}::[_SAFETY,_MIN_FACTOR,_MAX_FACTOR]",
              f"controller constants out of range: safety={saf}, min={mnf}, max={mxf}", sample=f"safety={saf}, min={mnf}, max={mxf}")
    for order in (5, 8):
        for err in (sp.Rational(3, 2), sp.Integer(10), sp.Integer(10) ** 6):
            rep = {en: err, od: order}
            got = S(Interp(decide=RegionDecider(rep)).call_function(UT, "_pi_reject_factor", [en, od]))
            val = sp.N(got.subs(rep), 30)
            chk.check(val < 1 and val >= mnf - sp.Rational(1, 10 ** 20), "C02.e", f"{UT}::_pi_reject_factor[p={order},err={err}]",
                      f"rejecting a step with err_norm={err} multiplies h by {val}; must be in [{mnf},1)",
                      sample=f"p={order}, err={err}: factor={float(val):.4f}")
        # symbolic form in the unclamped region
        rep = {en: sp.Rational(3, 2), od: order}
        got = S(Interp(decide=RegionDecider(rep)).call_function(UT, "_pi_reject_factor", [en, od]))
        chk.check(sp.simplify(got - saf * en ** (-1 / od)) == 0, "C02.e", f"{UT}::_pi_reject_factor[form,p={order}]",
                  f"reject factor is not safety*err^(-1/p): {got}", sample=f"factor = {got}")
        for err, prev in ((sp.Rational(1, 2), sp.Rational(-1)), (sp.Rational(1, 2), sp.Rational(1, 4))):
            ep = sp.Symbol("errprev", real=True)
            rep = {en: err, od: order, ep: prev}
            got = S(Interp(decide=RegionDecider(rep)).call_function(UT, "_pi_accept_factor", [en, ep, od]))
            val = sp.N(got.subs(rep), 30)
            chk.check(mnf <= val <= mxf, "C02.e", f"{UT}::_pi_accept_factor[p={order},err={err},prev={prev}]",
                      f"accept factor {val} outside [{mnf},{mxf}]", sample=f"accept factor {float(val):.4f}")
            beta = 1 / (od + 1)
            want = saf * en ** (-beta) * (ep ** (sp.Rational(2, 5) * beta) if prev > 0 else 1)
            chk.check(sp.simplify(got - want) == 0, "C02.e", f"{UT}::_pi_accept_factor[form,p={order},prev={'>0' if prev > 0 else '<0'}]",
                      f"accept factor is not the PI law safety*err^(-1/(p+1))*prev^(0.4/(p+1)): {got}", sample=f"factor = {got}")
    chk.count("order-abstract evaluations", 30)


# ---------------------------------------------------------------------------------------- argument forwarding
_FORWARD = {"A": ("self._A",), "B_HIGH": ("self._B_HIGH",), "C": ("self._C",), "E": ("self._E",), "E5": ("self._E5",),
            "E3": ("self._E3",), "P": ("RK45_P",), "D": ("DOP853_D",), "A_full": ("DOP853_A",), "C_full": ("DOP853_C",),
            "n_stages_extended": ("DOP853_N_STAGES_EXTENDED",), "interpolator_power": ("DOP853_INTERPOLATOR_POWER",),
            "rtol": ("self._rtol",), "atol": ("self._atol",), "order": ("self._p",), "max_step": ("self._max_step",),
            "min_step": ("self._min_step",)}


def _forwarding(chk):
    """integrate() hands its own tables/tolerances to the drivers under the right parameter names, and the drivers pass
    their table parameters to the step kernels position-by-name."""
    mod = ri.need_module(RK)
    n = 0
    for cls in ("_RK45", "_DOP853"):
        _, cdef = ri.find_def(RK, cls)
        integ = next(f for f in cdef.body if isinstance(f, ast.FunctionDef) and f.name == "integrate")
        for call in ast.walk(integ):
            if isinstance(call, ast.Call) and isinstance(call.func, ast.Attribute) and call.func.attr.startswith("_integrate_"):
                ddef = next((f for f in cdef.body if isinstance(f, ast.FunctionDef) and f.name == call.func.attr), None)
                if ddef is None:
                    for bm, bc in ri.mro(mod, cdef)[1:]:
                        ddef = next((f for f in bc.body if isinstance(f, ast.FunctionDef) and f.name == call.func.attr), None)
                        if ddef is not None:
                            break
                if ddef is None:
                    raise AnalysisError(f"anchor: driver {call.func.attr} called by {cls}.integrate not found")
                is_static = any(ast.unparse(d).endswith("staticmethod") for d in ddef.decorator_list) or not (ddef.args.args and ddef.args.args[0].arg in ("self", "cls"))
                bound, extra, star = sites.bind_call(call, ddef, skip_self=not is_static)
                if star:
                    chk.note(f"{cls}.integrate calls {call.func.attr} with *args/**kwargs: forwarding judged by the driver harness only")
                    continue
                for pname, arg in bound.items():
                    if pname in _FORWARD:
                        n += 1
                        got = sites.arg_text(integ, arg)
                        chk.check(got in _FORWARD[pname], "C02.c-forward", f"{RK}::{cls}.integrate[{call.func.attr}.{pname}]",
                                  f"{cls}.integrate passes {pname}={got}; expected {_FORWARD[pname][0]}", nontrivial=False,
                                  sample=f"{call.func.attr}({pname}={got})")
    chk.floor("driver argument forwardings", n, 80)
    # kernel calls inside drivers: table parameters are passed under their own names
    kernels = {}
    for q, fn in ri.functions_in(mod):
        if fn.name in ("rk45_step_jit_kernel", "dop853_step_jit_kernel", "rk_embedded_step_jit_kernel", "rk45_step_ham_jit_kernel",
                       "dop853_step_ham_jit_kernel", "rk_embedded_step_ham_jit_kernel", "_rk45_build_Q_cache", "_rk45_eval_dense",
                       "_dop853_build_dense_cache", "_dop853_build_dense_cache_ham", "_dop853_eval_dense"):
            kernels[fn.name] = fn
    m = 0
    table_params = {"A", "B_HIGH", "C", "E", "E5", "E3", "P", "D", "A_full", "C_full", "n_stages_extended", "interpolator_power",
                    "jac_H", "clmo_H", "n_dof"}
    for q, fn in ri.functions_in(mod):
        if not (fn.name.startswith("_integrate_") or "refine_in_step" in fn.name):
            continue
        for call in ast.walk(fn):
            if isinstance(call, ast.Call) and isinstance(call.func, ast.Name) and call.func.id in kernels:
                bound, extra, star = sites.bind_call(call, kernels[call.func.id])
                for pname, arg in bound.items():
                    if pname in table_params:
                        m += 1
                        argr = sites.resolve_local(fn, arg)
                        # a different *table* name is a swap; an unrelated name (renamed parameter) is left to the driver
                        # harness, which checks that the same table objects reach the kernels (C10.d / C11.b / C17.c)
                        swapped = not isinstance(argr, ast.Name) or (argr.id != pname and argr.id in table_params)
                        if isinstance(argr, ast.Name) and argr.id != pname and not swapped:
                            chk.note(f"{q} passes {argr.id} for the kernel's parameter {pname}: judged by the driver harness")
                            continue
                        chk.check(not swapped, "C02.c-forward", f"{RK}::{q}[{call.func.id}.{pname}]",
                                  f"{q} passes {ast.unparse(arg)} for the kernel's parameter {pname}", nontrivial=False,
                                  sample=f"{call.func.id}(..., {pname}={ast.unparse(arg)})")
    chk.floor("kernel table-parameter forwardings", m, 60)
