"""Rooted trees, density gamma(t) and Runge-Kutta elementary weights in exact arithmetic.

A tree is a sorted tuple of its child trees; the single vertex is ().  Generated, not tabulated:
1,1,2,4,9,20,48,115 trees of order 1..8 (200 in total).
"""
from __future__ import annotations

from fractions import Fraction
from functools import lru_cache
from itertools import combinations_with_replacement


@lru_cache(maxsize=None)
def trees_of_order(n):
    if n == 1:
        return ((),)
    out = set()
    # forests with total order n-1
    for forest in _forests(n - 1, n - 1):
        out.add(tuple(sorted(forest)))
    return tuple(sorted(out))


@lru_cache(maxsize=None)
def _forests(total, max_part):
    """Multisets of trees with orders summing to `total`, largest tree order <= max_part."""
    if total == 0:
        return ((),)
    res = set()
    for k in range(min(total, max_part), 0, -1):
        # choose multiplicity m of trees of order k
        for m in range(1, total // k + 1):
            for combo in combinations_with_replacement(trees_of_order(k), m):
                for rest in _forests(total - m * k, k - 1):
                    res.add(tuple(sorted(combo + rest)))
    return tuple(sorted(res))


@lru_cache(maxsize=None)
def order(t):
    return 1 + sum(order(c) for c in t)


@lru_cache(maxsize=None)
def gamma(t):
    g = order(t)
    for c in t:
        g *= gamma(c)
    return g


def show(t):
    return "[" + "".join(show(c) for c in t) + "]" if t else "."


class Weights:
    """Elementary weights for a tableau (A: s x s strictly lower, given as list of lists of Fraction)."""

    def __init__(self, A, s=None):
        self.A = A
        self.s = s if s is not None else len(A)
        self._phi = {}

    def phi(self, t):
        """Stage vector Phi_i(t) = prod_children (sum_j a_ij Phi_j(child))."""
        if t in self._phi:
            return self._phi[t]
        s = self.s
        vec = [Fraction(1)] * s
        for c in t:
            pc = self.phi(c)
            for i in range(s):
                acc = Fraction(0)
                row = self.A[i]
                for j in range(min(i, len(row))):
                    a = row[j]
                    if a:
                        acc += a * pc[j]
                vec[i] *= acc
        self._phi[t] = vec
        return vec

    def weight(self, b, t):
        p = self.phi(t)
        return sum((bi * pi for bi, pi in zip(b, p) if bi), Fraction(0))


def order_residuals(A, b, p, s=None):
    """[(tree, residual)] for all trees of order <= p: sum b_i Phi_i(t) - 1/gamma(t)."""
    W = Weights(A, s)
    out = []
    for n in range(1, p + 1):
        for t in trees_of_order(n):
            out.append((t, W.weight(b, t) - Fraction(1, gamma(t))))
    return out


def counts(p):
    return [len(trees_of_order(n)) for n in range(1, p + 1)]
