"""C10 — backward propagation and time grids mean what they say.

a  the direction sign reaches the returned times exactly once (every integrate() returns the grid unsigned; _propagate_dynsys signs once)
b  time reversal negates the whole right-hand side (rule C03.c on every site)
c  a descending grid is integrated (direction-agnostic kernels) or rejected (forward-only kernels)
d  samples at the requested times, first sample = initial state (driver traces vs reference; _propagate_dynsys grid)

a (added)  on an event hit the reported time is in the frame of the requested (unsigned) grid for every integrator
b (added)  the direction wrapper evaluates a time-dependent right-hand side at the signed time; its cache key is complete (hv.memo)
d (added)  only exactly coinciding end points are short-circuited as a zero-length span

d-facade (round 3)  System.propagate and the system service hand the signed end time forward*tf on for all four sign combinations
b-dispatch (round 3)  C17.d's dispatch / twin-option table re-filed: a direction wrapper never reaches the parametric Hamiltonian kernel
d (round 4)  every integrate() takes the zero-span short-circuit before a kernel sees a grid with coinciding end points (fixed: RK45, symplectic)
a (round 5)  the time stamps are multiplied by the SIGN of the direction flag (forward = -2 integrates like -1)
"""
from __future__ import annotations

import ast
import itertools

import numpy as np
import sympy as sp

from ..core import Check, AnalysisError
from .. import repoindex as ri
from ..drivers import Harness, vkey, tagvec, RK, SY
from ..kpe import Interp, SymObj, ClassRef, FuncRef, to_obj_array, S, OutsideFragment, KpeRaise
from ..regions import RegionDecider
from . import drv
from . import c03
from .common import Relabel

R = sp.Rational
BASE = "hiten.algorithms.dynamics.base"


def run(tier):
    chk = Check("C10", tier, "other",
                "integrate() methods and _propagate_dynsys are interpreted with the drivers abstracted: returned time arrays are "
                "compared symbolically with the requested grid for both directions; descending grids are fed to every "
                "integrate() under a representative ordering and must either reach a direction-agnostic kernel (whose trace on a "
                "descending grid is compared with the reference using signed steps) or raise before any kernel runs; plain "
                "drivers are unrolled under accept/reject tapes against the reference sampling protocol.",
                trusted_base=["python ast", "hv.kpe", "hv.drivers harness", "reference protocols in hv/rules/drv.py"])
    # a propagation served from the system's cache is the one that was asked for (direction, span, method, order all in the key)
    from . import c20
    c20._b_key_params(Relabel(chk, {"C20.b": "C10.a-cache"}), [x for x in c20._sites() if x.mod.name.endswith("services.system")])
    _a_integrate_times(chk)
    _a_propagate(chk)
    _a_propagate_options(chk)
    _a_facade_chain(chk)
    _d_zero_span_everywhere(chk)
    _a_direction_magnitude(chk)
    # a direction wrapper is not an instance of the Hamiltonian protocol although it forwards attribute reads (rhs_params
    # included) to the wrapped system: every integrator must send it through the generic kernels with the wrapper's own
    # (sign-flipped) right-hand side; the parametric fast path integrates the un-reversed field (C17.d's dispatch table)
    from . import c17
    c17._d_dispatch(Relabel(chk, {"C17.d": "C10.b-dispatch"}))
    c03._directed_semantics(_Relabel(chk), signed_time=True)
    c03._direction_sites(_Relabel(chk))
    c03._directed_memo(_Relabel(chk))
    _c_descending(chk)
    _d_plain_drivers(chk, tier)
    # the public facade binds every argument to the service parameter it is meant for (nominal swap rule, rules/common.py)
    from . import common as _common
    _common.facade_bindings(chk, "C10.d-facade", ['hiten.system.base'], floor=2)
    return chk


def _Relabel(chk):
    """Re-files C03.c obligations under C10.b."""
    return Relabel(chk, {"C03.c": "C10.b"})


def _integrator(cls_name, modname):
    mod, cls = ri.find_def(modname, cls_name)
    return SymObj(ClassRef(mod, cls), {"_A": sp.Symbol("A"), "_B_HIGH": sp.Symbol("B"), "_B_LOW": None, "_C": sp.Symbol("C"), "_E": sp.Symbol("E"),
                                      "_E5": sp.Symbol("E5"), "_E3": sp.Symbol("E3"), "_p": 5, "_rtol": sp.Symbol("rtol"), "_atol": sp.Symbol("atol"),
                                      "_max_step": sp.Symbol("mx"), "_min_step": sp.Symbol("mn"), "_order": 4, "c_omega_heuristic": sp.Symbol("cw"),
                                      "_maybe_constant_solution": lambda *a: None, "_build_rhs_wrapper": lambda s: sp.Symbol("RHSF"),
                                      "_compile_event_function": lambda e: e, "validate_system": lambda s: None}, "integrator")


INTEGRATORS = [("_FixedStepRK", RK, ("_integrate_fixed_rk", "_integrate_fixed_rk_ham"), "agnostic"),
               ("_RK45", RK, ("_integrate_rk45", "_integrate_rk45_ham"), "forward-only"),
               ("_DOP853", RK, ("_integrate_dop853", "_integrate_dop853_ham"), "forward-only"),
               ("_ExtendedSymplectic", SY, ("_integrate_symplectic",), "agnostic")]


def _run_integrate(cls_name, modname, drivers, tv, rep, fwd=None, ham=False, event=False, hit=False, real_short_circuit=False):
    cap = {"calls": []}

    def stub(name):
        def f(ip, args, kwargs):
            cap["calls"].append((name, kwargs, args))
            n = 3
            if "until_event" in name:
                if hit:
                    return (True, sp.Symbol("T_HIT", real=True), tagvec("YH"), np.vstack([tagvec("L0"), tagvec("YH")]))
                return (False, sp.Symbol("T_END"), tagvec("YL"), np.vstack([tagvec("L0"), tagvec("YL")]))
            st = np.vstack([tagvec(f"S{i}") for i in range(n)])
            if name == "_integrate_symplectic":
                return st
            return (st, st.copy())
        return f

    ov = {"_Solution": lambda ip_, a, k: SymObj(None, dict(k), "sol")}
    for d in drivers + tuple(x.replace("_integrate_", "_integrate_").replace("_ham", "") + "_until_event" for x in drivers if not x.endswith("_ham")) \
            + tuple(x.replace("_ham", "") + "_until_event_ham" for x in drivers if x.endswith("_ham")) + ("_integrate_symplectic_until_event",):
        ov[d] = stub(d)
    ip = Interp(overrides=ov, decide=RegionDecider(rep))
    ip.isinstance_hook = lambda v, c: (ham if (isinstance(c, ClassRef) and c.node.name == "_HamiltonianSystemProtocol") else None)
    obj = _integrator(cls_name, modname)
    attrs = {"rhs_params": (sp.Symbol("JAC"), sp.Symbol("CLMO"), sp.Symbol("NDOF")), "dim": 2, "rhs": sp.Symbol("RHS"), "jac_H": sp.Symbol("JAC"),
             "clmo_H": sp.Symbol("CLMO"), "n_dof": 1}
    if real_short_circuit:
        # the integrator's own _maybe_constant_solution runs (not the model's stub) and may evaluate the right-hand side once
        obj.attrs.pop("_maybe_constant_solution", None)
        obj.attrs["validate_inputs"] = lambda *a: None
        attrs["rhs"] = lambda t, y: tagvec("F0")
    system = SymObj(None, attrs, "system")
    if fwd is not None:
        # a direction-wrapped system exactly as _DirectedSystem's own constructor builds it (what the integrator reads off it
        # - attribute names included - is then the code's business, not the model's)
        dmod, dcls = ri.find_def(BASE, "_DirectedSystem")
        base = system
        ipc = Interp()
        ipc.isinstance_hook = lambda v, c: (v is base) if (isinstance(c, ClassRef) and c.node.name == "_DynamicalSystem") else None
        try:
            system = ipc.instantiate(ClassRef(dmod, dcls), [base, fwd], {})
        except OutsideFragment as exc:
            raise AnalysisError(f"_DirectedSystem.__init__ outside fragment: {exc}")
    y0 = tagvec("y0")
    try:
        sol = ip.apply(ip.getattr(obj, "integrate"), [system, y0, tv], {"event_fn": (sp.Symbol("EVF") if event else None), "event_cfg": None, "event_options": None})
    except KpeRaise as exc:
        return "raise", exc.text, cap
    return "return", sol, cap


def _a_integrate_times(chk, only=None):
    T = [sp.Symbol(f"T{i}", real=True) for i in range(3)]
    tv = to_obj_array(T)
    rep = {T[0]: 0, T[1]: 1, T[2]: 2}
    for cls_name, modname, drivers, kind in [x for x in INTEGRATORS if only is None or x[0] in only]:
        for fwd in ((None,) if cls_name != "_ExtendedSymplectic" else (1, -1)):
            for ham in ((False, True) if cls_name != "_ExtendedSymplectic" else (True,)):
                outcome, sol, cap = _run_integrate(cls_name, modname, drivers, tv, rep, fwd=fwd, ham=ham)
                tag = f"{modname}::{cls_name}.integrate[{'fwd=' + str(fwd) if fwd is not None else ('ham' if ham else 'generic')}]"
                if outcome != "return":
                    chk.fail("C10.a", tag, f"integrate raised on an ascending grid: {sol}")
                    continue
                times = list(to_obj_array(sol.attrs["times"]))
                chk.check(times == T, "C10.a", tag + "[times]",
                          f"integrate() returns times {times} for the grid {T}" + (f" on a system with direction {fwd}" if fwd is not None else "") +
                          "; every integrator must hand back the requested grid unsigned because _propagate_dynsys applies the direction sign itself "
                          "(a second multiplication makes backward times positive)", sample=f"times == t_vals ({'fwd=' + str(fwd) if fwd is not None else 'n/a'})")
                if cls_name == "_ExtendedSymplectic":
                    # the integration itself runs on the signed grid (negative steps for backward propagation)
                    kw = cap["calls"][0][1] if cap["calls"] else {}
                    grid = list(to_obj_array(kw.get("t_values"))) if kw.get("t_values") is not None else None
                    chk.check(grid == [fwd * t for t in T], "C10.a", tag + "[integration grid]",
                              f"symplectic integration grid is {grid}, expected direction*t_vals = {[fwd * t for t in T]}", sample="t_values = fwd * t_vals")
                # event branch: the reported event time is in the frame of the requested (unsigned) grid: if the kernel was
                # handed sigma*t_vals it reports sigma*t, so integrate() must return sigma*T_HIT; _propagate_dynsys signs once
                outcome, sol, cap = _run_integrate(cls_name, modname, drivers, tv, rep, fwd=fwd, ham=ham, event=True, hit=True)
                if outcome != "return":
                    chk.fail("C10.a", tag + "[event time]", f"integrate raised on the event branch: {sol}")
                    continue
                ev = [c for c in cap["calls"] if "until_event" in c[0]]
                grid = None
                if ev:
                    kw, a = ev[0][1], ev[0][2]
                    g = kw.get("t_values", kw.get("t_eval", kw.get("t_vals")))
                    if g is None:
                        g = next((x for x in a if isinstance(x, np.ndarray) and x.shape == (3,) and any(S(v).has(*T) for v in x)), None)
                    grid = list(to_obj_array(g)) if g is not None else None
                    if grid is None and kw.get("t0") is not None and kw.get("tmax") is not None:
                        grid = [S(kw["t0"]), S(kw["tmax"])]
                sigma = 1 if grid in (T, [T[0], T[-1]]) else (-1 if grid in ([-t for t in T], [-T[0], -T[-1]]) else None)
                times = list(to_obj_array(sol.attrs["times"]))
                ok = sigma is not None and len(times) == 2 and times[0] == T[0] and sp.expand(S(times[-1]) - sigma * sp.Symbol("T_HIT", real=True)) == 0
                chk.check(ok, "C10.a", tag + "[event time]",
                          f"on an event hit integrate() returns times {times}; the kernel integrated the grid {grid} and reported T_HIT in that frame, so the unsigned "
                          f"event time is {None if sigma is None else sigma * sp.Symbol('T_HIT')} (the caller applies the direction sign once)",
                          sample=f"event hit: times = [t0, sigma*T_HIT], sigma={sigma}")
    chk.count("functions partially evaluated", 18)


def _a_propagate(chk):
    mod, fn = ri.find_def(BASE, "_propagate_dynsys")
    for method in ("fixed", "adaptive", "symplectic"):
        for fwd in (1, -1):
            cap = {}
            n = 4

            def integ(system, y0, t_eval, **kw):
                cap["t_eval"] = t_eval
                cap["system"] = system
                cap["y0"] = y0
                return SymObj(None, {"times": t_eval, "states": sp.Symbol("STATES")}, "sol")

            ov = {"RungeKutta": lambda ip_, a, k: SymObj(None, {"integrate": integ}, "rk"), "AdaptiveRK": lambda ip_, a, k: SymObj(None, {"integrate": integ}, "ark"),
                  "_ExtendedSymplectic": lambda ip_, a, k: SymObj(None, {"integrate": integ}, "sym"),
                  "_DirectedSystem": lambda ip_, a, k: (cap.__setitem__("directed", (a, k)), SymObj(None, {"args": a, "kw": k}, "directed"))[1],
                  "_Solution": lambda ip_, a, k: SymObj(None, {"times": a[0], "states": a[1]}, "sol"),
                  "_validate_initial_state": lambda ip_, a, k: a[0]}
            ip = Interp(overrides=ov, decide=lambda c: False)
            ip.isinstance_hook = lambda v, c: True if (isinstance(c, ClassRef) and "Hamiltonian" in c.node.name) else None
            tf = sp.Symbol("tf", positive=True)
            dyn = SymObj(None, {"dim": 2}, "dynsys")
            sol = ip.apply(FuncRef(mod, fn, qual="_propagate_dynsys"), [], dict(dynsys=dyn, state0=tagvec("y0"), t0=R(0), tf=tf, forward=fwd, steps=n, method=method, order=8))
            times = list(to_obj_array(sol.attrs["times"]))
            want = [fwd * tf * R(i, n - 1) for i in range(n)]
            chk.check(all(sp.simplify(a - b) == 0 for a, b in zip(times, want)) and len(times) == n, "C10.a", f"{BASE}::_propagate_dynsys[{method},forward={fwd}]",
                      f"returned times {times} are not forward * linspace(t0, tf, steps) = {want}", sample=f"{method}, forward={fwd}: times = forward * t_eval")
            grid = list(to_obj_array(cap.get("t_eval")))
            chk.check(all(sp.simplify(a - tf * R(i, n - 1)) == 0 for i, a in enumerate(grid)), "C10.d", f"{BASE}::_propagate_dynsys[{method},forward={fwd}][grid]",
                      f"integration grid is {grid}, expected linspace(t0, tf, steps) ascending", sample="t_eval = linspace(t0, tf, steps)")
            da, dk = cap.get("directed", ((), {}))
            okd = len(da) >= 2 and da[0] is dyn and da[1] == fwd and isinstance(cap.get("system"), SymObj) and cap["system"].name == "directed"
            chk.check(okd, "C10.b", f"{BASE}::_propagate_dynsys[{method},forward={fwd}][directed system]",
                      "the integrator is not given the direction-wrapped system built from (dynsys, forward, flip_indices)", sample="integrate(_DirectedSystem(dynsys, forward, flip), ...)")
    # a span that is short compared with |t| is still a span: only exactly coinciding end points may be short-circuited
    for label, t0, tf in (("t0=1000, span 1/200", R(1000), R(1000) + R(1, 200)), ("t0=0, span 1e-9", R(0), R(1, 10 ** 9))):
        called = []

        def integ2(system, y0, t_eval, **kw):
            called.append(t_eval)
            return SymObj(None, {"times": t_eval, "states": sp.Symbol("STATES")}, "sol")

        ov2 = {"RungeKutta": lambda ip_, a, k: SymObj(None, {"integrate": integ2}, "rk"), "AdaptiveRK": lambda ip_, a, k: SymObj(None, {"integrate": integ2}, "ark"),
               "_ExtendedSymplectic": lambda ip_, a, k: SymObj(None, {"integrate": integ2}, "sym"), "_DirectedSystem": lambda ip_, a, k: sp.Symbol("D"),
               "_Solution": lambda ip_, a, k: SymObj(None, {"times": a[0], "states": a[1]}, "sol"), "_validate_initial_state": lambda ip_, a, k: a[0]}
        ipz = Interp(overrides=ov2, decide=lambda c: None)
        ipz.apply(FuncRef(mod, fn, qual="_propagate_dynsys"), [], dict(dynsys=SymObj(None, {"dim": 2}, "d"), state0=tagvec("y0"), t0=t0, tf=tf, forward=1, steps=3, method="adaptive", order=8))
        chk.check(len(called) == 1, "C10.d", f"{BASE}::_propagate_dynsys[short span: {label}]",
                  f"a propagation over the non-empty span [{t0}, {tf}] is answered with the repeated initial state instead of being integrated (tolerance-based 'zero length' test)",
                  sample=f"{label}: integrated")
    imod, icls = ri.find_def("hiten.algorithms.integrators.base", "_Integrator")
    for label, grid in (("t=[1000, 1000.005]", [R(1000), R(1000) + R(1, 200)]), ("t=[0, 1e-9]", [R(0), R(1, 10 ** 9)])):
        integ_obj = SymObj(ClassRef(imod, icls), {}, "integrator")
        ipm = Interp(overrides={"_Solution": lambda ip_, a, k: SymObj(None, dict(k), "sol")}, decide=lambda c: None)
        out = ipm.apply(ipm.getattr(integ_obj, "_maybe_constant_solution"), [SymObj(None, {"rhs": lambda t, y: tagvec("F")}, "system"), tagvec("y0"), to_obj_array(grid)], {})
        chk.check(out is None, "C10.d", "hiten.algorithms.integrators.base::_Integrator._maybe_constant_solution[" + label + "]",
                  f"the grid {grid} is treated as a zero-length span: the integrator returns the initial state at every requested time", sample=f"{label}: not short-circuited")
    # zero-span short-circuit repeats the state
    ip = Interp(overrides={"_DirectedSystem": lambda ip_, a, k: sp.Symbol("D"), "_Solution": lambda ip_, a, k: SymObj(None, {"times": a[0], "states": a[1]}, "sol"),
                           "_validate_initial_state": lambda ip_, a, k: a[0]}, decide=lambda c: True,
                np_overrides={"isclose": lambda ip_, a, k: True, "repeat": lambda ip_, a, k: np.repeat(a[0], int(k.get("repeats", a[1] if len(a) > 1 else 1)), axis=int(k.get("axis", 0)))})
    sol = ip.apply(FuncRef(mod, fn, qual="_propagate_dynsys"), [], dict(dynsys=SymObj(None, {"dim": 2}, "d"), state0=tagvec("y0"), t0=R(0), tf=R(0), forward=-1, steps=3,
                                                                      method="adaptive", order=8))
    st = to_obj_array(sol.attrs["states"])
    chk.check(st.shape == (3, 2) and all(list(st[i]) == list(tagvec("y0")) for i in range(3)), "C10.d", f"{BASE}::_propagate_dynsys[zero span]",
              "zero-length propagation does not repeat the initial state", sample="tf == t0 -> states = y0 repeated", nontrivial=False)
    chk.count("functions partially evaluated", 7)


def _a_propagate_options(chk):
    """Options given to _propagate_dynsys reach the integrator it builds under their own names (order for every method; rtol,
    atol, max_step for the adaptive one), and the adaptive defaults are equal and tight."""
    mod, fn = ri.find_def(BASE, "_propagate_dynsys")
    RT, AT, MS, OD = sp.Symbol("RTOL"), sp.Symbol("ATOL"), sp.Symbol("MAX_STEP"), sp.Symbol("ORDER")
    for method, ctor in (("fixed", "RungeKutta"), ("adaptive", "AdaptiveRK"), ("symplectic", "_ExtendedSymplectic")):
        for label, extra in (("given", {"rtol": RT, "atol": AT, "max_step": MS}), ("defaults", {})):
            got = {}

            def make(name):
                def f(ip_, a, k, name=name):
                    got[name] = dict(k)
                    return SymObj(None, {"integrate": lambda system, y0, t_eval, **kw: SymObj(None, {"times": t_eval, "states": sp.Symbol("STATES")}, "sol")}, name)
                return f

            ov = {n: make(n) for n in ("RungeKutta", "AdaptiveRK", "_ExtendedSymplectic")}
            ov.update({"_DirectedSystem": lambda ip_, a, k: sp.Symbol("D"), "_Solution": lambda ip_, a, k: SymObj(None, {"times": a[0], "states": a[1]}, "sol"),
                       "_validate_initial_state": lambda ip_, a, k: a[0]})
            ip = Interp(overrides=ov, decide=lambda c: False)
            ip.isinstance_hook = lambda v, c: True if (isinstance(c, ClassRef) and "Hamiltonian" in c.node.name) else None
            kw = dict(dynsys=SymObj(None, {"dim": 2}, "d"), state0=tagvec("y0"), t0=R(0), tf=R(1), forward=1, steps=3, method=method, order=OD)
            kw.update(extra)
            ip.apply(FuncRef(mod, fn, qual="_propagate_dynsys"), [], kw)
            k = got.get(ctor)
            if k is None:
                chk.fail("C10.d", f"{BASE}::_propagate_dynsys[{method},{label},integrator]", f"method '{method}' does not build {ctor}: built {sorted(got)}")
                continue
            ok = k.get("order") == OD
            if method == "adaptive":
                if label == "given":
                    ok = ok and k.get("rtol") == RT and k.get("atol") == AT and k.get("max_step") == MS
                else:
                    ok = ok and k.get("rtol") == k.get("atol") and k.get("rtol") is not None and 0 < float(S(k["rtol"])) <= 1e-9
            chk.check(ok, "C10.d", f"{BASE}::_propagate_dynsys[{method},{label},options]",
                      f"{ctor} is built with {k} for order={OD}" + (f", rtol={RT}, atol={AT}, max_step={MS}" if label == "given" else " and no tolerances given")
                      + ": an option does not reach the integrator under its own name", sample=f"{method}/{label}: {ctor}({', '.join(sorted(k))}) forwarded", nontrivial=(label == "given"))
    chk.count("functions partially evaluated", 6)


def _a_direction_magnitude(chk):
    """The direction flag is a SIGN: _DirectedSystem normalises it to +-1, so the time stamps must be multiplied by that sign and not by the raw value -
    `forward=-2` integrates exactly like -1 but would stamp the state at t = -1 with t = -2 (or the flag must be rejected).  _propagate_dynsys is interpreted
    with forward in (2, -3): the returned stamps must be sign(forward) * linspace(t0, tf, steps), or the call must raise."""
    mod, fn = ri.find_def(BASE, "_propagate_dynsys")
    for fwd in (2, -3):
        for method, ctor in (("fixed", "RungeKutta"), ("adaptive", "AdaptiveRK")):
            ov = {n: (lambda ip_, a, k: SymObj(None, {"integrate": lambda system, y0, t_eval, **kw: SymObj(None, {"times": t_eval, "states": sp.Symbol("STATES")}, "sol")}, "integrator"))
                  for n in ("RungeKutta", "AdaptiveRK", "_ExtendedSymplectic")}
            ov.update({"_DirectedSystem": lambda ip_, a, k: sp.Symbol("D"), "_Solution": lambda ip_, a, k: SymObj(None, {"times": a[0], "states": a[1]}, "sol"),
                       "_validate_initial_state": lambda ip_, a, k: a[0]})
            ip = Interp(overrides=ov, decide=lambda c: None)
            try:
                sol = ip.apply(FuncRef(mod, fn, qual="_propagate_dynsys"), [], dict(dynsys=SymObj(None, {"dim": 2}, "d"), state0=tagvec("y0"), t0=R(0), tf=R(1), forward=fwd, steps=3,
                                                                                  method=method, order=8))
            except KpeRaise:
                chk.ok("C10.a", f"{BASE}::_propagate_dynsys[{method},forward={fwd}][stamps]", sample=f"forward={fwd}: rejected", nontrivial=False)
                continue
            times = [S(t) for t in to_obj_array(sol.attrs["times"])]
            sgn = 1 if fwd >= 0 else -1
            want = [sgn * R(i, 2) for i in range(3)]
            chk.check(times == want, "C10.a", f"{BASE}::_propagate_dynsys[{method},forward={fwd}][stamps]",
                      f"forward={fwd}: the direction wrapper integrates with sign {sgn}, the stamps returned are {times} instead of {want}: the sample stamped t = {times[-1]} is "
                      f"the state at t = {want[-1]}", sample=f"forward={fwd}: stamps = sign(forward) * t")
    chk.count("functions partially evaluated", 4)


def _d_zero_span_everywhere(chk):
    """validate_inputs admits a grid whose end points coincide (documented: "for the zero-span short-circuit"); every integrator's integrate() must therefore
    answer such a grid with the constant solution (or raise) BEFORE a kernel sees it: a zero step makes the symplectic omega = (c*0)^-order infinite (NaN states,
    silently) and the RK45 dense output divide by a zero segment length.  Decided by interpreting each integrate() - plain and event branch - on a grid whose
    three nodes share one representative value, with the integrator's own _maybe_constant_solution: no kernel may be called."""
    T = [sp.Symbol(f"T{i}", real=True) for i in range(3)]
    tv = to_obj_array(T)
    rep = {T[0]: 1, T[1]: 1, T[2]: 1}
    n = 0
    for cls_name, modname, drivers, kind in INTEGRATORS:
        for event in (False, True):
            n += 1
            sym = cls_name == "_ExtendedSymplectic"
            try:
                outcome, sol, cap = _run_integrate(cls_name, modname, drivers, tv, rep, fwd=(1 if sym else None), ham=sym, event=event, real_short_circuit=True)
            except OutsideFragment as exc:
                raise AnalysisError(f"{cls_name}.integrate on a zero-span grid outside fragment: {exc}")
            kernels = [c[0] for c in cap["calls"]]
            chk.check(outcome == "raise" or not kernels, "C10.d", f"{modname}::{cls_name}.integrate[zero-span grid,{'event' if event else 'plain'}]",
                      f"{cls_name}.integrate hands a grid with coinciding end points (admitted by validate_inputs) to {kernels} instead of answering it with the constant solution",
                      sample=f"{cls_name} ({'event' if event else 'plain'}): zero-span grid -> constant solution, no kernel call")
    chk.floor("integrate() branches examined for the zero-span short-circuit", n, 8)


def _a_facade_chain(chk):
    """Span and direction mean what the caller said all the way down: System.propagate and the system service's propagate are
    interpreted for the four sign combinations of (tf, forward); the signed end time forward*tf that reaches
    _propagate_dynsys (t0 = 0) must be the caller's (a negative span is a decreasing grid, to be integrated or rejected
    below - or normalised together with the direction - never silently mirrored), and steps / order / method arrive under
    their own names."""
    STEPS, ORD = sp.Symbol("STEPS", integer=True, positive=True), sp.Symbol("ORD", integer=True)
    y0 = tagvec("y0")
    bmod, bcls = ri.find_def("hiten.system.base", "System")
    smod, scls = ri.find_def("hiten.algorithms.types.services.system", "_SystemsDynamicsService")
    smeth = ri.class_member(smod, scls, "propagate")
    params = [a.arg for a in smeth[2].args.args][1:]
    pmod, pfn = ri.find_def(BASE, "_propagate_dynsys")
    pparams = [a.arg for a in pfn.args.args]
    for tf, fwd in ((R(2), 1), (R(2), -1), (R(-2), 1), (R(-2), -1)):
        tag = f"tf={tf},forward={fwd}"
        # facade
        seen = {}

        def svc_prop(*a, **k):
            seen["a"], seen["k"] = a, k
            return sp.Symbol("TRAJ")

        sysobj = SymObj(ClassRef(bmod, bcls), {"dynamics": SymObj(None, {"propagate": svc_prop}, "dynamics")}, "system")
        ip = Interp()
        try:
            out = ip.apply(ip.getattr(sysobj, "propagate"), [y0, tf], {"steps": STEPS, "method": "fixed", "order": ORD, "forward": fwd})
        except OutsideFragment as exc:
            raise AnalysisError(f"System.propagate outside fragment: {exc}")
        except KpeRaise as exc:
            chk.ok("C10.d-facade", f"hiten.system.base::System.propagate[{tag}]", sample=f"{tag}: rejected ({exc.text[:60]})", nontrivial=False)
            continue
        bound = dict(zip(params, seen.get("a", ())))
        bound.update(seen.get("k", {}))
        ok = out == sp.Symbol("TRAJ") and bound.get("tf") is not None and bound.get("forward") is not None and S(bound["tf"]) * S(bound["forward"]) == tf * fwd \
            and bound.get("steps") == STEPS and bound.get("order") == ORD and bound.get("method") == "fixed"
        chk.check(ok, "C10.d-facade", f"hiten.system.base::System.propagate[{tag}]",
                  f"System.propagate({tag}) asks the service for tf={bound.get('tf')}, forward={bound.get('forward')}, steps={bound.get('steps')}, order={bound.get('order')}: "
                  f"the signed end time is {S(bound.get('tf', sp.nan)) * S(bound.get('forward', sp.nan))} instead of {tf * fwd}", sample=f"{tag}: end time forward*tf = {tf * fwd} handed on")
        # service
        got = {}

        def prop(ip_, a, k):
            got.update(k)
            got["_args"] = a
            return sp.Symbol("SOL")

        ip = Interp(overrides={"_propagate_dynsys": prop, "from_solution": lambda ip_, a, k: sp.Symbol("TRAJ")})
        svc = SymObj(ClassRef(smod, scls), {"dynsys": sp.Symbol("DYNSYS"), "make_key": lambda *a: "KEY", "get_or_create": lambda k, f: f()}, "service")
        try:
            ip.apply(ip.getattr(svc, "propagate"), [y0], {"tf": tf, "steps": STEPS, "method": "fixed", "order": ORD, "forward": fwd, "extra_kwargs": None})
        except OutsideFragment as exc:
            raise AnalysisError(f"_SystemsDynamicsService.propagate outside fragment: {exc}")
        except KpeRaise as exc:
            chk.ok("C10.d-facade", f"hiten.algorithms.types.services.system::_SystemsDynamicsService.propagate[{tag}]", sample=f"{tag}: rejected ({exc.text[:60]})", nontrivial=False)
            continue
        if not got:
            raise AnalysisError("anchor: _SystemsDynamicsService.propagate no longer calls _propagate_dynsys")
        b2 = dict(zip(pparams, got.pop("_args")))
        b2.update(got)
        st = b2.get("state0")
        ok = all(b2.get(k) is not None for k in ("t0", "tf", "forward")) and S(b2["t0"]) == 0 and S(b2["tf"]) * S(b2["forward"]) == tf * fwd and b2.get("dynsys") == sp.Symbol("DYNSYS") \
            and b2.get("steps") == STEPS and b2.get("order") == ORD and b2.get("method") == "fixed" and st is not None and list(to_obj_array(st)) == list(y0)
        chk.check(ok, "C10.d-facade", f"hiten.algorithms.types.services.system::_SystemsDynamicsService.propagate[{tag}]",
                  f"the service calls _propagate_dynsys with t0={b2.get('t0')}, tf={b2.get('tf')}, forward={b2.get('forward')}, steps={b2.get('steps')}, order={b2.get('order')}, "
                  f"dynsys={b2.get('dynsys')}: not the caller's span/direction/options", sample=f"{tag}: _propagate_dynsys(self.dynsys, state, t0=0, tf, forward, steps, method, order)")
    chk.count("functions partially evaluated", 8)


def _c_descending(chk):
    T = [sp.Symbol(f"T{i}", real=True) for i in range(3)]
    tv = to_obj_array(T)
    rep = {T[0]: 2, T[1]: 1, T[2]: 0}
    for cls_name, modname, drivers, kind in INTEGRATORS:
        for event in (False, True):
            for ham in ((False, True) if cls_name != "_ExtendedSymplectic" else (True,)):
                obj_attrs = {}
                outcome, sol, cap = _run_integrate(cls_name, modname, drivers, tv, rep, fwd=(1 if cls_name == "_ExtendedSymplectic" else None), ham=ham, event=event)
                tag = f"{modname}::{cls_name}.integrate[descending grid,{'event' if event else 'plain'},{'ham' if ham else 'generic'}]"
                if kind == "forward-only":
                    chk.check(outcome == "raise" and not cap["calls"], "C10.c", tag,
                              f"a strictly decreasing grid reaches the forward-only adaptive kernel {[c[0] for c in cap['calls']]} (loop guard (t - tf) < 0, positive steps): "
                              f"the result would be a silently constant trajectory / 'no event'; the grid must be rejected before integrating",
                              sample="descending grid -> ValueError before any kernel call")
                else:
                    chk.check(outcome == "return" and len(cap["calls"]) == 1, "C10.c", tag,
                              f"direction-agnostic integrator does not integrate a decreasing grid: {outcome} {sol if outcome == 'raise' else ''}",
                              sample="descending grid -> integrated with signed steps", nontrivial=False)
    # the direction-agnostic kernels really are: fixed-step drivers on a descending grid match the reference with negative steps
    grid = ["3/2", "1", "1/2", "0"]
    for q, ham in (("_FixedStepRK._integrate_fixed_rk", False), ("_FixedStepRK._integrate_fixed_rk_ham", True)):
        h = Harness(ham=ham)
        kind, out = h.run(RK, q, grid=grid)
        d = drv.compare(h.trace, drv.ref_fixed(grid), ham)
        chk.check(kind == "return" and d is None, "C10.c", f"{RK}::{q}[descending]", f"fixed-step driver on a descending grid deviates from signed-step stepping: {d}",
                  sample="h = t[i+1]-t[i] < 0 used as is")
    for q, ham in (("_FixedStepRK._integrate_fixed_rk_until_event", False), ("_FixedStepRK._integrate_fixed_rk_until_event_ham", True)):
        tape = [-1, -1, 1, 1]
        h = Harness(ham=ham, event_tape=tape)
        kind, out = h.run(RK, q, grid=grid)
        d = drv.compare(h.trace, drv.ref_fixed(grid, event_tape=tape), ham)
        chk.check(kind == "return" and d is None, "C10.c", f"{RK}::{q}[descending]", f"fixed-step event driver on a descending grid deviates: {d}",
                  sample="event protocol unchanged for negative steps")
    chk.count("functions partially evaluated", 14)


PLAIN = [("fixed", "_FixedStepRK._integrate_fixed_rk", False), ("fixed", "_FixedStepRK._integrate_fixed_rk_ham", True),
         ("rk45", "_RK45._integrate_rk45", False), ("rk45", "_RK45._integrate_rk45_ham", True),
         ("dop853", "_DOP853._integrate_dop853", False), ("dop853", "_DOP853._integrate_dop853_ham", True)]


def _d_plain_drivers(chk, tier):
    grids = [["0", "1/4", "1"], ["0", "1/2", "3/4", "1"]]
    acc_tapes = list(itertools.product((True, False), repeat=3)) if tier == "quick" else list(itertools.product((True, False), repeat=5))
    total = 0
    for fam, q, ham in PLAIN:
        bad, badres = [], []
        problems = set()
        n = 0
        for grid in grids:
            for acc in ([()] if fam == "fixed" else acc_tapes):
                n += 1
                h = Harness(accept_tape=acc, ham=ham)
                try:
                    kind, out = h.run(RK, q, grid=grid)
                except OutsideFragment as exc:
                    raise AnalysisError(f"{q} left the analysable fragment: {exc}")
                problems |= set(h.problems)
                ref = drv.ref_fixed(grid) if fam == "fixed" else drv.ref_adaptive(fam, acc, 0, 1, "1/2", "1/2", grid=grid)
                d = drv.compare(h.trace, ref, ham) if kind == "return" else f"raised {out}"
                if d:
                    bad.append((grid, acc, d))
                    continue
                states = to_obj_array(out[0])
                rows = [vkey(states[i]) for i in range(states.shape[0])]
                if rows != list(ref.result[1]) or states.shape[0] != len(grid):
                    badres.append((grid, acc, rows[:2], ref.result[1][:2]))
        total += n
        chk.check(not bad, "C10.d", f"{RK}::{q}[protocol]",
                  f"{len(bad)} of {n} (grid, accept tape) cases deviate from the reference stepping/sampling protocol (steps start at the last committed node and never "
                  f"pass t_end; only accepted steps are committed; a rejected step is retried smaller from the same node; every requested time is sampled by the dense "
                  f"output of the segment containing it): e.g. {bad[0] if bad else ''}",
                  sample=f"{n} cases match the reference ({'grid differences as steps' if fam == 'fixed' else 'accept/reject tapes of length ' + str(len(acc_tapes[0]))})")
        chk.check(not problems, "C10.d", f"{RK}::{q}[arguments]", f"argument forwarding problems: {sorted(problems)[:3]}",
                  sample="tables, tolerances and Hamiltonian data reach the kernels in their own slots", nontrivial=False)
        chk.check(not badres, "C10.d", f"{RK}::{q}[samples]", f"returned samples are not one per requested time in grid order: {badres[:1]}",
                  sample="states[i] = sample at t_eval[i]; states[0] = y0 (fixed) / dense output at theta=0 of the first segment (adaptive)")
    chk.count("driver tapes unrolled", total)
