"""numpy / container method shims for the kernel partial evaluator (object arrays of terms)."""
from __future__ import annotations

import ast

import numpy as np
import sympy as sp

from .kpe import (OutsideFragment, Opaque, S, as_int, is_static_int, obj_array, to_obj_array, vmap, FuncRef, UFunc, is_num)


def _shape(v):
    if isinstance(v, (tuple, list)):
        return tuple(as_int(x, "shape") for x in v)
    return (as_int(v, "shape"),)


_ELEMENTWISE = {
    "sqrt": sp.sqrt, "sin": sp.sin, "cos": sp.cos, "tan": sp.tan, "exp": sp.exp, "log": sp.log,
    "abs": sp.Abs, "absolute": sp.Abs, "fabs": sp.Abs, "conj": sp.conjugate, "conjugate": sp.conjugate,
    "real": sp.re, "imag": sp.im, "sign": sp.sign, "arctan": sp.atan, "arcsin": sp.asin, "arccos": sp.acos,
    "sinh": sp.sinh, "cosh": sp.cosh, "floor": sp.floor, "ceil": sp.ceiling, "square": lambda x: x * x,
    "negative": lambda x: -x, "cbrt": lambda x: sp.Pow(x, sp.Rational(1, 3)),
}

_CASTS = {"float64", "float32", "float_", "double", "complex128", "complex64", "asarray", "ascontiguousarray",
          "asfarray"}
_INTCASTS = {"int64", "int32", "int16", "int8", "uint32", "uint64", "uint8", "uint16", "intp"}


def call(ip, name, args, kw):
    if name in _ELEMENTWISE:
        f = _ELEMENTWISE[name]
        a = args[0]
        if isinstance(a, (list, tuple)):
            a = to_obj_array(a)
        return vmap(f, a)
    if name in ("zeros", "empty", "ones"):
        shp = _shape(args[0] if args else kw["shape"])
        return obj_array(shp, 1 if name == "ones" else 0)
    if name in ("zeros_like", "empty_like", "ones_like"):
        a = args[0] if isinstance(args[0], np.ndarray) else to_obj_array(args[0])
        return obj_array(a.shape, 1 if name == "ones_like" else 0)
    if name == "full":
        shp = _shape(args[0])
        out = np.empty(shp, dtype=object)
        out.fill(S(args[1]))
        return out
    if name in ("array",) or name in _CASTS:
        a = args[0]
        if getattr(ip, "strict_real_casts", False):
            # opt-in (rules about complex data reaching a kernel): a cast to a real floating type keeps the real part only
            dt = kw.get("dtype", args[1] if len(args) > 1 and name in ("array", "asarray", "ascontiguousarray", "asfarray") else None)
            is_real_dt = name in ("float64", "float32", "float_", "double", "asfarray") or (
                isinstance(dt, tuple) and len(dt) == 2 and dt[1] in ("float64", "float32", "float_", "double")) or (isinstance(dt, tuple) and dt == ("builtin", "float"))
            if is_real_dt:
                arr = to_obj_array(a) if isinstance(a, (list, tuple, np.ndarray)) else None
                return vmap(sp.re, arr) if arr is not None else sp.re(S(a))
        if isinstance(a, np.ndarray):
            return a.copy() if name == "array" and kw.get("copy", True) is not False else a
        if isinstance(a, (list, tuple)):
            return to_obj_array(a)
        if isinstance(a, Opaque):
            return a
        return S(a)
    if name == "atleast_1d":
        a = args[0]
        if isinstance(a, np.ndarray):
            return a if a.ndim >= 1 else a.reshape((1,))
        if isinstance(a, (list, tuple)):
            return to_obj_array(a)
        return to_obj_array([a])
    if name in _INTCASTS:
        a = args[0]
        log = getattr(ip, "cast_log", None)
        if log is not None:
            env, st = getattr(ip, "cur_stmt", (None, None))
            v = as_int(a) if is_static_int(a) else (int(S(a)) if getattr(S(a), "is_number", False) and S(a).is_integer else None)
            log.append((name, v, env.mod.name if env is not None and env.mod else "?", getattr(st, "lineno", 0), st))
        if is_static_int(a):
            return as_int(a)
        sa = S(a)
        if sa.is_number:
            return int(sa)
        return sa
    if name in ("eye", "identity"):
        n = as_int(args[0])
        out = obj_array((n, n), 0)
        for i in range(n):
            out[i, i] = sp.Integer(1)
        return out
    if name == "copy":
        return to_obj_array(args[0]).copy()
    if name == "ravel":
        return to_obj_array(args[0]).ravel()
    if name == "reshape":
        return to_obj_array(args[0]).reshape(_shape(args[1]))
    if name == "transpose":
        return to_obj_array(args[0]).T
    if name in ("concatenate", "hstack", "vstack", "column_stack", "stack"):
        parts = [to_obj_array(p) for p in args[0]]
        axis = as_int(kw.get("axis", args[1] if len(args) > 1 else 0))
        if name == "concatenate":
            return np.concatenate(parts, axis=axis)
        if name == "hstack":
            return np.hstack(parts)
        if name == "vstack":
            return np.vstack(parts)
        if name == "column_stack":
            return np.column_stack(parts)
        return np.stack(parts, axis=axis)
    if name == "block":
        return np.block([[to_obj_array(b) for b in row] for row in args[0]])
    if name in ("dot", "matmul"):
        return ip.matmul(args[0], args[1])
    if name == "outer":
        a, b = to_obj_array(args[0]).ravel(), to_obj_array(args[1]).ravel()
        out = np.empty((a.shape[0], b.shape[0]), dtype=object)
        for i in range(a.shape[0]):
            for j in range(b.shape[0]):
                out[i, j] = a[i] * b[j]
        return out
    if name == "cross":
        a, b = to_obj_array(args[0]), to_obj_array(args[1])
        return to_obj_array([a[1] * b[2] - a[2] * b[1], a[2] * b[0] - a[0] * b[2], a[0] * b[1] - a[1] * b[0]])
    if name == "linalg.norm":
        a = to_obj_array(args[0]).ravel()
        order = kw.get("ord", args[1] if len(args) > 1 else None)
        if order is None or order == 2:
            return sp.sqrt(sum((x * x for x in a), sp.Integer(0)))
        if order is sp.oo or order == sp.oo:
            return sp.Max(*[sp.Abs(x) for x in a])
        raise OutsideFragment("norm order")
    if name == "linalg.inv":
        a = to_obj_array(args[0])
        M = sp.Matrix(a.tolist())
        return to_obj_array(M.inv().tolist())
    if name == "linalg.det":
        return sp.Matrix(to_obj_array(args[0]).tolist()).det()
    if name == "linalg.solve":
        A = sp.Matrix(to_obj_array(args[0]).tolist())
        b = to_obj_array(args[1])
        x = A.LUsolve(sp.Matrix(b.tolist()))
        return to_obj_array(list(x)) if b.ndim == 1 else to_obj_array(x.tolist())
    if name == "hypot":
        a2 = ip.binop(ast.Mult, args[0], args[0])
        b2 = ip.binop(ast.Mult, args[1], args[1])
        return vmap(sp.sqrt, ip.binop(ast.Add, a2, b2))
    if name == "arctan2":
        return sp.atan2(S(args[0]), S(args[1]))
    if name == "power":
        return ip.binop(ast.Pow, args[0], args[1])
    if name in ("add", "subtract", "multiply", "divide", "true_divide"):
        op = {"add": ast.Add, "subtract": ast.Sub, "multiply": ast.Mult, "divide": ast.Div, "true_divide": ast.Div}[name]
        return ip.binop(op, args[0], args[1])
    if name in ("sum", "prod"):
        a = to_obj_array(args[0])
        axis = kw.get("axis", args[1] if len(args) > 1 else None)
        if axis is None:
            tot = sp.Integer(0 if name == "sum" else 1)
            for x in a.ravel():
                tot = tot + x if name == "sum" else tot * x
            return tot
        return (np.sum if name == "sum" else np.prod)(a, axis=as_int(axis))
    if name in ("maximum", "minimum"):
        f = sp.Max if name == "maximum" else sp.Min
        a, b = args
        if isinstance(a, np.ndarray) or isinstance(b, np.ndarray):
            A, B = np.broadcast_arrays(to_obj_array(a), to_obj_array(b))
            out = np.empty(A.shape, dtype=object)
            for idx in np.ndindex(A.shape):
                out[idx] = f(A[idx], B[idx])
            return out
        return f(S(a), S(b))
    if name in ("max", "min", "amax", "amin"):
        a = to_obj_array(args[0]).ravel()
        f = sp.Max if "max" in name else sp.Min
        return f(*list(a))
    if name == "clip" and isinstance(args[0], np.ndarray) and args[0].dtype != object:
        return np.clip(args[0], as_int(args[1]), as_int(args[2]))
    if name == "clip":
        a, lo, hi = args[0], args[1], args[2]
        return vmap(lambda x: sp.Min(sp.Max(x, S(lo)), S(hi)), a if isinstance(a, np.ndarray) else S(a))
    if name == "where":
        if len(args) == 3:
            c, a, b = args
            if isinstance(c, np.ndarray) or isinstance(a, np.ndarray) or isinstance(b, np.ndarray):
                C, A, B = np.broadcast_arrays(c if isinstance(c, np.ndarray) else to_obj_array(c),
                                              a if isinstance(a, np.ndarray) else to_obj_array(a),
                                              b if isinstance(b, np.ndarray) else to_obj_array(b))
                out = np.empty(C.shape, dtype=object)
                for idx in np.ndindex(C.shape):
                    tv = ip.truth(C[idx])
                    out[idx] = (A[idx] if tv else B[idx]) if tv is not None else ip.ite(C[idx], A[idx], B[idx])
                return out
            tv = ip.truth(c)
            if tv is not None:
                return a if tv else b
            return ip.ite(c, a, b)
        raise OutsideFragment("np.where with one argument")
    if name == "arange":
        if all(is_static_int(a) for a in args):
            vals = [as_int(a) for a in args]
            return to_obj_array(list(range(*vals)))
        vals = [S(a) for a in args]
        if not all(v.is_number for v in vals):
            raise OutsideFragment("np.arange with symbolic bounds")
        lo, hi, stp = (sp.Integer(0), vals[0], sp.Integer(1)) if len(vals) == 1 else (vals[0], vals[1], vals[2] if len(vals) > 2 else sp.Integer(1))
        n = int(sp.ceiling((hi - lo) / stp))
        return to_obj_array([lo + k * stp for k in range(max(n, 0))])
    if name == "isreal":
        def isreal(x):
            x = S(x)
            if x.is_real is True:
                return True
            if x.is_real is False or x.has(sp.I):
                return False
            raise OutsideFragment(f"np.isreal of a term with unknown reality: {x}")
        a = args[0]
        if isinstance(a, np.ndarray):
            return np.array([isreal(x) for x in a.ravel()], dtype=bool).reshape(a.shape)
        return isreal(a)
    if name == "argmin" or name == "argmax":
        a = to_obj_array(args[0]).ravel()
        if not all(S(x).is_number for x in a):
            raise OutsideFragment(f"np.{name} of symbolic data")
        vals = [S(x) for x in a]
        pick = min if name == "argmin" else max
        return vals.index(pick(vals))
    if name == "linspace":
        a, b, n = S(args[0]), S(args[1]), as_int(args[2] if len(args) > 2 else kw.get("num", 50))
        if n == 1:
            return to_obj_array([a])
        return to_obj_array([a + (b - a) * sp.Rational(i, n - 1) for i in range(n)])
    if name == "diag":
        a = to_obj_array(args[0])
        if a.ndim == 1:
            out = obj_array((a.shape[0], a.shape[0]), 0)
            for i in range(a.shape[0]):
                out[i, i] = a[i]
            return out
        return to_obj_array([a[i, i] for i in range(min(a.shape))])
    if name == "isscalar":
        return not isinstance(args[0], (np.ndarray, list, tuple))
    if name in ("isfinite", "isnan", "isinf") and not isinstance(args[0], (np.ndarray, list, tuple)):
        a = args[0]
        if a is None:
            return False
        sa = S(a)
        if name == "isinf":
            return sa in (sp.oo, -sp.oo)
        if name == "isnan":
            return sa is sp.nan
        return not (sa in (sp.oo, -sp.oo) or sa is sp.nan)   # symbols stand for finite data
    if name == "isclose" and len(args) >= 2 and not isinstance(args[0], (np.ndarray, list, tuple)) and not isinstance(args[1], (np.ndarray, list, tuple)):
        a_, b_ = S(args[0]), S(args[1])
        rtol = S(kw.get("rtol", args[2] if len(args) > 2 else sp.Rational(1, 10 ** 5)))
        atol = S(kw.get("atol", args[3] if len(args) > 3 else sp.Rational(1, 10 ** 8)))
        if all(v.is_number for v in (a_, b_, rtol, atol)):
            # numpy's definition, decided exactly on numbers: |a - b| <= atol + rtol*|b|
            return bool(sp.Abs(a_ - b_) <= atol + rtol * sp.Abs(b_))
        return sp.Function("isclose")(a_, b_, rtol, atol)
    if name in ("allclose", "isclose", "array_equal") and len(args) >= 2 and any(isinstance(a, (np.ndarray, list, tuple)) for a in args[:2]):
        # numpy's definitions on arrays of numbers, decided exactly (|a - b| <= atol + rtol*|b| elementwise)
        A, B = to_obj_array(args[0]), to_obj_array(args[1])
        if name == "array_equal" and A.shape != B.shape:
            return False
        try:
            A, B = np.broadcast_arrays(A, B)
        except ValueError:
            raise OutsideFragment(f"np.{name}: shapes {A.shape} and {B.shape} do not broadcast")
        rtol = S(kw.get("rtol", args[2] if len(args) > 2 else sp.Rational(1, 10 ** 5)))
        atol = S(kw.get("atol", args[3] if len(args) > 3 else sp.Rational(1, 10 ** 8)))
        flat = [(S(x), S(y)) for x, y in zip(A.ravel(), B.ravel())]
        if all(x.is_number and y.is_number for x, y in flat) and rtol.is_number and atol.is_number:
            if name == "array_equal":
                return all(bool(sp.Eq(x, y)) for x, y in flat)
            el = [bool(sp.Abs(x - y) <= atol + rtol * sp.Abs(y)) for x, y in flat]
            if name == "allclose":
                return all(el)
            return np.array(el, dtype=bool).reshape(A.shape)
        if name == "array_equal" and all(x == y for x, y in flat):
            return True
        return sp.Function(name)(*[v for xy in flat for v in xy])
    if name in ("isfinite", "isnan", "isinf", "iscomplexobj", "isrealobj", "allclose", "isclose", "array_equal"):
        if name in ("isfinite", "isnan", "isinf") and isinstance(args[0], np.ndarray):
            return np.array([call(ip, name, [x], {}) for x in args[0].ravel()], dtype=bool).reshape(args[0].shape)
        return sp.Function(name)(*[S(a) for a in args if not isinstance(a, (np.ndarray, list, tuple))])
    if name == "isscalar":
        return not isinstance(args[0], (np.ndarray, list, tuple))
    if name == "all" or name == "any":
        if isinstance(args[0], np.ndarray) and args[0].dtype == bool:
            return bool(args[0].all()) if name == "all" else bool(args[0].any())
        a = to_obj_array(args[0]).ravel()
        vals = [ip.truth(x) for x in a]
        if any(v is None for v in vals):
            terms = [(x if isinstance(x, (sp.logic.boolalg.BooleanFunction, sp.core.relational.Relational)) else sp.Ne(S(x), 0)) for x, v in zip(a, vals) if v is None]
            if name == "any" and any(v is True for v in vals):
                return True
            if name == "all" and any(v is False for v in vals):
                return False
            return (sp.And if name == "all" else sp.Or)(*terms)
        return all(vals) if name == "all" else any(vals)
    if name == "errstate":
        return Opaque("errstate")
    if name == "finfo":
        from .kpe import SymObj
        return SymObj(None, {"eps": sp.Rational(1, 2 ** 52), "tiny": sp.Rational(1, 2 ** 1022), "max": sp.oo,
                             "resolution": sp.Rational(1, 10 ** 15)}, "finfo")
    if name == "array_split":
        a = to_obj_array(args[0])
        n = as_int(args[1])
        return [x for x in np.array_split(a, n)]
    if name == "ix_":
        return np.ix_(*[[as_int(x) for x in a] for a in args])
    if name == "isinf":
        a = args[0]
        if a is None:
            return False
        sa = S(a)
        return sa in (sp.oo, -sp.oo)
    if name == "sign" and not isinstance(args[0], np.ndarray):
        return sp.sign(S(args[0]))
    if name == "full":
        shp = _shape(args[0])
        out = np.empty(shp, dtype=object)
        out.fill(S(args[1]))
        return out
    if name == "searchsorted":
        a = to_obj_array(args[0]).ravel()
        v = args[1]
        side = kw.get("side", args[2] if len(args) > 2 else "left")
        def pos(x):
            cnt = 0
            for e in a:
                rel = sp.Le(S(e), S(x)) if side == "right" else sp.Lt(S(e), S(x))
                tv = ip.truth(rel)
                if tv is None:
                    raise OutsideFragment(f"np.searchsorted: order of {e} and {x} is data-dependent")
                if tv:
                    cnt += 1
            return cnt
        if isinstance(v, np.ndarray):
            return np.array([pos(x) for x in v.ravel()]).reshape(v.shape)
        return pos(v)
    if name == "nonzero":
        a = args[0]
        if isinstance(a, np.ndarray) and a.dtype != object:
            return tuple(np.nonzero(a))
        a = to_obj_array(a)
        flags = []
        for x in a.ravel():
            tv = ip.truth(x)
            if tv is None:
                raise OutsideFragment(f"np.nonzero on a data-dependent mask element: {x}")
            flags.append(tv)
        return tuple(np.nonzero(np.array(flags, dtype=bool).reshape(a.shape)))
    if name == "argsort":
        a = args[0]
        raw = list(a.ravel() if isinstance(a, np.ndarray) else a)
        if all(is_static_int(x) for x in raw):
            vals = [as_int(x) for x in raw]
        else:
            # order-abstract evaluation: the ordering is read off the decider's representative point (valid on its region)
            rep = getattr(getattr(ip, "decide", None), "assignment", None)
            vals = []
            for x in raw:
                v = S(x).subs(rep) if rep else S(x)
                if not (v.is_number and v.is_real):
                    raise OutsideFragment(f"np.argsort of a symbolic value without a representative: {x}")
                vals.append(sp.Rational(v) if v.is_Rational else float(v))
            order = sorted(range(len(vals)), key=lambda i: vals[i])   # sorted() is stable
            return np.array(order, dtype=int)
        return np.argsort(np.array(vals), kind="stable")
    if name == "ndim":
        return to_obj_array(args[0]).ndim if isinstance(args[0], (np.ndarray, list, tuple)) else 0
    if name == "fromiter":
        return to_obj_array(list(args[0]))
    if name == "trace":
        a = to_obj_array(args[0])
        return sum((a[i, i] for i in range(min(a.shape))), sp.Integer(0))
    if name == "ndarray":
        return ("np", "ndarray")
    if name == "polyval":
        coeffs = list(to_obj_array(args[0]).ravel())
        x = S(args[1])
        r = sp.Integer(0)
        for c in coeffs:
            r = r * x + c
        return r
    if name == "cumsum":
        a = list(to_obj_array(args[0]).ravel())
        out, tot = [], sp.Integer(0)
        for x in a:
            tot = tot + x
            out.append(tot)
        return to_obj_array(out)
    if name == "diff":
        a = list(to_obj_array(args[0]).ravel())
        return to_obj_array([a[i + 1] - a[i] for i in range(len(a) - 1)])
    if name == "flip":
        return to_obj_array(args[0])[::-1]
    if name in ("round", "around", "round_"):
        dec = kw.get("decimals", args[1] if len(args) > 1 else 0)
        d = as_int(dec)

        def rnd(x):
            x = S(x)
            if not (x.is_number and x.is_real):
                raise OutsideFragment("np.round of a symbolic value")
            xr = sp.Rational(x) if x.is_Float else sp.nsimplify(x, rational=True, tolerance=sp.Rational(1, 10 ** 60)) if not x.is_Rational else x
            return sp.Rational(sp.floor(xr * 10 ** d + sp.Rational(1, 2)), 10 ** d)
        a = args[0]
        return vmap(rnd, to_obj_array(a)) if isinstance(a, (np.ndarray, list, tuple)) else rnd(a)
    if name in ("logical_and", "logical_or", "logical_not", "logical_xor"):
        py = {"logical_and": ast.BitAnd, "logical_or": ast.BitOr, "logical_xor": ast.BitXor}
        if name == "logical_not":
            return ip.unaryop(ast.Invert, args[0]) if hasattr(ip, "unaryop") else ip.binop(ast.BitXor, args[0], True)
        return ip.binop(py[name], args[0], args[1])
    if name == "sort":
        arr = to_obj_array(args[0])
        a = [S(x) for x in arr.ravel()]
        ax = kw.get("axis", args[1] if len(args) > 1 else -1)
        if not all(x.is_number and x.is_real for x in a):
            raise OutsideFragment("np.sort of symbolic values")
        if arr.ndim == 1:
            return to_obj_array(sorted(a))
        if arr.ndim == 2 and ax is not None and is_static_int(ax):
            axn = as_int(ax) % 2          # numpy's default: the LAST axis
            out = arr.copy()
            if axn == 1:
                for r in range(arr.shape[0]):
                    out[r, :] = sorted(S(x) for x in arr[r, :])
            else:
                for c in range(arr.shape[1]):
                    out[:, c] = sorted(S(x) for x in arr[:, c])
            return out
        raise OutsideFragment("np.sort of an array with more than two dimensions / flattened sort")
    if name == "unique":
        a = [S(x) for x in to_obj_array(args[0]).ravel()]
        if not all(x.is_number and x.is_real for x in a):
            raise OutsideFragment("np.unique of symbolic values")
        out, first = [], []
        for pos, x in sorted(enumerate(a), key=lambda t: (t[1], t[0])):
            if not out or x != out[-1]:
                out.append(x)
                first.append(pos)
        if kw.get("return_index"):
            extra = [k for k in ("return_inverse", "return_counts") if kw.get(k)]
            if extra:
                raise OutsideFragment("np.unique with " + ", ".join(extra))
            return (to_obj_array(out), np.array(first, dtype=int))
        if kw.get("return_inverse") or kw.get("return_counts"):
            raise OutsideFragment("np.unique with return_inverse/return_counts")
        return to_obj_array(out)
    if name == "roll":
        a = to_obj_array(args[0])
        sh = args[1] if len(args) > 1 else kw.get("shift")
        if a.ndim != 1 or kw.get("axis") not in (None, 0) or not is_num(sh):
            raise OutsideFragment("np.roll (only 1-D arrays with a literal shift)")
        n = len(a)
        k = int(S(sh)) % n if n else 0
        return to_obj_array(list(a[n - k:]) + list(a[:n - k]))
    if name == "repeat":
        a = to_obj_array(args[0])
        reps = kw.get("repeats", args[1] if len(args) > 1 else None)
        ax = kw.get("axis", args[2] if len(args) > 2 else None)
        if reps is None or not is_static_int(reps) or ax is None:
            raise OutsideFragment("np.repeat (only a literal repeat count along a given axis)")
        return np.repeat(a, as_int(reps), axis=as_int(ax))
    if name == "tile":
        raise OutsideFragment(f"np.{name}")
    raise OutsideFragment(f"np.{name}")


def method(ip, base, attr, args, kw):
    if isinstance(base, np.ndarray):
        if attr in ("copy", "flatten"):
            return base.copy() if attr == "copy" else base.flatten()
        if attr == "ravel":
            return base.ravel()
        if attr == "reshape":
            shp = args[0] if len(args) == 1 and isinstance(args[0], (tuple, list)) else args
            return base.reshape(_shape(shp))
        if attr == "astype":
            return base.copy()
        if attr == "fill":
            base.fill(S(args[0]))
            return None
        if attr in ("conj", "conjugate"):
            return vmap(sp.conjugate, base)
        if attr == "sum":
            return call(ip, "sum", [base] + list(args), kw)
        if attr == "dot":
            return ip.matmul(base, args[0])
        if attr == "transpose":
            return base.T
        if attr == "tolist":
            return base.tolist()
        if attr == "item":
            return base.ravel()[0]
        if attr in ("max", "min"):
            return call(ip, attr, [base], kw)
        if attr in ("any", "all"):
            return call(ip, attr, [base], kw)
        if attr == "squeeze":
            return base.squeeze()
        if attr == "view":
            return base
        raise OutsideFragment(f"ndarray.{attr}")
    if isinstance(base, list):
        if attr == "append":
            base.append(args[0])
            return None
        if attr == "extend":
            base.extend(ip.iterate(args[0]))
            return None
        if attr == "copy":
            return list(base)
        if attr == "pop":
            return base.pop(*[as_int(a) for a in args])
        if attr == "insert":
            base.insert(as_int(args[0]), args[1])
            return None
        if attr == "index":
            return base.index(args[0])
        if attr == "reverse":
            base.reverse()
            return None
        if attr == "sort":
            import functools
            keyf = kw.get("key")
            keys = [ip.apply(keyf, [x], {}) if keyf is not None else x for x in base]

            def cmp(a, b):
                lt = ip.truth(sp.Lt(S(a[0]), S(b[0])))
                gt = ip.truth(sp.Gt(S(a[0]), S(b[0])))
                if lt is None or gt is None:
                    raise OutsideFragment("list.sort on data-dependent keys")
                return -1 if lt else (1 if gt else 0)
            order = sorted(zip(keys, range(len(base))), key=functools.cmp_to_key(cmp))
            if kw.get("reverse"):
                order.reverse()
            base[:] = [base[i] for _, i in order]
            return None
        raise OutsideFragment(f"list.{attr}")
    if isinstance(base, dict):
        if attr == "get":
            from .kpe import _hash
            return base.get(_hash(args[0]), args[1] if len(args) > 1 else None)
        if attr == "items":
            return list(base.items())
        if attr == "keys":
            return list(base.keys())
        if attr == "values":
            return list(base.values())
        if attr == "copy":
            return dict(base)
        if attr == "update":
            base.update(*args, **kw)
            return None
        if attr == "setdefault":
            return base.setdefault(args[0], args[1] if len(args) > 1 else None)
        if attr == "pop":
            return base.pop(*args)
        raise OutsideFragment(f"dict.{attr}")
    if isinstance(base, (set, frozenset)):
        from .kpe import _hash
        if attr == "add":
            base.add(_hash(args[0]))
            return None
        if attr in ("discard", "remove"):
            getattr(base, attr)(_hash(args[0]))
            return None
        if attr == "update":
            for a in args:
                base.update(_hash(x) for x in ip.iterate(a))
            return None
        if attr == "copy":
            return set(base)
        raise OutsideFragment(f"set.{attr}")
    if isinstance(base, tuple):
        if attr == "index":
            return base.index(args[0])
        if attr == "count":
            return base.count(args[0])
    if isinstance(base, str):
        if attr in ("lower", "upper", "strip"):
            return getattr(base, attr)()
        if attr == "startswith":
            return base.startswith(args[0])
        if attr == "format":
            return "<fmt>"
        if attr == "join":
            return "<str>"
    if isinstance(base, sp.Basic):
        if attr in ("conjugate", "conj"):
            return sp.conjugate(base)
        if attr in ("item", "copy"):
            return base
    raise OutsideFragment(f"method {attr} on {type(base).__name__}")
