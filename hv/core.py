"""Reporting, evidence, known findings and exit-code plumbing shared by all rules.

Nothing in here looks at hiten; it only records what the rule modules decided.
Exit codes: 0 held, 1 VIOLATION (unlisted), 2 ANALYSIS-ERROR (anchor vanished /
code left the analysable fragment).
"""
from __future__ import annotations

import json
import os
import sys
import time
import traceback

VERIF = os.path.dirname(os.path.dirname(os.path.abspath(__file__)))
REPO = os.environ.get("HV_REPO", "/repo")
SRC = os.path.join(REPO, "src")
KNOWN_FINDINGS = os.path.join(VERIF, "known_findings.json")


class AnalysisError(Exception):
    """The code left the analysable fragment or a named anchor could not be resolved."""


CURRENT = []


class Check:
    def __init__(self, pid: str, tier: str, level: str, explanation: str, trusted_base=None):
        CURRENT[:] = [self]
        self.pid = pid
        self.tier = tier
        self.level = level
        self.explanation = explanation
        self.trusted_base = list(trusted_base or [])
        self.t0 = time.time()
        self.obligations = 0
        self.discharged = 0
        self.nontrivial = set()
        self.samples = []
        self.violations = []      # dicts
        self.known_hits = []      # dicts
        self.notes = []
        self.rule_counts = {}
        self.analysed = {}        # free-form counters: functions, call sites, paths...
        self.assumptions = []
        self.floors = []
        self._known = self._load_known()

    # ------------------------------------------------------------------ known findings
    def _load_known(self):
        try:
            with open(KNOWN_FINDINGS) as fh:
                data = json.load(fh)
        except FileNotFoundError:
            return []
        return [e for e in data.get("findings", []) if e.get("property") == self.pid
                and e.get("status") == "known"]

    def _is_known(self, rule, construct):
        for e in self._known:
            if e.get("rule") == rule and e.get("construct") == construct:
                return e
        return None

    # ------------------------------------------------------------------ recording
    def count(self, key, n=1):
        self.analysed[key] = self.analysed.get(key, 0) + n

    def ok(self, rule, construct, detail="", nontrivial=True, sample=None):
        """One obligation examined and discharged."""
        self.obligations += 1
        self.discharged += 1
        self.rule_counts[rule] = self.rule_counts.get(rule, 0) + 1
        if nontrivial:
            self.nontrivial.add((rule, construct))
        if sample is not None and len([s for s in self.samples if s.get("rule") == rule]) < 2:
            self.samples.append({"rule": rule, "construct": construct, "verdict": "holds",
                                 "detail": _short(sample)})
        elif detail and len([s for s in self.samples if s.get("rule") == rule]) < 1:
            self.samples.append({"rule": rule, "construct": construct, "verdict": "holds",
                                 "detail": _short(detail)})

    def fail(self, rule, construct, message, **data):
        """One obligation examined and violated."""
        self.obligations += 1
        self.rule_counts[rule] = self.rule_counts.get(rule, 0) + 1
        self.nontrivial.add((rule, construct))
        rec = {"property": self.pid, "rule": rule, "construct": construct, "message": message}
        rec.update({k: _short(v, 2000) for k, v in data.items()})
        known = self._is_known(rule, construct)
        if known is not None:
            rec["known"] = known.get("what", "")
            self.known_hits.append(rec)
        else:
            self.violations.append(rec)

    def check(self, cond, rule, construct, message="", detail="", nontrivial=True, sample=None, **data):
        if cond:
            self.ok(rule, construct, detail=detail, nontrivial=nontrivial, sample=sample)
        else:
            self.fail(rule, construct, message or detail, **data)
        return bool(cond)

    def note(self, text):
        self.notes.append(text)

    def floor(self, what, got, minimum):
        """Fail closed if a rule matched fewer instances than were confirmed by hand."""
        self.floors.append({"what": what, "got": got, "min": minimum})
        if got < minimum:
            raise AnalysisError(f"floor not met: {what}: analysed {got} < confirmed {minimum}")

    # ------------------------------------------------------------------ finish
    def finish(self):
        wall = time.time() - self.t0
        seed = int(os.environ.get("VERIF_SEED", "0") or 0)
        cov = {
            "evaluations": self.obligations,
            "distinct_nontrivial": len(self.nontrivial),
            "rule": "one evaluation = one rule instance (obligation) decided from /repo's source; "
                    "non-trivial = distinct (rule, construct) pairs whose verdict depended on "
                    "non-constant content of the code",
            "samples": self.samples[:40] or [{"note": "no samples"}],
            "obligations": self.obligations,
            "discharged": self.discharged,
            "checker_cmd": f"python3-vt /verif/vcheck {self.pid} --tier {self.tier}",
            "trusted_base": self.trusted_base,
            "explanation": self.explanation,
            "rule_instances": self.rule_counts,
            "analysed": self.analysed,
            "floors": self.floors,
            "notes": self.notes[:60],
            "known_findings_hit": [{"rule": k["rule"], "construct": k["construct"]} for k in self.known_hits],
            "violations_detail": self.violations[:50],
        }
        level = self.level
        if level == "proof" and self.discharged != self.obligations:
            # an undischarged obligation: the file still records what was covered
            level = "other"
        ev = {
            "property_id": self.pid,
            "tier": self.tier,
            "seed": seed,
            "level": level,
            "coverage": cov,
            "assumptions": self.assumptions,
            "wall_s": round(wall, 3),
            "violations": len(self.violations),
        }
        if not os.environ.get("HV_NO_EVIDENCE"):
            os.makedirs(os.path.join(VERIF, "evidence"), exist_ok=True)
            with open(os.path.join(VERIF, "evidence", f"{self.pid}.json"), "w") as fh:
                json.dump(ev, fh, indent=1, sort_keys=True, default=str)
                fh.write("\n")
        print(f"[{self.pid}] tier={self.tier} obligations={self.obligations} discharged={self.discharged} "
              f"nontrivial={len(self.nontrivial)} wall={wall:.2f}s")
        for k, v in sorted(self.rule_counts.items()):
            print(f"  rule {k}: {v} instance(s)")
        for k, v in sorted(self.analysed.items()):
            print(f"  analysed {k}: {v}")
        for n in self.notes[:30]:
            print(f"  note: {n}")
        for k in self.known_hits:
            print(f"KNOWN-FINDING: property={self.pid} rule={k['rule']} construct={k['construct']} :: {k['known'] or k['message']}")
        if self.violations:
            rdir = os.environ.get("HV_REPLAY_DIR") or os.path.join(VERIF, "replay")
            if os.environ.get("HV_NO_EVIDENCE"):
                import tempfile
                rdir = tempfile.gettempdir()
            os.makedirs(rdir, exist_ok=True)
            path = os.path.join(rdir, f"{self.pid}.json")
            with open(path, "w") as fh:
                json.dump({"property": self.pid, "tier": self.tier, "violations": self.violations}, fh,
                          indent=1, default=str)
                fh.write("\n")
            for v in self.violations:
                print(f"  violated {v['rule']} at {v['construct']}: {v['message']}")
                print(f"VIOLATION property={self.pid} replay={path}")
            return 1
        return 0


def _short(x, n=600):
    s = x if isinstance(x, (int, float, bool, list, dict)) or x is None else str(x)
    if isinstance(s, str) and len(s) > n:
        s = s[:n] + "…"
    return s


def run_rule_module(pid, tier, fn):
    """Run `fn(tier) -> Check`, mapping exceptions to exit code 2."""
    t0 = time.time()
    try:
        chk = fn(tier)
        return chk.finish()
    except AnalysisError as exc:
        print(f"ANALYSIS-ERROR property={pid} {exc}")
        if CURRENT and CURRENT[0].pid == pid and CURRENT[0].violations:
            # violations already established before the analysis left its fragment are still reported
            CURRENT[0].note(f"analysis stopped early: {exc}")
            return CURRENT[0].finish()
        _broken_evidence(pid, tier, str(exc), time.time() - t0)
        return 2
    except Exception as exc:  # noqa: BLE001 - tracebacks must not look like violations
        traceback.print_exc()
        print(f"ANALYSIS-ERROR property={pid} internal: {type(exc).__name__}: {exc}")
        if CURRENT and CURRENT[0].pid == pid and CURRENT[0].violations:
            CURRENT[0].note(f"analysis stopped early: {type(exc).__name__}: {exc}")
            return CURRENT[0].finish()
        _broken_evidence(pid, tier, f"{type(exc).__name__}: {exc}", time.time() - t0)
        return 2


def _broken_evidence(pid, tier, msg, wall):
    if os.environ.get("HV_NO_EVIDENCE"):
        return
    ev = {"property_id": pid, "tier": tier, "seed": 0, "level": "other",
          "coverage": {"explanation": "ANALYSIS-ERROR: " + msg, "evaluations": 0, "distinct_nontrivial": 0},
          "wall_s": round(wall, 3), "violations": 0}
    os.makedirs(os.path.join(VERIF, "evidence"), exist_ok=True)
    with open(os.path.join(VERIF, "evidence", f"{pid}.json"), "w") as fh:
        json.dump(ev, fh, indent=1)
        fh.write("\n")
